package gen

import (
	"verifharness/ref"
)

// MSMOpts steers RandMSM.
type MSMOpts struct {
	Type         int  // 0 = pick one of the fourteen
	FixTimestamp bool // use exactly Timestamp (otherwise a random legal one)
	Timestamp    uint
	AllowNoCell  bool // allow masks with no cell at all (then the multiple-message flag is clear)
}

// RandMSM builds a random well-formed MSM4/MSM7 message description.
func RandMSM(r *ref.SplitMix64, o MSMOpts) *ref.MSM {
	m := &ref.MSM{Type: o.Type, CellsSent: -1}
	if m.Type == 0 {
		m.Type = ref.MSMTypes[r.Intn(len(ref.MSMTypes))]
	}
	msm7 := ref.IsMSM7(m.Type)
	m.StationID = uint(r.Intn(4096))
	if r.Chance(1, 8) {
		m.StationID = []uint{0, 4095, 1}[r.Intn(3)]
	}
	switch {
	case o.FixTimestamp:
		m.Timestamp = o.Timestamp
	case ref.ConstellationOf(m.Type) == "Glonass":
		m.Timestamp = uint(r.Intn(7))<<27 | uint(r.Intn(86400000))
	default:
		m.Timestamp = uint(r.Intn(604800000))
	}
	m.IODS = uint(r.Intn(8))
	m.SessTime = uint(r.Intn(128))
	m.ClkSteer = uint(r.Intn(4))
	m.ExtClk = uint(r.Intn(4))
	m.Smoothing = r.Chance(1, 2)
	m.SmoothInt = uint(r.Intn(8))

	// mask shape
	nsat, nsig := 0, 0
	switch r.Intn(12) {
	case 0:
		nsat, nsig = 0, r.Intn(4) // empty satellite mask
	case 1:
		nsat, nsig = r.Range(1, 8), 0 // empty signal mask
	case 2:
		nsat, nsig = 1, 1
	case 3:
		nsat, nsig = 1, r.Range(1, 32)
	case 4:
		nsat, nsig = 64, 1
	case 5:
		nsat, nsig = r.Range(1, 64), 1
	case 6:
		nsat, nsig = 32, 2
	case 7:
		nsat, nsig = 2, 32
	default:
		nsat = r.Range(1, 16)
		nsig = r.Range(1, 64/nsat)
		if nsig > 32 {
			nsig = 32
		}
	}
	if !o.AllowNoCell && (nsat == 0 || nsig == 0) {
		nsat, nsig = r.Range(1, 8), r.Range(1, 4)
	}
	m.SatMask = pickBits64(r, nsat)
	m.SigMask = uint32(pickBits64(r, nsig, 32) >> 32)
	ncellBits := nsat * nsig
	m.CellMask = make([]bool, ncellBits)
	switch r.Intn(6) {
	case 0: // all ones
		for i := range m.CellMask {
			m.CellMask[i] = true
		}
	case 1: // a single one
		if ncellBits > 0 {
			m.CellMask[r.Intn(ncellBits)] = true
		}
	case 2: // sparse rows: some satellites have no cell at all
		for i := range m.CellMask {
			m.CellMask[i] = r.Chance(1, 5)
		}
	case 3: // dense
		for i := range m.CellMask {
			m.CellMask[i] = r.Chance(4, 5)
		}
	default:
		for i := range m.CellMask {
			m.CellMask[i] = r.Chance(1, 2)
		}
	}
	ncell := 0
	for _, b := range m.CellMask {
		if b {
			ncell++
		}
	}
	if ncell == 0 && !o.AllowNoCell && ncellBits > 0 {
		m.CellMask[r.Intn(ncellBits)] = true
		ncell = 1
	}
	m.Multiple = ncell > 0 && r.Chance(1, 2)

	style := r.Intn(8)
	m.Sats = make([]ref.Sat, nsat)
	for i := range m.Sats {
		s := &m.Sats[i]
		switch style {
		case 0: // all-zero
		case 1: // all-ones
			s.Whole, s.Ext, s.Frac, s.Rate = 255, 15, 1023, -1
		default:
			s.Whole = uint(r.Intn(256))
			if r.Chance(1, 10) {
				s.Whole = []uint{255, 254, 0}[r.Intn(3)]
			}
			s.Ext = uint(r.Intn(16))
			s.Frac = uint(r.Intn(1024))
			s.Rate = r.Range(-8192, 8191)
			if r.Chance(1, 10) {
				s.Rate = []int{-8192, -8191, 8191, 0, -1}[r.Intn(5)]
			}
		}
		if !msm7 {
			s.Ext, s.Rate = 0, 0
		}
	}
	m.Sigs = make([]ref.Sig, ncell)
	rdBits, pdBits, lockBits, cnrBits := uint(15), uint(22), uint(4), uint(6)
	if msm7 {
		rdBits, pdBits, lockBits, cnrBits = 20, 24, 10, 10
	}
	for i := range m.Sigs {
		s := &m.Sigs[i]
		switch {
		case style == 0 || (style == 2 && r.Chance(1, 2)): // all-zero cell
		case style == 1:
			s.RangeDelta, s.PhaseDelta, s.Lock, s.Half, s.CNR, s.RateDelta = -1, -1, 1<<lockBits-1, true, 1<<cnrBits-1, -1
		default:
			s.RangeDelta = signedField(r, rdBits)
			s.PhaseDelta = signedField(r, pdBits)
			s.Lock = uint(r.Intn(1 << lockBits))
			s.Half = r.Chance(1, 2)
			s.CNR = uint(r.Intn(1 << cnrBits))
			s.RateDelta = signedField(r, 15)
			if style == 3 { // lock / half-cycle / CNR all zero: the tail of the message is all zero bits
				s.Lock, s.Half, s.CNR, s.RateDelta = 0, false, 0, 0
			}
		}
		if r.Chance(1, 12) {
			// a cell in which nothing was measured: every signed field holds its
			// 'invalid' marker, lock time and C/N0 are zero (the half-cycle flag either way)
			s.RangeDelta, s.PhaseDelta, s.RateDelta = -(1 << (rdBits - 1)), -(1 << (pdBits - 1)), -(1 << 14)
			s.Lock, s.CNR, s.Half = 0, 0, r.Chance(1, 2)
		}
		if !msm7 {
			s.RateDelta = 0
		}
	}
	return m
}

// signedField picks a value of an n-bit two's complement field, favouring the
// 'invalid' marker (minimum), its neighbours, and the extremes.
func signedField(r *ref.SplitMix64, n uint) int {
	min := -(1 << (n - 1))
	max := 1<<(n-1) - 1
	switch r.Intn(12) {
	case 0:
		return min
	case 1:
		return min + 1
	case 2:
		return max
	case 3:
		return -1
	case 4:
		return 0
	case 5:
		return 1
	case 6:
		// plus or minus a power of two and its neighbours (the "invalid" markers of
		// the narrower fields of the other MSM format are among them)
		v := 1 << uint(r.Intn(int(n)-1))
		if r.Chance(1, 2) {
			v = -v
		}
		v += r.Intn(3) - 1
		if v < min {
			v = min
		}
		if v > max {
			v = max
		}
		return v
	}
	return r.Range(min, max)
}

// pickBits64 returns a 64-bit mask with n bits set among the top 'width' bits.
func pickBits64(r *ref.SplitMix64, n int, width ...int) uint64 {
	w := 64
	if len(width) > 0 {
		w = width[0]
	}
	if n > w {
		n = w
	}
	var m uint64
	if n == w {
		for i := 0; i < w; i++ {
			m |= uint64(1) << uint(63-i)
		}
		return m
	}
	for cnt := 0; cnt < n; {
		b := uint(63 - r.Intn(w))
		if m&(uint64(1)<<b) == 0 {
			m |= uint64(1) << b
			cnt++
		}
	}
	return m
}

// MaxPad is the largest number of padding bytes that still fits the 1023-byte payload limit.
func MaxPad(m *ref.MSM) int {
	n := (ref.MSMBits(m) + 7) / 8
	return 1023 - n
}

// RandBase builds a random 1005/1006 description.
func RandBase(r *ref.SplitMix64, t int) *ref.Base {
	b := &ref.Base{Type: t}
	b.StationID = uint(r.Intn(4096))
	b.ITRF = uint(r.Intn(64))
	b.Ign1 = uint(r.Intn(16))
	b.Ign2 = uint(r.Intn(4))
	b.Ign3 = uint(r.Intn(4))
	b.X, b.Y, b.Z = Coord(r), Coord(r), Coord(r)
	b.Height = uint(r.Intn(65536))
	if r.Chance(1, 6) {
		b.Height = []uint{0, 1, 9999, 10000, 65535}[r.Intn(5)]
	}
	if r.Chance(1, 3) {
		b.Trailing = make([]byte, r.Range(1, 8))
		if r.Chance(1, 2) {
			copy(b.Trailing, r.Bytes(len(b.Trailing)))
		}
	}
	return b
}

// BoundaryCoords are the interesting 38-bit signed values.
func BoundaryCoords() []int64 {
	out := []int64{-(1 << 37), -(1 << 37) + 1, -10000, -9999, -10001, -5, -1, 0, 1, 5, 9999, 10000, 10001, (1 << 37) - 1, (1 << 37) - 2}
	for p := uint(1); p < 37; p++ {
		v := int64(1) << p
		out = append(out, v, v-1, v+1, -v, -v-1, -v+1)
	}
	// round distances: powers of ten (in tenths of a millimetre) and their neighbours
	for v := int64(10); v < 1<<37; v *= 10 {
		out = append(out, v, v-1, v+1, -v, -v-1, -v+1)
	}
	return out
}

// Coord picks a 38-bit signed coordinate.
func Coord(r *ref.SplitMix64) int64 {
	if r.Chance(1, 4) {
		b := BoundaryCoords()
		return b[r.Intn(len(b))]
	}
	if r.Chance(1, 3) {
		// realistic ECEF magnitudes (up to ~6.4e6 m = 6.4e10 units)
		return int64(r.Uint64()%130000000000) - 65000000000
	}
	return int64(r.Uint64()&((1<<38)-1)) - (1 << 37)
}
