// Package gen holds the seeded workload generators.  A generated stream is returned
// as its list of segments, which is the expected answer "by construction".
package gen

import (
	"fmt"

	"verifharness/ref"
)

// Seg is one segment of a generated stream.
type Seg struct {
	Kind  string `json:"kind"`  // frame | junk | trunc | hostile
	Type  int    `json:"type"`  // message type for frames, -1 otherwise
	Bytes []byte `json:"bytes"` // the segment's bytes
}

// Stream is a list of segments.
type Stream []Seg

// Bytes concatenates the segments.
func (s Stream) Bytes() []byte {
	var out []byte
	for _, g := range s {
		out = append(out, g.Bytes...)
	}
	return out
}

// Expected is a (type, bytes) pair the stream handler should deliver.
type Expected struct {
	Type  int
	Bytes []byte
}

// ExpectedClean computes, by construction, what a clean stream (frames, 0xD3-free
// junk, optional truncated tail) must be delivered as: frames typed with exactly
// their bytes, adjacent junk runs merged, the truncated tail as one non-RTCM message.
func (s Stream) ExpectedClean() []Expected {
	var out []Expected
	for _, g := range s {
		switch g.Kind {
		case "frame":
			out = append(out, Expected{Type: g.Type, Bytes: g.Bytes})
		default:
			if len(g.Bytes) == 0 {
				continue
			}
			if g.Kind == "junk" && len(out) > 0 && out[len(out)-1].Type == -1 {
				// adjacent junk merges with the previous junk run
				out[len(out)-1].Bytes = append(append([]byte(nil), out[len(out)-1].Bytes...), g.Bytes...)
			} else {
				out = append(out, Expected{Type: -1, Bytes: g.Bytes})
			}
		}
	}
	return out
}

// DecodableTypes are the types the library decodes fully, plus a few others of interest.
var DecodableTypes = []int{1005, 1006, 1074, 1077, 1084, 1087, 1094, 1097, 1104, 1107, 1114, 1117, 1124, 1127, 1134, 1137}

// PickType chooses a message type: mostly interesting ones, sometimes any 12-bit value.
func PickType(r *ref.SplitMix64) int {
	switch r.Intn(10) {
	case 0, 1, 2, 3:
		return DecodableTypes[r.Intn(len(DecodableTypes))]
	case 4:
		return []int{1230, 1, 0, 4095, 1033, 1019, 1075, 1076, 1071, 4072}[r.Intn(10)]
	default:
		return r.Intn(4096)
	}
}

// BoundaryLens are the payload lengths around the interesting boundaries.
var BoundaryLens = []int{1, 2, 3, 4, 5, 6, 7, 8, 19, 21, 22, 23, 24, 25, 255, 256, 257, 511, 512, 513, 1021, 1022, 1023}

// PickLen chooses a payload length.
func PickLen(r *ref.SplitMix64) int {
	switch r.Intn(8) {
	case 0:
		return BoundaryLens[r.Intn(len(BoundaryLens))]
	case 1:
		return r.Range(1, 1023)
	case 2:
		return r.Range(1, 12)
	default:
		return r.Range(8, 120)
	}
}

// SafeMSMPayload says whether an MSM-typed payload is long enough to hold the
// timestamp the single-frame decoder extracts (type, station id and 30-bit
// timestamp = 54 bits).  Shorter CRC-valid MSM frames are exactly the crash input
// of property C07 and are generated there; the other monitors avoid them only
// while running sequences where one crash would mask everything else.
func SafeMSMPayload(msgType, plen int) bool {
	if !(ref.IsMSM4(msgType) || ref.IsMSM7(msgType)) {
		return true
	}
	return plen >= 7
}

// RandPayload makes a payload of the given type and length with random content.
// d3 controls how 0xD3 bytes appear in it: 0 leave as random, 1 sprinkle some,
// 2 remove them all.
func RandPayload(r *ref.SplitMix64, msgType, plen int, d3 int) []byte {
	p := r.Bytes(plen)
	p[0] = byte(msgType >> 4)
	if plen > 1 {
		p[1] = byte(msgType<<4) | (p[1] & 0x0F)
	}
	switch d3 {
	case 1:
		k := 1 + r.Intn(4)
		for i := 0; i < k && plen > 2; i++ {
			p[r.Range(2, plen-1)] = 0xD3
		}
	case 2:
		for i := 2; i < plen; i++ {
			if p[i] == 0xD3 {
				p[i] = 0x3D
			}
		}
	}
	return p
}

// RandFrame makes a valid frame of random type/length/content.
func RandFrame(r *ref.SplitMix64) Seg {
	t := PickType(r)
	n := PickLen(r)
	if n == 1 {
		// a one byte payload only holds the top 8 bits of the type
		t = t &^ 0x0F
	}
	p := RandPayload(r, t, n, r.Intn(3))
	f := ref.Frame(p)
	return Seg{Kind: "frame", Type: ref.TypeOf(f), Bytes: f}
}

// FrameWithCRC builds a valid frame of a type that is not decoded (so that its last
// payload bytes are free) whose three CRC bytes are exactly the given value - all
// zeros, all ones, three start bytes, ...  CRC-24Q is linear over GF(2) (no initial
// value, no final xor): the last 24 payload bits are solved for by elimination.
func FrameWithCRC(r *ref.SplitMix64, target uint32) Seg {
	for {
		n := r.Range(6, 60)
		t := []int{1230, 1013, 1029, 4072, 1033, 63, 2000}[r.Intn(7)]
		p := RandPayload(r, t, n, 0)
		for i := n - 3; i < n; i++ {
			p[i] = 0
		}
		f := []byte{0xD3, byte(n >> 8), byte(n)}
		f = append(f, p...)
		base := ref.CRC24Q(f)
		// contribution of each of the 24 free bits
		var col [24]uint32
		zero := make([]byte, len(f))
		for b := 0; b < 24; b++ {
			bit := (len(f)-3)*8 + b
			zero[bit/8] = 1 << uint(7-bit%8)
			col[b] = ref.CRC24Q(zero)
			zero[bit/8] = 0
		}
		// solve base ^ XOR(x_b * col[b]) = target by Gaussian elimination
		want := base ^ target
		var rows [24]uint32 // row i: coefficients of x for CRC bit i, bit 24 = right-hand side
		for i := 0; i < 24; i++ {
			var row uint32
			for b := 0; b < 24; b++ {
				if col[b]>>uint(i)&1 == 1 {
					row |= 1 << uint(b)
				}
			}
			if want>>uint(i)&1 == 1 {
				row |= 1 << 24
			}
			rows[i] = row
		}
		ok := true
		var pivotOf [24]int
		rank := 0
		for b := 0; b < 24 && ok; b++ {
			sel := -1
			for i := rank; i < 24; i++ {
				if rows[i]>>uint(b)&1 == 1 {
					sel = i
					break
				}
			}
			if sel < 0 {
				ok = false
				break
			}
			rows[rank], rows[sel] = rows[sel], rows[rank]
			for i := 0; i < 24; i++ {
				if i != rank && rows[i]>>uint(b)&1 == 1 {
					rows[i] ^= rows[rank]
				}
			}
			pivotOf[b] = rank
			rank++
		}
		if !ok {
			continue
		}
		for b := 0; b < 24; b++ {
			if rows[pivotOf[b]]>>24&1 == 1 {
				bit := (len(f)-3)*8 + b
				f[bit/8] |= 1 << uint(7-bit%8)
			}
		}
		c := ref.CRC24Q(f)
		if c != target {
			continue
		}
		f = append(f, byte(c>>16), byte(c>>8), byte(c))
		if ref.IsFrame(f) {
			return Seg{Kind: "frame", Type: ref.TypeOf(f), Bytes: f}
		}
	}
}

// FrameWithCRCByteD3 searches for a payload whose frame has a 0xD3 among its CRC
// bytes (position 0, 1 or 2 of the CRC) - frames whose CRC contains the preamble
// byte are explicitly named by C03.
func FrameWithCRCByteD3(r *ref.SplitMix64, pos int) Seg {
	for {
		t := PickType(r)
		n := r.Range(4, 40)
		p := RandPayload(r, t, n, 2)
		f := ref.Frame(p)
		if f[len(f)-3+pos] == 0xD3 {
			return Seg{Kind: "frame", Type: ref.TypeOf(f), Bytes: f}
		}
	}
}

// NoD3 replaces every 0xD3 in b.
func NoD3(b []byte) []byte {
	for i := range b {
		if b[i] == 0xD3 {
			b[i] = 0x3D
		}
	}
	return b
}

// Junk makes a 0xD3-free run of other data: NMEA-like text, UBX-like binary, or random.
func Junk(r *ref.SplitMix64) Seg {
	var b []byte
	switch r.Intn(7) {
	case 6:
		// crumbs of the protocols RTCM travels in: HTTP chunk sizes and chunk ends, a
		// caster's greeting, a modem's answer, an empty line, a hex word
		crumbs := []string{"1f4\r\n", "\r\n0\r\n\r\n", "\r\n00c0ffee\r\n", "0\r\n", "\r\n", "OK\r\n", "ICY 200 OK\r\n\r\n", "\r\n3e8\r\n", "ff", "CONNECT 9600\r\n", "\n", "A5\r\n\r\n", "ENDSOURCETABLE\r\n"}
		b = []byte(crumbs[r.Intn(len(crumbs))])
	case 0:
		body := fmt.Sprintf("GPGGA,%06d.00,5130.%04d,N,00007.%04d,W,1,%02d,0.9,%d.1,M,47.0,M,,", r.Intn(240000), r.Intn(10000), r.Intn(10000), r.Intn(13), r.Intn(500))
		cs := byte(0)
		for i := 0; i < len(body); i++ {
			cs ^= body[i]
		}
		b = []byte(fmt.Sprintf("$%s*%02X\r\n", body, cs))
	case 1:
		n := r.Range(0, 60)
		b = append([]byte{0xB5, 0x62, byte(r.Intn(16)), byte(r.Intn(64)), byte(n), 0}, NoD3(r.Bytes(n+2))...)
	case 2:
		b = NoD3(r.Bytes(1))
	case 3:
		b = NoD3(r.Bytes(r.Range(1, 2000)))
	case 4:
		b = []byte("GET /mount HTTP/1.1\r\nUser-Agent: NTRIP verif\r\n\r\n")
	default:
		b = NoD3(r.Bytes(r.Range(1, 40)))
	}
	return Seg{Kind: "junk", Type: -1, Bytes: b}
}

// CleanOpts controls CleanStream.
type CleanOpts struct {
	MinFrames, MaxFrames int
	TruncTail            bool // may end in a truncated frame
	ForceLen             int  // if >0 one frame gets exactly this payload length
	SafeMSM              bool // avoid CRC-valid MSM frames too short for a timestamp (C07's crash input)
	SmallFrames          bool // keep frames short (for exhaustive fault enumeration)
}

// CleanStream builds a stream satisfying the precondition of C03: valid frames
// interleaved with 0xD3-free runs, optionally ending in a truncated frame.
func CleanStream(r *ref.SplitMix64, o CleanOpts) Stream {
	var s Stream
	n := r.Range(o.MinFrames, o.MaxFrames)
	forceAt := -1
	if o.ForceLen > 0 {
		forceAt = r.Intn(n)
	}
	if r.Chance(1, 2) {
		s = append(s, Junk(r))
	}
	for i := 0; i < n; i++ {
		var f Seg
		for {
			switch {
			case i == forceAt:
				t := PickType(r)
				if o.ForceLen == 1 {
					t = t &^ 0x0F
				}
				p := RandPayload(r, t, o.ForceLen, r.Intn(3))
				fb := ref.Frame(p)
				f = Seg{Kind: "frame", Type: ref.TypeOf(fb), Bytes: fb}
			case o.SmallFrames:
				t := PickType(r)
				pl := r.Range(2, 30)
				p := RandPayload(r, t, pl, r.Intn(3))
				fb := ref.Frame(p)
				f = Seg{Kind: "frame", Type: ref.TypeOf(fb), Bytes: fb}
			case r.Chance(1, 12):
				f = FrameWithCRCByteD3(r, r.Intn(3))
			case r.Chance(1, 14):
				// a valid frame whose CRC happens to be a remarkable value
				f = FrameWithCRC(r, []uint32{0x000000, 0xFFFFFF, 0xD3D3D3, 0xD30000, 0x0000D3, 0x000001, 0x0D0A0D, 0x800000}[r.Intn(8)])
			default:
				f = RandFrame(r)
			}
			if !o.SafeMSM || SafeMSMPayload(f.Type, len(f.Bytes)-6) {
				break
			}
			if i == forceAt {
				// forced short length: pick a non-MSM type instead
				continue
			}
		}
		s = append(s, f)
		// between frames: nothing (back to back), one junk run, or two adjacent runs
		switch r.Intn(5) {
		case 0, 1:
		case 2:
			s = append(s, Junk(r), Junk(r))
		default:
			s = append(s, Junk(r))
		}
	}
	if o.TruncTail && r.Chance(1, 2) {
		var f Seg
		for {
			f = RandFrame(r)
			if len(f.Bytes) > 1 {
				break
			}
		}
		cut := r.Range(1, len(f.Bytes)-1)
		s = append(s, Seg{Kind: "trunc", Type: -1, Bytes: f.Bytes[:cut]})
	}
	return s
}

// HostileStream builds an arbitrary stream: valid frames mixed with stray 0xD3
// bytes, near-miss leaders, corrupted and truncated frames and random data.  The
// segment list is informative only; the properties that use hostile streams (C01,
// C02, C07) have oracles that do not need an expected sequence.
// SelfConsistentNonFrame builds bytes that are not an RTCM3 frame - the six reserved
// bits are not all zero, or the length field is zero - but that a sloppy reading of
// the leader would accept: the body is as long as that reading says and the last
// three bytes are the CRC-24Q of everything before them.
// NonFrameWithLeader: the leader bytes b1, b2 must not form a valid leader; the body
// has bodyLen bytes and the CRC-24Q of everything follows.
func NonFrameWithLeader(r *ref.SplitMix64, b1, b2 byte, bodyLen int) Seg {
	b := append([]byte{0xD3, b1, b2}, r.Bytes(bodyLen)...)
	if bodyLen >= 2 {
		t := PickType(r)
		b[3], b[4] = byte(t>>4), byte(t<<4)|b[4]&0x0f
	}
	c := ref.CRC24Q(b)
	return Seg{Kind: "hostile", Type: -1, Bytes: append(b, byte(c>>16), byte(c>>8), byte(c))}
}

func SelfConsistentNonFrame(r *ref.SplitMix64) Seg {
	var b1, b2 byte
	bodyLen := 0
	switch r.Intn(4) {
	case 0: // reserved bits set, body as long as the low ten bits say
		l := PickLen(r)
		b1, b2 = byte(1+r.Intn(63))<<2|byte(l>>8), byte(l)
		bodyLen = l
	case 1: // the two bytes read as one 16-bit length (only the lowest reserved bits set)
		l := []int{1024, 1025, 1024 + r.Intn(1024), 2047, 2048, 2048 + r.Intn(900)}[r.Intn(6)]
		b1, b2 = byte(l>>8), byte(l)
		bodyLen = l
	case 2: // zero length field, reserved bits zero or not, some bytes, CRC
		b1, b2 = byte(r.Intn(64))<<2, 0
		bodyLen = r.Range(0, 40)
	default: // zero length field read as 1024 (a ten-bit field that "wrapped")
		b1, b2 = byte(r.Intn(64))<<2, 0
		bodyLen = 1024
	}
	b := append([]byte{0xD3, b1, b2}, r.Bytes(bodyLen)...)
	if bodyLen >= 2 {
		// a plausible message type in the first twelve bits
		t := PickType(r)
		b[3], b[4] = byte(t>>4), byte(t<<4)|b[4]&0x0f
	}
	c := ref.CRC24Q(b)
	return Seg{Kind: "hostile", Type: -1, Bytes: append(b, byte(c>>16), byte(c>>8), byte(c))}
}

func HostileStream(r *ref.SplitMix64, safeMSM bool) Stream {
	var s Stream
	n := r.Range(1, 14)
	for i := 0; i < n; i++ {
		switch r.Intn(15) {
		case 14:
			s = append(s, SelfConsistentNonFrame(r))
		case 0, 1, 2, 3:
			f := RandFrame(r)
			if safeMSM && !SafeMSMPayload(f.Type, len(f.Bytes)-6) {
				continue
			}
			s = append(s, f)
		case 4:
			s = append(s, Junk(r))
		case 5: // stray preamble bytes
			k := r.Range(1, 6)
			b := make([]byte, k)
			for j := range b {
				b[j] = 0xD3
			}
			s = append(s, Seg{Kind: "hostile", Type: -1, Bytes: b})
		case 6: // near-miss leader: reserved bits set
			f := RandFrame(r)
			b := append([]byte(nil), f.Bytes...)
			b[1] |= byte(1+r.Intn(63)) << 2
			s = append(s, Seg{Kind: "hostile", Type: -1, Bytes: b})
		case 7: // zero length leader
			s = append(s, Seg{Kind: "hostile", Type: -1, Bytes: append([]byte{0xD3, 0x00, 0x00}, r.Bytes(r.Range(0, 12))...)})
		case 8: // corrupted frame (one CRC byte, payload bit, or burst)
			f := RandFrame(r)
			b := append([]byte(nil), f.Bytes...)
			switch r.Intn(4) {
			case 0:
				b[len(b)-1-r.Intn(3)] ^= byte(1 << uint(r.Intn(8)))
			case 1:
				b[r.Range(3, len(b)-1)] ^= byte(1 + r.Intn(255))
			case 2:
				b[r.Range(3, len(b)-1)] = 0xD3
			default:
				for j := r.Range(3, len(b)-1); j < len(b) && r.Chance(3, 4); j++ {
					b[j] ^= byte(r.Intn(256))
				}
			}
			s = append(s, Seg{Kind: "hostile", Type: -1, Bytes: b})
		case 9: // length field edited by +-1, CRC recomputed or not
			f := RandFrame(r)
			b := append([]byte(nil), f.Bytes...)
			l := int(b[1]&3)<<8 | int(b[2])
			if r.Chance(1, 2) {
				l++
			} else {
				l--
			}
			l &= 0x3FF
			b[1] = byte(l >> 8)
			b[2] = byte(l)
			if r.Chance(1, 2) {
				c := ref.CRC24Q(b[:len(b)-3])
				b[len(b)-3], b[len(b)-2], b[len(b)-1] = byte(c>>16), byte(c>>8), byte(c)
			}
			s = append(s, Seg{Kind: "hostile", Type: -1, Bytes: b})
		case 10: // truncated frame in the middle of the stream
			f := RandFrame(r)
			if len(f.Bytes) > 1 {
				s = append(s, Seg{Kind: "hostile", Type: -1, Bytes: f.Bytes[:r.Range(1, len(f.Bytes)-1)]})
			}
		case 11: // random bytes dense in 0xD3
			b := r.Bytes(r.Range(1, 300))
			for j := range b {
				if r.Chance(1, 6) {
					b[j] = 0xD3
				}
			}
			s = append(s, Seg{Kind: "hostile", Type: -1, Bytes: b})
		case 12: // maximal length claim with short data
			s = append(s, Seg{Kind: "hostile", Type: -1, Bytes: append([]byte{0xD3, 0x03, 0xFF}, r.Bytes(r.Range(0, 50))...)})
		default:
			s = append(s, Seg{Kind: "hostile", Type: -1, Bytes: r.Bytes(r.Range(1, 100))})
		}
	}
	return s
}
