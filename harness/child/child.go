// Package child is the monitor-side half of the driver/child protocol.  A child
// process runs one batch of cases of one property.  Before every case it records
// the case on disk (so a crash of the process leaves the witness behind), and at the
// end it writes a result file with what it actually observed.
package child

import (
	"encoding/json"
	"flag"
	"fmt"
	"os"
	"sort"
	"sync"
	"sync/atomic"
	"time"
)

// Violation is one refuting observation.
type Violation struct {
	Signature string          `json:"signature"` // machine-checkable class, used by known_findings
	Detail    string          `json:"detail"`
	Case      json.RawMessage `json:"case"` // replayable description of the case
}

// Result is what a child reports.
type Result struct {
	Prop         string            `json:"prop"`
	Batch        int               `json:"batch"`
	Done         bool              `json:"done"`
	Evaluations  int64             `json:"evaluations"`
	Hashes       []uint64          `json:"hashes"` // hashes of the distinct non-trivial cases
	Counters     map[string]int64  `json:"counters"`
	Samples      []json.RawMessage `json:"samples"`
	Violations   []Violation       `json:"violations"`
	Inconclusive []string          `json:"inconclusive"`
	Exhaustive   bool              `json:"exhaustive"`
	Notes        []string          `json:"notes"`
	WallS        float64           `json:"wall_s"`
}

// Ctx is the context handed to a monitor.
type Ctx struct {
	Prop    string
	Tier    string
	Seed    uint64
	Batch   int
	NBatch  int
	OutPath string
	CurPath string
	Replay  string
	BinDir  string
	WorkDir string
	Args    map[string]string

	mu      sync.Mutex
	res     Result
	hashes  map[uint64]struct{}
	cur     *os.File
	start   time.Time
	nviol   int64
	maxViol int
}

// Parse reads the command line of a child.
func Parse() *Ctx {
	c := &Ctx{Args: map[string]string{}}
	var seed uint64
	var extra string
	flag.StringVar(&c.Prop, "prop", "", "property id")
	flag.StringVar(&c.Tier, "tier", "quick", "quick|thorough")
	flag.Uint64Var(&seed, "seed", 1, "seed")
	flag.IntVar(&c.Batch, "batch", 0, "batch index")
	flag.IntVar(&c.NBatch, "nbatch", 1, "number of batches")
	flag.StringVar(&c.OutPath, "out", "", "result file")
	flag.StringVar(&c.CurPath, "cur", "", "current-case file")
	flag.StringVar(&c.Replay, "replay", "", "replay file")
	flag.StringVar(&c.BinDir, "bindir", "", "directory with binaries built from the repository")
	flag.StringVar(&c.WorkDir, "workdir", "", "scratch directory of this child")
	flag.StringVar(&extra, "args", "", "k=v,k=v extra arguments")
	flag.Parse()
	c.Seed = seed
	for _, kv := range splitComma(extra) {
		for i := 0; i < len(kv); i++ {
			if kv[i] == '=' {
				c.Args[kv[:i]] = kv[i+1:]
				break
			}
		}
	}
	c.res.Prop = c.Prop
	c.res.Batch = c.Batch
	c.res.Counters = map[string]int64{}
	c.hashes = map[uint64]struct{}{}
	c.start = time.Now()
	c.maxViol = 12
	if c.CurPath != "" {
		f, err := os.OpenFile(c.CurPath, os.O_CREATE|os.O_RDWR|os.O_TRUNC, 0644)
		if err == nil {
			c.cur = f
		}
	}
	return c
}

func splitComma(s string) []string {
	var out []string
	cur := ""
	for i := 0; i < len(s); i++ {
		if s[i] == ',' {
			if cur != "" {
				out = append(out, cur)
			}
			cur = ""
		} else {
			cur += string(s[i])
		}
	}
	if cur != "" {
		out = append(out, cur)
	}
	return out
}

// Thorough reports whether the thorough tier was requested.
func (c *Ctx) Thorough() bool { return c.Tier == "thorough" }

// Pick returns q for the quick tier and t for the thorough tier.
func (c *Ctx) Pick(q, t int) int {
	if c.Thorough() {
		return t
	}
	return q
}

// Share splits n cases over the batches and returns this batch's share.
func (c *Ctx) Share(n int) int {
	if c.NBatch <= 1 {
		return n
	}
	s := n / c.NBatch
	if c.Batch < n%c.NBatch {
		s++
	}
	return s
}

// Begin records the case that is about to run.  The record survives a crash of
// this process (it is in the page cache of a file the driver reads afterwards).
func (c *Ctx) Begin(caseJSON []byte) {
	if c.cur == nil {
		return
	}
	hdr := fmt.Sprintf("%010d\n", len(caseJSON))
	buf := make([]byte, 0, len(hdr)+len(caseJSON))
	buf = append(buf, hdr...)
	buf = append(buf, caseJSON...)
	c.cur.WriteAt(buf, 0)
}

// BeginV marshals v and records it.
func (c *Ctx) BeginV(v interface{}) []byte {
	b, _ := json.Marshal(v)
	c.Begin(b)
	return b
}

// Eval counts one executed case; hash identifies it, nontrivial says whether it
// counts towards distinct_nontrivial.
func (c *Ctx) Eval(hash uint64, nontrivial bool) {
	c.mu.Lock()
	c.res.Evaluations++
	if nontrivial {
		c.hashes[hash] = struct{}{}
	}
	c.mu.Unlock()
}

// EvalN counts n executed cases that are not individually hashed.
func (c *Ctx) EvalN(n int64) {
	c.mu.Lock()
	c.res.Evaluations += n
	c.mu.Unlock()
}

// Count adds to a named counter of observed events.
func (c *Ctx) Count(name string, n int64) {
	c.mu.Lock()
	c.res.Counters[name] += n
	c.mu.Unlock()
}

// Max keeps the maximum of a named gauge.
func (c *Ctx) Max(name string, v int64) {
	c.mu.Lock()
	if v > c.res.Counters[name] {
		c.res.Counters[name] = v
	}
	c.mu.Unlock()
}

// Sample keeps up to a handful of actual cases for the evidence file.
func (c *Ctx) Sample(v interface{}) {
	c.mu.Lock()
	defer c.mu.Unlock()
	if len(c.res.Samples) >= 3 {
		return
	}
	b, err := json.Marshal(v)
	if err == nil {
		if len(b) > 4000 {
			b, _ = json.Marshal(string(b[:4000]) + "...(truncated)")
		}
		c.res.Samples = append(c.res.Samples, b)
	}
}

// WantSample reports whether more samples are wanted.
func (c *Ctx) WantSample() bool {
	c.mu.Lock()
	defer c.mu.Unlock()
	return len(c.res.Samples) < 3
}

// Violate records a violation.
func (c *Ctx) Violate(signature, detail string, caseJSON []byte) {
	atomic.AddInt64(&c.nviol, 1)
	c.mu.Lock()
	defer c.mu.Unlock()
	c.res.Counters["violations_seen"]++
	// keep a bounded number, but at most 3 per signature so that different
	// classes of violation are all reported
	n := 0
	for _, v := range c.res.Violations {
		if v.Signature == signature {
			n++
		}
	}
	if n >= 3 || len(c.res.Violations) >= c.maxViol {
		return
	}
	if len(detail) > 3000 {
		detail = detail[:3000] + "..."
	}
	if caseJSON == nil {
		caseJSON = []byte("null")
	}
	c.res.Violations = append(c.res.Violations, Violation{Signature: signature, Detail: detail, Case: append([]byte(nil), caseJSON...)})
}

// ViolationList returns a copy of the violations recorded so far.
func (c *Ctx) ViolationList() []Violation {
	c.mu.Lock()
	defer c.mu.Unlock()
	return append([]Violation(nil), c.res.Violations...)
}

// CounterList returns a copy of the named counters.
func (c *Ctx) CounterList() map[string]int64 {
	c.mu.Lock()
	defer c.mu.Unlock()
	out := map[string]int64{}
	for k, v := range c.res.Counters {
		out[k] = v
	}
	return out
}

// Violations returns the number recorded so far.
func (c *Ctx) NViolations() int64 { return atomic.LoadInt64(&c.nviol) }

// Inconclusive records a case that could not be decided.
func (c *Ctx) Inconclusive(why string) {
	c.mu.Lock()
	if len(c.res.Inconclusive) < 50 {
		c.res.Inconclusive = append(c.res.Inconclusive, why)
	}
	c.res.Counters["inconclusive"]++
	c.mu.Unlock()
}

// Note adds a free-text note to the evidence.
func (c *Ctx) Note(s string) {
	c.mu.Lock()
	if len(c.res.Notes) < 20 {
		c.res.Notes = append(c.res.Notes, s)
	}
	c.mu.Unlock()
}

// SetExhaustive marks the enumerated part of the run as complete.
func (c *Ctx) SetExhaustive(b bool) {
	c.mu.Lock()
	c.res.Exhaustive = b
	c.mu.Unlock()
}

// Finish writes the result file.
func (c *Ctx) Finish() {
	c.mu.Lock()
	defer c.mu.Unlock()
	c.res.Done = true
	c.res.WallS = time.Since(c.start).Seconds()
	c.res.Hashes = c.res.Hashes[:0]
	for h := range c.hashes {
		c.res.Hashes = append(c.res.Hashes, h)
	}
	sort.Slice(c.res.Hashes, func(i, j int) bool { return c.res.Hashes[i] < c.res.Hashes[j] })
	b, err := json.Marshal(&c.res)
	if err != nil {
		fmt.Fprintln(os.Stderr, "child: cannot marshal result:", err)
		os.Exit(3)
	}
	if c.OutPath == "" {
		os.Stdout.Write(b)
		os.Stdout.Write([]byte("\n"))
		return
	}
	tmp := c.OutPath + ".tmp"
	if err := os.WriteFile(tmp, b, 0644); err != nil {
		fmt.Fprintln(os.Stderr, "child: cannot write result:", err)
		os.Exit(3)
	}
	os.Rename(tmp, c.OutPath)
}

// Arg returns an extra argument or a default.
func (c *Ctx) Arg(k, def string) string {
	if v, ok := c.Args[k]; ok {
		return v
	}
	return def
}
