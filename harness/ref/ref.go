// Package ref holds the reference artefacts the monitors compare the code under
// test against.  Nothing in this file imports or copies code from go-ntrip: it is
// written from the RTCM3 frame layout (preamble 0xD3, six zero bits, ten-bit length,
// payload, CRC-24Q) so that a defect in the repository cannot hide in the oracle.
package ref

import (
	"math/big"
)

// CRC24Q is a bitwise (table-free) CRC-24Q: polynomial 0x1864CFB, initial value 0,
// no reflection, no final xor.
func CRC24Q(b []byte) uint32 {
	var crc uint32
	for _, by := range b {
		crc ^= uint32(by) << 16
		for i := 0; i < 8; i++ {
			crc <<= 1
			if crc&0x1000000 != 0 {
				crc ^= 0x1864CFB
			}
		}
	}
	return crc & 0xFFFFFF
}

// Frame wraps a payload (1..1023 bytes) into an RTCM3 frame.
func Frame(payload []byte) []byte {
	n := len(payload)
	f := make([]byte, 0, n+6)
	f = append(f, 0xD3, byte((n>>8)&0x03), byte(n&0xFF))
	f = append(f, payload...)
	c := CRC24Q(f)
	f = append(f, byte(c>>16), byte(c>>8), byte(c))
	return f
}

// FrameOfType builds a frame whose payload starts with the 12-bit type followed by
// the given remaining payload bits packed after it.  rest supplies whole bytes that
// follow the first two payload bytes; lowNibble is the low 4 bits of byte 1.
func FrameOfType(msgType int, lowNibble byte, rest []byte) []byte {
	p := make([]byte, 0, 2+len(rest))
	p = append(p, byte(msgType>>4), byte(msgType<<4)|(lowNibble&0x0F))
	p = append(p, rest...)
	return Frame(p)
}

// IsFrame reports whether b is exactly one RTCM3 frame in the sense of property
// C01: preamble 0xD3, six zero reserved bits, a non-zero 10-bit length equal to the
// payload size, and a trailing CRC-24Q matching all preceding bytes.
func IsFrame(b []byte) bool {
	if len(b) < 7 {
		return false
	}
	if b[0] != 0xD3 {
		return false
	}
	if b[1]&0xFC != 0 {
		return false
	}
	n := int(b[1]&0x03)<<8 | int(b[2])
	if n == 0 {
		return false
	}
	if len(b) != n+6 {
		return false
	}
	c := CRC24Q(b[:len(b)-3])
	return b[len(b)-3] == byte(c>>16) && b[len(b)-2] == byte(c>>8) && b[len(b)-1] == byte(c)
}

// TypeOf returns the 12-bit message type of a frame (bits 24..35).
func TypeOf(frame []byte) int {
	if len(frame) < 5 {
		return -1
	}
	return int(frame[3])<<4 | int(frame[4])>>4
}

// BitsBig extracts width bits starting at bit pos (MSB-first numbering) from buf
// using math/big arithmetic: value = (int(buf) >> (8*len - pos - w)) & (2^w - 1).
func BitsBig(buf []byte, pos, width uint) *big.Int {
	v := new(big.Int).SetBytes(buf)
	shift := uint(len(buf))*8 - pos - width
	v.Rsh(v, shift)
	mask := new(big.Int).Lsh(big.NewInt(1), width)
	mask.Sub(mask, big.NewInt(1))
	return v.And(v, mask)
}

// BitsBigSigned is the two's complement reading of the same bits.
func BitsBigSigned(buf []byte, pos, width uint) *big.Int {
	v := BitsBig(buf, pos, width)
	if v.Bit(int(width-1)) == 1 {
		v.Sub(v, new(big.Int).Lsh(big.NewInt(1), width))
	}
	return v
}

// BitWriter packs fields MSB first.
type BitWriter struct {
	buf  []byte
	nbit uint
}

// Put appends the low n bits of v.
func (w *BitWriter) Put(v uint64, n uint) {
	for i := int(n) - 1; i >= 0; i-- {
		bit := byte((v >> uint(i)) & 1)
		if w.nbit%8 == 0 {
			w.buf = append(w.buf, 0)
		}
		if bit != 0 {
			w.buf[w.nbit/8] |= 1 << (7 - w.nbit%8)
		}
		w.nbit++
	}
}

// PutSigned appends v as an n-bit two's complement number.
func (w *BitWriter) PutSigned(v int64, n uint) {
	w.Put(uint64(v)&((uint64(1)<<n)-1|boolMask(n == 64)), n)
}

func boolMask(b bool) uint64 {
	if b {
		return ^uint64(0)
	}
	return 0
}

// PutBool appends one bit.
func (w *BitWriter) PutBool(b bool) {
	if b {
		w.Put(1, 1)
	} else {
		w.Put(0, 1)
	}
}

// Len is the number of bits written.
func (w *BitWriter) Len() uint { return w.nbit }

// Bytes returns the packed bytes, zero padded to a byte boundary.
func (w *BitWriter) Bytes() []byte {
	out := make([]byte, len(w.buf))
	copy(out, w.buf)
	return out
}

// SplitMix64 is the PRNG every generator uses: the whole run is determined by the seed.
type SplitMix64 struct{ s uint64 }

func NewRand(seed uint64) *SplitMix64 { return &SplitMix64{s: seed*0x9E3779B97F4A7C15 + 0x1234567} }

func (r *SplitMix64) Uint64() uint64 {
	r.s += 0x9E3779B97F4A7C15
	z := r.s
	z = (z ^ (z >> 30)) * 0xBF58476D1CE4E5B9
	z = (z ^ (z >> 27)) * 0x94D049BB133111EB
	return z ^ (z >> 31)
}

// Intn returns a value in [0,n).
func (r *SplitMix64) Intn(n int) int {
	if n <= 0 {
		return 0
	}
	return int(r.Uint64() % uint64(n))
}

// Range returns a value in [lo,hi].
func (r *SplitMix64) Range(lo, hi int) int { return lo + r.Intn(hi-lo+1) }

// Bool with probability num/den.
func (r *SplitMix64) Chance(num, den int) bool { return r.Intn(den) < num }

// Bytes returns n random bytes.
func (r *SplitMix64) Bytes(n int) []byte {
	b := make([]byte, n)
	for i := 0; i < n; i += 8 {
		v := r.Uint64()
		for j := 0; j < 8 && i+j < n; j++ {
			b[i+j] = byte(v >> (8 * uint(j)))
		}
	}
	return b
}

// Fork derives an independent stream.
func (r *SplitMix64) Fork() *SplitMix64 { return NewRand(r.Uint64()) }

// Hash64 is FNV-1a, used to count distinct cases.
func Hash64(parts ...[]byte) uint64 {
	h := uint64(14695981039346656037)
	for _, p := range parts {
		for _, b := range p {
			h ^= uint64(b)
			h *= 1099511628211
		}
		h ^= 0xFF
		h *= 1099511628211
	}
	return h
}
