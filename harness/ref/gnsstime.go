package ref

import "time"

// Truth-first GNSS time: given a true UTC instant, compute the constellation week
// start and the 30-bit MSM timestamp.  There is no rollover logic here at all: the
// monitors generate the true instants first and derive the timestamps from them.

const msPerDay = int64(86400000)

// Constellation offsets of the time scale from UTC, in milliseconds, as stated in
// properties C06/C17: GPS/Galileo weeks start 18 s, BeiDou weeks 4 s before Sunday
// 00:00 UTC; GLONASS runs on Moscow time, UTC+3 h.
func ScaleOffsetMs(constellation string) int64 {
	switch constellation {
	case "GPS", "Galileo":
		return 18000
	case "Beidou":
		return 4000
	case "Glonass":
		return 3 * 3600 * 1000
	}
	return 0
}

// floorDiv is integer division rounding towards minus infinity.
func floorDiv(a, b int64) int64 {
	q := a / b
	if (a%b != 0) && ((a < 0) != (b < 0)) {
		q--
	}
	return q
}

// WeekStartUTC returns, as a UTC time, the start of the constellation week that
// contains the true UTC instant u.
func WeekStartUTC(constellation string, u time.Time) time.Time {
	off := ScaleOffsetMs(constellation)
	local := u.UnixMilli() + off // milliseconds on the constellation's own clock
	day := floorDiv(local, msPerDay)
	weekday := ((day+4)%7 + 7) % 7 // 1970-01-01 was a Thursday (4); 0 = Sunday
	sunday := (day - weekday) * msPerDay
	return time.UnixMilli(sunday - off).UTC()
}

// Timestamp returns the 30-bit MSM timestamp for the true UTC instant u.
func Timestamp(constellation string, u time.Time) uint {
	off := ScaleOffsetMs(constellation)
	local := u.UnixMilli() + off
	day := floorDiv(local, msPerDay)
	weekday := ((day+4)%7 + 7) % 7
	msOfDay := local - day*msPerDay
	if constellation == "Glonass" {
		return uint(weekday)<<27 | uint(msOfDay)
	}
	return uint(weekday*msPerDay + msOfDay)
}

// TimedConstellations are the four constellations whose MSM timestamps the handler converts.
var TimedConstellations = []string{"GPS", "Glonass", "Galileo", "Beidou"}

// TypesOf gives the MSM4 and MSM7 type numbers of a timed constellation.
func TypesOf(constellation string) [2]int {
	switch constellation {
	case "GPS":
		return [2]int{1074, 1077}
	case "Glonass":
		return [2]int{1084, 1087}
	case "Galileo":
		return [2]int{1094, 1097}
	case "Beidou":
		return [2]int{1124, 1127}
	}
	return [2]int{0, 0}
}
