package ref

// Independent encoders for the message bodies the repository decodes.  Written from
// the field-major MSM layout (RTCM 10403.x as implemented by RTKLIB's rtcm3e.c, which
// is the reference source shipped in the repository's c/ directory), not from the Go
// decoders.  The encoders are validated at every run by re-encoding the captured
// real-receiver frames in rtcm/testdata bit for bit (see vmon selftest).

// MSM is a plain description of an MSM4 or MSM7 message.
type MSM struct {
	Type      int    `json:"type"`
	StationID uint   `json:"station"`
	Timestamp uint   `json:"ts"`
	Multiple  bool   `json:"mm"`
	IODS      uint   `json:"iods"`
	SessTime  uint   `json:"sess"`
	ClkSteer  uint   `json:"clk"`
	ExtClk    uint   `json:"extclk"`
	Smoothing bool   `json:"smooth"`
	SmoothInt uint   `json:"smint"`
	SatMask   uint64 `json:"satmask"`
	SigMask   uint32 `json:"sigmask"`
	CellMask  []bool `json:"cellmask"`   // nsat*nsig, row major (satellite major)
	Sats      []Sat  `json:"sats"`       // one per set bit of SatMask
	Sigs      []Sig  `json:"sigs"`       // one per true in CellMask, in mask order
	CellsSent int    `json:"cells_sent"` // how many of Sigs are actually encoded (== len(Sigs) unless a continued message)
	PadBytes  int    `json:"pad"`
}

// Sat is a satellite cell.  Ext and Rate are MSM7 only.
type Sat struct {
	Whole uint `json:"w"`
	Ext   uint `json:"e"`
	Frac  uint `json:"f"`
	Rate  int  `json:"r"`
}

// Sig is a signal cell.  RateDelta is MSM7 only.
type Sig struct {
	RangeDelta int  `json:"rd"`
	PhaseDelta int  `json:"pd"`
	Lock       uint `json:"l"`
	Half       bool `json:"h"`
	CNR        uint `json:"c"`
	RateDelta  int  `json:"rr"`
}

// IsMSM7 says whether the type is one of the seven MSM7 types.
func IsMSM7(t int) bool { return t >= 1071 && t <= 1137 && t%10 == 7 }

// IsMSM4 says whether the type is one of the seven MSM4 types.
func IsMSM4(t int) bool { return t >= 1071 && t <= 1137 && t%10 == 4 }

// MSMTypes lists the fourteen MSM4/MSM7 message types of the standard.
var MSMTypes = []int{1074, 1077, 1084, 1087, 1094, 1097, 1104, 1107, 1114, 1117, 1124, 1127, 1134, 1137}

// ConstellationOf gives the constellation name for an MSM type, from the standard's
// numbering (107x GPS, 108x GLONASS, 109x Galileo, 110x SBAS, 111x QZSS, 112x BeiDou, 113x NavIC).
func ConstellationOf(t int) string {
	switch t / 10 {
	case 107:
		return "GPS"
	case 108:
		return "Glonass"
	case 109:
		return "Galileo"
	case 110:
		return "SBAS"
	case 111:
		return "QZSS"
	case 112:
		return "Beidou"
	case 113:
		return "NavIC/IRNSS"
	}
	return ""
}

// PopCount64 counts set bits.
func PopCount64(v uint64) int {
	n := 0
	for ; v != 0; v &= v - 1 {
		n++
	}
	return n
}

// SatIDs lists satellite numbers (1..64) of a mask; bit 63 is satellite 1.
func SatIDs(mask uint64) []uint {
	var out []uint
	for i := 0; i < 64; i++ {
		if mask&(uint64(1)<<uint(63-i)) != 0 {
			out = append(out, uint(i+1))
		}
	}
	return out
}

// SigIDs lists signal numbers (1..32) of a mask; bit 31 is signal 1.
func SigIDs(mask uint32) []uint {
	var out []uint
	for i := 0; i < 32; i++ {
		if mask&(uint32(1)<<uint(31-i)) != 0 {
			out = append(out, uint(i+1))
		}
	}
	return out
}

// EncodeMSM returns the payload (message body without leader and CRC).
func EncodeMSM(m *MSM) []byte { return EncodeMSMAs(m, IsMSM7(m.Type)) }

// EncodeMSMAs encodes with an explicit choice of the MSM7 or MSM4 layout, so that a
// body of either layout can be given any number in its type field.
func EncodeMSMAs(m *MSM, msm7 bool) []byte {
	var w BitWriter
	w.Put(uint64(m.Type), 12)
	w.Put(uint64(m.StationID), 12)
	w.Put(uint64(m.Timestamp), 30)
	w.PutBool(m.Multiple)
	w.Put(uint64(m.IODS), 3)
	w.Put(uint64(m.SessTime), 7)
	w.Put(uint64(m.ClkSteer), 2)
	w.Put(uint64(m.ExtClk), 2)
	w.PutBool(m.Smoothing)
	w.Put(uint64(m.SmoothInt), 3)
	w.Put(m.SatMask, 64)
	w.Put(uint64(m.SigMask), 32)
	for _, c := range m.CellMask {
		w.PutBool(c)
	}
	// satellite data, field major
	for _, s := range m.Sats {
		w.Put(uint64(s.Whole), 8)
	}
	if msm7 {
		for _, s := range m.Sats {
			w.Put(uint64(s.Ext), 4)
		}
	}
	for _, s := range m.Sats {
		w.Put(uint64(s.Frac), 10)
	}
	if msm7 {
		for _, s := range m.Sats {
			w.PutSigned(int64(s.Rate), 14)
		}
	}
	// signal data, field major
	sigs := m.Sigs
	if m.CellsSent >= 0 && m.CellsSent < len(sigs) {
		sigs = sigs[:m.CellsSent]
	}
	if msm7 {
		for _, s := range sigs {
			w.PutSigned(int64(s.RangeDelta), 20)
		}
		for _, s := range sigs {
			w.PutSigned(int64(s.PhaseDelta), 24)
		}
		for _, s := range sigs {
			w.Put(uint64(s.Lock), 10)
		}
		for _, s := range sigs {
			w.PutBool(s.Half)
		}
		for _, s := range sigs {
			w.Put(uint64(s.CNR), 10)
		}
		for _, s := range sigs {
			w.PutSigned(int64(s.RateDelta), 15)
		}
	} else {
		for _, s := range sigs {
			w.PutSigned(int64(s.RangeDelta), 15)
		}
		for _, s := range sigs {
			w.PutSigned(int64(s.PhaseDelta), 22)
		}
		for _, s := range sigs {
			w.Put(uint64(s.Lock), 4)
		}
		for _, s := range sigs {
			w.PutBool(s.Half)
		}
		for _, s := range sigs {
			w.Put(uint64(s.CNR), 6)
		}
	}
	out := w.Bytes()
	for i := 0; i < m.PadBytes; i++ {
		out = append(out, 0)
	}
	return out
}

// MSMBits returns the number of meaningful bits of the encoded body (without padding).
func MSMBits(m *MSM) int {
	nsat := len(m.Sats)
	ncell := len(m.Sigs)
	if m.CellsSent >= 0 && m.CellsSent < ncell {
		ncell = m.CellsSent
	}
	if IsMSM7(m.Type) {
		return 169 + len(m.CellMask) + nsat*36 + ncell*80
	}
	return 169 + len(m.CellMask) + nsat*18 + ncell*48
}

// Base is a 1005 or 1006 message.
type Base struct {
	Type      int    `json:"type"`
	StationID uint   `json:"station"`
	ITRF      uint   `json:"itrf"`
	Ign1      uint   `json:"i1"`
	X         int64  `json:"x"`
	Ign2      uint   `json:"i2"`
	Y         int64  `json:"y"`
	Ign3      uint   `json:"i3"`
	Z         int64  `json:"z"`
	Height    uint   `json:"h"`
	Trailing  []byte `json:"trail,omitempty"`
}

// EncodeBase returns the payload of a 1005/1006 message. typeField lets a caller
// put a different number in the type field (for the "wrong type" rejection cases).
func EncodeBase(b *Base, typeField int) []byte {
	var w BitWriter
	w.Put(uint64(typeField), 12)
	w.Put(uint64(b.StationID), 12)
	w.Put(uint64(b.ITRF), 6)
	w.Put(uint64(b.Ign1), 4)
	w.PutSigned(b.X, 38)
	w.Put(uint64(b.Ign2), 2)
	w.PutSigned(b.Y, 38)
	w.Put(uint64(b.Ign3), 2)
	w.PutSigned(b.Z, 38)
	if b.Type == 1006 {
		w.Put(uint64(b.Height), 16)
	}
	out := w.Bytes()
	out = append(out, b.Trailing...)
	return out
}

// FixIllegalTime gives the message a timestamp outside its legal range: 7 days of
// milliseconds or more; for GLONASS day 7 or 24 h of milliseconds or more.
func (m *MSM) FixIllegalTime(r *SplitMix64) {
	if ConstellationOf(m.Type) == "Glonass" {
		switch r.Intn(3) {
		case 0:
			m.Timestamp = 7<<27 | uint(r.Intn(86400000))
		case 1:
			m.Timestamp = uint(r.Intn(7))<<27 | uint(r.Range(86400000, 1<<27-1))
		default:
			m.Timestamp = uint(r.Intn(7))<<27 | 86400000
		}
		return
	}
	switch r.Intn(3) {
	case 0:
		m.Timestamp = 604800000
	case 1:
		m.Timestamp = 1<<30 - 1
	default:
		m.Timestamp = uint(r.Range(604800000, 1<<30-1))
	}
}
