// Package inject produces, at check time, the "go build -overlay" description that
// adds yield/delay hooks to the repository's *current* source files without
// changing the repository.  Hooks are inserted textually on the same line as the
// statement they precede, so line numbers and comments of the original file are
// preserved exactly (panic traces keep pointing at the right lines).
//
// A hook is inserted before every statement (element of a block, case or comm
// clause) that itself contains a channel send, a channel receive, a select, a
// close(...) call, a go statement, or - in files under apps/ - a call whose name
// starts with "write"/"Write".  "defer close(ch)" becomes
// "defer close(ch); defer hook" (the hook runs first, ch is evaluated as before).  Insertion is purely additive and sits at
// points where the goroutine could already block or be pre-empted, so it cannot
// create an interleaving the program could not have.
package inject

import (
	"encoding/json"
	"fmt"
	"go/ast"
	"go/parser"
	"go/token"
	"os"
	"path/filepath"
	"regexp"
	"sort"
	"strings"
)

const hookImportPath = "github.com/goblimey/go-ntrip/verifhook"

// Site describes one instrumented statement.
type Site struct {
	ID   int
	Name string // file:func:kind#n
}

// Result of building an overlay.
type Result struct {
	OverlayPath string
	Sites       []Site
	Files       map[string]int // repo-relative file -> number of sites
	Skipped     []string       // files that could not be parsed
}

type edit struct {
	off  int
	end  int // == off for pure insertion
	text string
}

var writeCall = regexp.MustCompile(`^(?i)write`)

// Build instruments the repository at repoDir and writes the overlay into outDir.
// hookSrc is the source file of the verifhook package; extra maps additional
// repo-relative paths (test files for package-main directories) to source files.
func Build(repoDir, outDir, hookSrc string, extra map[string]string, instrument bool) (*Result, error) {
	if err := os.MkdirAll(outDir, 0755); err != nil {
		return nil, err
	}
	res := &Result{Files: map[string]int{}}
	replace := map[string]string{}

	var files []string
	if instrument {
		filepath.Walk(repoDir, func(p string, info os.FileInfo, err error) error {
			if err != nil {
				return nil
			}
			rel, _ := filepath.Rel(repoDir, p)
			if info.IsDir() {
				base := info.Name()
				if rel != "." && (strings.HasPrefix(base, ".") || base == "c" || base == "verifhook" || base == "testdata" || base == "integration_tests") {
					return filepath.SkipDir
				}
				return nil
			}
			if strings.HasSuffix(p, ".go") && !strings.HasSuffix(p, "_test.go") {
				files = append(files, rel)
			}
			return nil
		})
		sort.Strings(files)
	}

	nextID := 0
	for _, rel := range files {
		abs := filepath.Join(repoDir, rel)
		src, err := os.ReadFile(abs)
		if err != nil {
			continue
		}
		fset := token.NewFileSet()
		f, err := parser.ParseFile(fset, abs, src, parser.ParseComments)
		if err != nil {
			res.Skipped = append(res.Skipped, rel)
			continue
		}
		if hasBuildConstraintExcluding(src) {
			continue
		}
		inApps := strings.HasPrefix(rel, "apps/")
		var edits []edit
		var sites []Site
		short := strings.TrimSuffix(rel, ".go")
		counter := map[string]int{}
		addSite := func(fn, kind string) int {
			key := fn + ":" + kind
			counter[key]++
			id := nextID
			nextID++
			sites = append(sites, Site{ID: id, Name: fmt.Sprintf("%s:%s:%s#%d", short, fn, kind, counter[key])})
			return id
		}
		offset := func(p token.Pos) int { return fset.Position(p).Offset }

		var walkFunc func(fnName string, body *ast.BlockStmt)
		var visitList func(fnName string, list []ast.Stmt)

		visitStmt := func(fnName string, st ast.Stmt) {
			kind := ""
			switch s := st.(type) {
			case *ast.DeferStmt:
				if id, ok := s.Call.Fun.(*ast.Ident); ok && id.Name == "close" && len(s.Call.Args) == 1 {
					sid := addSite(fnName, "deferclose")
					callText := string(src[offset(s.Call.Pos()):offset(s.Call.End())])
					edits = append(edits, edit{off: offset(s.Pos()), end: offset(s.End()),
						// two deferred calls on one line: the channel expression is still
						// evaluated when the defer statement executes (a closure would read
						// the variable when the function returns - a different channel if the
						// variable has been assigned to in between), and the hook, deferred
						// last, runs first
						text: fmt.Sprintf("defer %s; defer verifhook.At(%d)", callText, sid)})
				}
				// function literals inside are walked below
			case *ast.GoStmt:
				kind = "go"
			case *ast.SelectStmt:
				kind = "select"
			case *ast.SendStmt:
				kind = "send"
			case *ast.LabeledStmt:
				// handled through its inner statement by the recursive walk
			default:
				kind = shallowKind(st, inApps)
			}
			if kind != "" {
				sid := addSite(fnName, kind)
				edits = append(edits, edit{off: offset(st.Pos()), end: offset(st.Pos()), text: fmt.Sprintf("verifhook.At(%d); ", sid)})
			}
		}

		visitList = func(fnName string, list []ast.Stmt) {
			for _, st := range list {
				// the elements of a switch/select body are clauses, not statements
				if cc, ok := st.(*ast.CaseClause); ok {
					visitList(fnName, cc.Body)
					continue
				}
				if cc, ok := st.(*ast.CommClause); ok {
					visitList(fnName, cc.Body)
					continue
				}
				if ls, ok := st.(*ast.LabeledStmt); ok {
					// put the hook before the label: "hook; L: stmt"
					k := ""
					switch inner := ls.Stmt.(type) {
					case *ast.SelectStmt:
						k = "select"
					case *ast.SendStmt:
						k = "send"
					default:
						k = shallowKind(inner, inApps)
					}
					if k != "" {
						sid := addSite(fnName, k)
						edits = append(edits, edit{off: offset(st.Pos()), end: offset(st.Pos()), text: fmt.Sprintf("verifhook.At(%d); ", sid)})
					}
				} else {
					visitStmt(fnName, st)
				}
				// recurse into nested blocks and function literals
				ast.Inspect(st, func(n ast.Node) bool {
					switch x := n.(type) {
					case *ast.BlockStmt:
						visitList(fnName, x.List)
						return false
					case *ast.CaseClause:
						visitList(fnName, x.Body)
						return false
					case *ast.CommClause:
						visitList(fnName, x.Body)
						return false
					case *ast.FuncLit:
						walkFunc(fnName+".func", x.Body)
						return false
					}
					return true
				})
			}
		}
		walkFunc = func(fnName string, body *ast.BlockStmt) {
			if body != nil {
				visitList(fnName, body.List)
			}
		}
		for _, d := range f.Decls {
			if fd, ok := d.(*ast.FuncDecl); ok && fd.Body != nil {
				walkFunc(fd.Name.Name, fd.Body)
			}
		}
		if len(edits) == 0 {
			nextID -= len(sites)
			continue
		}
		// import, on the same line as the package clause
		pkgEnd := offset(f.Name.End())
		edits = append(edits, edit{off: pkgEnd, end: pkgEnd, text: fmt.Sprintf("; import verifhook %q", hookImportPath)})
		sort.Slice(edits, func(i, j int) bool { return edits[i].off > edits[j].off })
		out := append([]byte(nil), src...)
		for _, e := range edits {
			out = append(out[:e.off], append([]byte(e.text), out[e.end:]...)...)
		}
		// the result must still parse
		if _, err := parser.ParseFile(token.NewFileSet(), abs, out, 0); err != nil {
			res.Skipped = append(res.Skipped, rel+" (instrumented copy does not parse: "+err.Error()+")")
			nextID -= len(sites)
			continue
		}
		dst := filepath.Join(outDir, strings.ReplaceAll(rel, "/", "__"))
		if err := os.WriteFile(dst, out, 0644); err != nil {
			return nil, err
		}
		replace[abs] = dst
		res.Sites = append(res.Sites, sites...)
		res.Files[rel] = len(sites)
	}

	// the hook package itself
	hook, err := os.ReadFile(hookSrc)
	if err != nil {
		return nil, err
	}
	hookDst := filepath.Join(outDir, "verifhook.go")
	if err := os.WriteFile(hookDst, hook, 0644); err != nil {
		return nil, err
	}
	replace[filepath.Join(repoDir, "verifhook", "verifhook.go")] = hookDst
	var sb strings.Builder
	sb.WriteString("package verifhook\n\n// Sites is generated at check time.\nvar Sites = []string{\n")
	for _, s := range res.Sites {
		sb.WriteString(fmt.Sprintf("\t%q,\n", s.Name))
	}
	sb.WriteString("}\n")
	sitesDst := filepath.Join(outDir, "verifhook_sites.go")
	if err := os.WriteFile(sitesDst, []byte(sb.String()), 0644); err != nil {
		return nil, err
	}
	replace[filepath.Join(repoDir, "verifhook", "sites.go")] = sitesDst

	for rel, srcPath := range extra {
		b, err := os.ReadFile(srcPath)
		if err != nil {
			return nil, err
		}
		dst := filepath.Join(outDir, "extra__"+strings.ReplaceAll(rel, "/", "__"))
		if err := os.WriteFile(dst, b, 0644); err != nil {
			return nil, err
		}
		replace[filepath.Join(repoDir, rel)] = dst
	}

	ov := map[string]interface{}{"Replace": replace}
	b, _ := json.MarshalIndent(ov, "", " ")
	res.OverlayPath = filepath.Join(outDir, "overlay.json")
	if err := os.WriteFile(res.OverlayPath, b, 0644); err != nil {
		return nil, err
	}
	return res, nil
}

// shallowKind looks for channel operations in the parts of a statement that are
// evaluated as part of the statement itself (not in nested blocks or function literals).
func shallowKind(st ast.Stmt, inApps bool) string {
	kind := ""
	var roots []ast.Node
	switch s := st.(type) {
	case *ast.IfStmt:
		if s.Init != nil {
			roots = append(roots, s.Init)
		}
		roots = append(roots, s.Cond)
	case *ast.ForStmt:
		if s.Init != nil {
			roots = append(roots, s.Init)
		}
		if s.Cond != nil {
			roots = append(roots, s.Cond)
		}
	case *ast.RangeStmt:
		roots = append(roots, s.X)
	case *ast.SwitchStmt:
		if s.Init != nil {
			roots = append(roots, s.Init)
		}
		if s.Tag != nil {
			roots = append(roots, s.Tag)
		}
	case *ast.TypeSwitchStmt:
		if s.Init != nil {
			roots = append(roots, s.Init)
		}
	case *ast.BlockStmt, *ast.SelectStmt, *ast.LabeledStmt, *ast.DeferStmt, *ast.GoStmt:
		return ""
	default:
		roots = append(roots, st)
	}
	for _, r := range roots {
		ast.Inspect(r, func(n ast.Node) bool {
			switch x := n.(type) {
			case *ast.FuncLit:
				return false
			case *ast.SendStmt:
				kind = "send"
			case *ast.UnaryExpr:
				if x.Op == token.ARROW && kind == "" {
					kind = "recv"
				}
			case *ast.CallExpr:
				if id, ok := x.Fun.(*ast.Ident); ok && id.Name == "close" && len(x.Args) == 1 && kind == "" {
					kind = "close"
				}
				if inApps && kind == "" {
					name := ""
					switch fn := x.Fun.(type) {
					case *ast.Ident:
						name = fn.Name
					case *ast.SelectorExpr:
						name = fn.Sel.Name
					}
					if writeCall.MatchString(name) {
						kind = "write"
					}
				}
			}
			return true
		})
	}
	return kind
}

func hasBuildConstraintExcluding(src []byte) bool {
	head := src
	if len(head) > 2000 {
		head = head[:2000]
	}
	for _, line := range strings.Split(string(head), "\n") {
		t := strings.TrimSpace(line)
		if strings.HasPrefix(t, "package ") {
			break
		}
		if strings.HasPrefix(t, "//go:build") || strings.HasPrefix(t, "// +build") {
			return true
		}
	}
	return false
}
