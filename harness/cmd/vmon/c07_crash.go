package main

import (
	"encoding/json"
	"fmt"
	"log/slog"
	"os"
	"sync/atomic"
	"time"

	"github.com/goblimey/go-ntrip/rtcm/handler"

	"verifharness/child"
	"verifharness/gen"
	"verifharness/ref"
)

func init() { monitors["C07"] = monC07 }

type crashCase struct {
	Frame  string `json:"frame,omitempty"`  // hex: one candidate frame for single-frame decoding
	Stream string `json:"stream,omitempty"` // hex: bytes for the stream handler
	Note   string `json:"note,omitempty"`
	// a long monotonous stream: Unit (hex) repeated Repeats times
	Unit    string `json:"unit,omitempty"`
	Repeats int    `json:"repeats,omitempty"`
}

// c07Started is the wall-clock start (unix nanos) of the case in progress; 0 when idle.
var c07Started int64

// endlessWatch ends the process with the verdict "endless" when one case has been
// running for a minute.  A case is a pure computation over at most a few kilobytes
// that normally takes well under a millisecond, so a minute is more than 10^4 times
// the median; the driver re-runs the witness alone before calling it a violation.
func endlessWatch() {
	for {
		time.Sleep(2 * time.Second)
		s := atomic.LoadInt64(&c07Started)
		if s != 0 && time.Since(time.Unix(0, s)) > 60*time.Second {
			fmt.Fprintln(os.Stderr, "HANG-VERDICT: endless")
			os.Exit(4)
		}
	}
}

// exerciseMessage runs full decoding and display of one message the way every
// consumer in the repository does, at the message's own log level.
func exerciseMessage(m *handler.Message) (out int) {
	cp := m.Copy()
	s1 := m.String()
	handler.Analyse(m)
	_ = handler.PrepareForDisplay(m)
	s2 := m.String()
	s3 := cp.String()
	return len(s1) + len(s2) + len(s3)
}

func execC07Frame(c *child.Ctx, k crashCase, cj []byte) {
	frame := unhex(k.Frame)
	for _, lvl := range []slog.Level{slog.LevelInfo, slog.LevelDebug} {
		atomic.StoreInt64(&c07Started, time.Now().UnixNano())
		func() {
			defer func() {
				if r := recover(); r != nil {
					c.Violate("panic", fmt.Sprintf("panic while decoding/displaying a frame at log level %v: %v (%s)", lvl, r, k.Note), cj)
				}
			}()
			h := handler.New(fixedStart, lvl)
			m, err := h.GetMessage(frame)
			if m == nil {
				if err == nil {
					c.Violate("nil-without-error", "single-frame decoding returned neither a message nor an error", cj)
				}
				return
			}
			if err != nil {
				c.Count("frames_reported_as_error", 1)
			}
			n := exerciseMessage(m)
			if n == 0 {
				c.Violate("empty-display", "display of a message is empty", cj)
			}
			if m.MessageType >= 0 && len(m.ErrorMessage) > 0 {
				c.Count("typed_messages_with_error_text", 1)
			}
		}()
		atomic.StoreInt64(&c07Started, 0)
	}
}

func execC07Stream(c *child.Ctx, k crashCase, cj []byte) {
	input := unhex(k.Stream)
	for _, lvl := range []slog.Level{slog.LevelInfo, slog.LevelDebug} {
		// a panic on the handler's goroutine ends this process; the driver attributes
		// it to the case recorded by Begin
		msgs := runSequential(fixedStart, lvl, input)
		atomic.StoreInt64(&c07Started, time.Now().UnixNano())
		func() {
			defer func() {
				if r := recover(); r != nil {
					c.Violate("panic", fmt.Sprintf("panic while displaying a message from a stream at log level %v: %v", lvl, r), cj)
				}
			}()
			for i := range msgs {
				msgs[i].LogLevel = lvl
				exerciseMessage(&msgs[i])
			}
		}()
		atomic.StoreInt64(&c07Started, 0)
		c.Count("stream_messages", int64(len(msgs)))
	}
}

// execC07Periodic feeds a stream that consists of one short unit repeated millions of
// times (the filler a caster sends on an idle link, a device stuck on one message,
// a line of zeros) and looks at every message only in passing: whatever the handler
// does per unit, it must not add up.
func execC07Periodic(c *child.Ctx, k crashCase, cj []byte) {
	unit := unhex(k.Unit)
	in := make(chan byte, 65536)
	out := make(chan handler.Message, 64)
	h := handler.New(fixedStart, slog.LevelInfo)
	go h.HandleMessages(in, out)
	go func() {
		for i := 0; i < k.Repeats; i++ {
			for _, b := range unit {
				in <- b
			}
			if i%4096 == 0 {
				tick()
			}
		}
		close(in)
	}()
	done := make(chan struct{})
	var nmsgs, nbytes int64
	go func() {
		for m := range out {
			nmsgs++
			nbytes += int64(len(m.RawData))
			if nmsgs%100000 == 1 {
				func() {
					defer func() {
						if r := recover(); r != nil {
							c.Violate("panic", fmt.Sprintf("panic while displaying message %d of a monotonous stream: %v", nmsgs, r), cj)
						}
					}()
					exerciseMessage(&m)
				}()
			}
			if nmsgs%4096 == 0 {
				tick()
			}
		}
		close(done)
	}()
	waitOrHang(done, 20*time.Minute, "stream handler did not finish a long monotonous stream")
	if want := int64(len(unit)) * int64(k.Repeats); nbytes != want {
		c.Count("periodic_streams_with_a_different_byte_count_left_to_C02", 1)
	}
	c.Count("periodic_stream_bytes", int64(len(unit))*int64(k.Repeats))
	c.Count("stream_messages", nmsgs)
}

// c07HasDecoder: does full decoding of a frame of this type do anything of its own?
func c07HasDecoder(t int, r *ref.SplitMix64) (has bool) {
	defer func() {
		if rr := recover(); rr != nil {
			has = true // it certainly runs code of its own
		}
	}()
	for i := 0; i < 4; i++ {
		body := r.Bytes(20 + 20*i)
		body[0], body[1] = byte(t>>4), byte(t<<4)|body[1]&0x0f
		h := handler.New(fixedStart, slog.LevelInfo)
		m, _ := h.GetMessage(ref.Frame(body))
		if m == nil {
			continue
		}
		before := m.ErrorMessage
		handler.Analyse(m)
		if m.ErrorMessage != before {
			return true
		}
		switch m.Readable.(type) {
		case nil, string:
		default:
			return true
		}
	}
	return false
}

var c07Types = []int{1005, 1006, 1074, 1077, 1084, 1087, 1094, 1097, 1104, 1107, 1114, 1117, 1124, 1127, 1134, 1137, 1230, 1, 4095}

// shapedPayload builds a payload of the given type and length whose bits follow
// one of several hostile shapes.
func shapedPayload(r *ref.SplitMix64, t, n, shape int) []byte {
	p := make([]byte, n)
	switch shape % 6 {
	case 0: // uniform random
		copy(p, r.Bytes(n))
	case 1: // sparse: mostly zero
		for i := range p {
			if r.Chance(1, 12) {
				p[i] = byte(r.Intn(256))
			}
		}
	case 2: // all ones: masks announce 64x32 cells
		for i := range p {
			p[i] = 0xFF
		}
	case 3: // random header, few mask bits (so the cell mask is small and the rest is cell data)
		copy(p, r.Bytes(n))
		var w ref.BitWriter
		w.Put(uint64(t), 12)
		w.Put(uint64(r.Intn(4096)), 12)
		w.Put(uint64(r.Intn(604800000)), 30)
		w.Put(uint64(r.Intn(1<<19)), 19)
		nsat, nsig := r.Range(0, 5), r.Range(0, 4)
		w.Put(pickMask(r, nsat, 64), 64)
		w.Put(pickMask(r, nsig, 32)>>32, 32)
		copy(p, w.Bytes())
	case 4: // masks announcing 65..2048 cells
		copy(p, r.Bytes(n))
		var w ref.BitWriter
		w.Put(uint64(t), 12)
		w.Put(uint64(r.Intn(4096)), 12)
		w.Put(uint64(r.Intn(1<<30)), 30)
		w.Put(uint64(r.Intn(1<<19)), 19)
		nsat := r.Range(3, 64)
		nsig := r.Range(65/nsat+1, 32)
		w.Put(pickMask(r, nsat, 64), 64)
		w.Put(pickMask(r, nsig, 32)>>32, 32)
		copy(p, w.Bytes())
	default: // zeros after the type
	}
	p[0] = byte(t >> 4)
	if n > 1 {
		p[1] = byte(t<<4) | (p[1] & 0x0F)
	}
	return p
}

func min2(a, b int) int {
	if a < b {
		return a
	}
	return b
}

func pickMask(r *ref.SplitMix64, n, width int) uint64 {
	var m uint64
	if n > width {
		n = width
	}
	for cnt := 0; cnt < n; {
		b := uint(63 - r.Intn(width))
		if m&(uint64(1)<<b) == 0 {
			m |= uint64(1) << b
			cnt++
		}
	}
	return m
}

func monC07(c *child.Ctx, replay json.RawMessage) {
	go endlessWatch()
	if replay != nil {
		var k crashCase
		json.Unmarshal(replay, &k)
		c.Begin(replay)
		if k.Frame != "" {
			execC07Frame(c, k, replay)
		}
		if k.Stream != "" {
			execC07Stream(c, k, replay)
		}
		if k.Unit != "" {
			execC07Periodic(c, k, replay)
		}
		c.Eval(1, true)
		return
	}
	r := ref.NewRand(c.Seed*179424673 + uint64(c.Batch)*198491317 + 7)
	nontrivialFrame := func(t, n int) bool {
		// CRC-valid frame of a decodable type whose payload is shorter than its nominal layout
		switch {
		case t == 1005:
			return n < 19
		case t == 1006:
			return n < 21
		case ref.IsMSM4(t) || ref.IsMSM7(t):
			return true // random payloads are practically never consistent with their masks
		}
		return false
	}
	doFrame := func(frame []byte, note string, nontriv bool) {
		k := crashCase{Frame: hexs(frame), Note: note}
		cj := c.BeginV(k)
		execC07Frame(c, k, cj)
		c.Eval(ref.Hash64(frame), nontriv)
		if c.WantSample() && nontriv && len(frame) < 40 {
			c.Sample(k)
		}
	}
	// (1) every type x every payload length x shapes
	shapes := c.Pick(6, 40)
	idx := 0
	for _, t := range c07Types {
		for n := 1; n <= 1023; n++ {
			idx++
			if idx%c.NBatch != c.Batch {
				continue
			}
			for sh := 0; sh < shapes; sh++ {
				tt := t
				if n == 1 {
					tt = t &^ 0x0F
				}
				p := shapedPayload(r, tt, n, sh+r.Intn(2)*3)
				f := ref.Frame(p)
				doFrame(f, fmt.Sprintf("type %d payload %d shape %d", ref.TypeOf(f), n, sh), nontrivialFrame(ref.TypeOf(f), n))
			}
		}
	}
	c.Count("type_length_pairs_swept", int64(idx/c.NBatch))
	// one-byte payloads: the low type nibble comes from the CRC; search for MSM types
	if c.Batch == 0 {
		found := 0
		for hi := 0; hi < 256; hi++ {
			f := ref.Frame([]byte{byte(hi)})
			doFrame(f, "one byte payload", nontrivialFrame(ref.TypeOf(f), 1))
			found++
		}
		c.Count("one_byte_payload_frames", int64(found))
	}
	// (1b) single-frame decoding is also handed raw slices that are NOT complete
	// frames: a zero or tiny length field followed by the type bits and a few more
	// bytes, and every prefix of a short valid frame; whatever it returns is displayed
	if c.Batch == 0 || c.Thorough() {
		for _, t := range c07Types {
			for l := 0; l <= 3; l++ {
				for extra := 0; extra <= 9; extra++ {
					raw := []byte{0xD3, 0x00, byte(l), byte(t >> 4), byte(t << 4)}
					raw = append(raw, r.Bytes(extra)...)
					doFrame(raw, fmt.Sprintf("raw input: length field %d, type %d, %d more bytes", l, t, extra), true)
					doFrame(raw[:3+min2(2, len(raw)-3)], "raw input: leader and type only", true)
				}
			}
			f := ref.Frame(shapedPayload(r, t, r.Range(7, 30), 3))
			for cut := 1; cut < len(f); cut++ {
				doFrame(f[:cut], fmt.Sprintf("raw input: first %d bytes of a valid type %d frame", cut, t), true)
			}
		}
		c.Count("raw_inputs_to_single_frame_decoding", 1)
	}
	// (2) well-formed messages truncated at every byte, and with mask bits flipped upward; illegal timestamps
	nWell := c.Share(c.Pick(400, 12000))
	for i := 0; i < nWell; i++ {
		var payload []byte
		var t int
		if i%5 == 0 {
			t = 1005 + r.Intn(2)
			payload = ref.EncodeBase(gen.RandBase(r, t), t)
		} else {
			m := gen.RandMSM(r, gen.MSMOpts{AllowNoCell: true})
			if r.Chance(1, 4) {
				m.FixIllegalTime(r)
			}
			m.PadBytes = r.Intn(4)
			t = m.Type
			payload = ref.EncodeMSM(m)
			if len(payload) > 1023 {
				payload = payload[:1023]
			}
		}
		step := 1
		if len(payload) > 200 {
			step = 3
		}
		for cut := 1; cut <= len(payload); cut += step {
			doFrame(ref.Frame(payload[:cut]), fmt.Sprintf("well-formed type %d body truncated to %d of %d bytes", t, cut, len(payload)), cut < len(payload))
		}
		if ref.IsMSM4(t) || ref.IsMSM7(t) {
			// flip mask bits upward (more satellites / signals / cells than the body holds)
			for k := 0; k < 6; k++ {
				q := append([]byte(nil), payload...)
				bit := 73 + r.Intn(96+8)
				if bit/8 < len(q) {
					q[bit/8] |= 1 << uint(7-bit%8)
				}
				doFrame(ref.Frame(q), fmt.Sprintf("well-formed type %d body with mask bit %d forced to one", t, bit), true)
			}
		}
	}
	// (3) arbitrary streams through the stream handler, both log levels
	// all 256 one-byte pieces of other data, alone, before a frame and after one; with
	// and without a line end (a lone "$", a lone "\r", ...)
	if c.Batch == 1 || c.Thorough() && c.Batch%16 == 1 {
		f := gen.RandFrame(r)
		for b := 0; b < 256; b++ {
			for _, in := range [][]byte{{byte(b)}, append([]byte{byte(b)}, f.Bytes...), append(append([]byte(nil), f.Bytes...), byte(b)),
				{byte(b), '\r', '\n'}, append([]byte{byte(b), '\n'}, f.Bytes...), {'$', byte(b)}, {byte(b), '$'}} {
				k := crashCase{Stream: hexs(in), Note: "one byte of other data"}
				cj := c.BeginV(k)
				execC07Stream(c, k, cj)
				c.Eval(ref.Hash64(in), true)
			}
			for _, lvl := range []slog.Level{slog.LevelInfo, slog.LevelDebug} {
				m := handler.Message{MessageType: -1, RawData: []byte{byte(b)}, LogLevel: lvl}
				k := crashCase{Frame: hexs(m.RawData), Note: "a non-RTCM message of one byte, displayed"}
				cj, _ := json.Marshal(k)
				func() {
					defer func() {
						if rr := recover(); rr != nil {
							c.Violate("panic", fmt.Sprintf("panic while displaying a non-RTCM message holding the single byte %#02x at level %v: %v", b, lvl, rr), cj)
						}
					}()
					exerciseMessage(&m)
				}()
			}
		}
		c.Count("one_byte_messages_displayed", 256)
	}
	// EVERY message type, not only the ones known to have a decoder today: short
	// CRC-valid frames with random and patterned bodies, decoded and displayed
	{
		per := c.Pick(300, 3000)
		for t := c.Batch; t < 4096; t += c.NBatch {
			for j := 0; j < per; j++ {
				n := 2 + j%30
				if j%50 == 49 {
					n = r.Range(32, 200)
				}
				body := r.Bytes(n)
				switch j % 5 {
				case 1:
					for x := range body {
						body[x] = 0
					}
				case 2:
					for x := range body {
						body[x] = 0xff
					}
				case 3:
					// small counters: many layouts begin with lengths of what follows
					for x := range body {
						body[x] = byte(r.Intn(8))
					}
				}
				body[0], body[1] = byte(t>>4), byte(t<<4)|body[1]&0x0f
				frame := ref.Frame(body)
				var cj []byte
				k := crashCase{Frame: hexs(frame), Note: "every type, short body"}
				if j%64 == 0 {
					cj = c.BeginV(k)
				} else {
					cj, _ = json.Marshal(k)
				}
				lvl := []slog.Level{slog.LevelInfo, slog.LevelDebug}[j%2]
				func() {
					defer func() {
						if rr := recover(); rr != nil {
							c.Violate("panic", fmt.Sprintf("panic while decoding/displaying a %d-byte frame of type %d at level %v: %v", len(frame), t, lvl, rr), cj)
						}
					}()
					h := handler.New(fixedStart, lvl)
					if m, _ := h.GetMessage(frame); m != nil {
						exerciseMessage(m)
					}
				}()
			}
			c.EvalN(1)
			// does this type have a decoder of its own (full decoding yields a structure,
			// or leaves an error text)?  Then it gets the treatment of the known types:
			// every short length with many shapes, and every body of small counters
			known := false
			for _, kt := range c07Types {
				if kt == t {
					known = true
				}
			}
			if !known && c07HasDecoder(t, r) {
				c.Count("types_found_to_have_a_decoder", 1)
				try := func(body []byte, note string) {
					body[0], body[1] = byte(t>>4), byte(t<<4)|body[1]&0x0f
					frame := ref.Frame(body)
					k := crashCase{Frame: hexs(frame), Note: note}
					cj, _ := json.Marshal(k)
					for _, lvl := range []slog.Level{slog.LevelInfo, slog.LevelDebug} {
						func() {
							defer func() {
								if rr := recover(); rr != nil {
									c.Violate("panic", fmt.Sprintf("panic while decoding/displaying a %d-byte frame of type %d (a type with a decoder of its own) at level %v: %v", len(frame), t, lvl, rr), cj)
								}
							}()
							h := handler.New(fixedStart, lvl)
							if m, _ := h.GetMessage(frame); m != nil {
								exerciseMessage(m)
							}
						}()
					}
				}
				for n := 2; n <= 120 && c.NViolations() == 0; n++ {
					for shape := 0; shape < 24; shape++ {
						try(shapedPayload(r, t, n, shape%6), "decodable type, every short length")
					}
				}
				// bodies of 3..7 bytes whose bytes after the type are all 0..7 (counters and
				// lengths of what follows), exhaustively
				for n := 3; n <= 7 && c.NViolations() == 0; n++ {
					total := 1
					for x := 0; x < n-2; x++ {
						total *= 8
					}
					for v := 0; v < total; v++ {
						body := make([]byte, n)
						w := v
						for x := 2; x < n; x++ {
							body[x] = byte(w % 8)
							w /= 8
						}
						try(body, "decodable type, small counters")
					}
				}
			}
		}
		c.Count("all_types_swept_with_short_bodies", 1)
	}
	// MSM bodies whose cell mask is exactly 64 bits long, with the first, the last or
	// every cell set (frames long enough for the header, with and without the cells)
	if c.Batch%4 == 3 {
		for _, t := range []int{1074, 1077, 1084, 1087, 1094, 1097, 1124, 1127, 1104, 1137} {
			for _, sh := range [][2]int{{8, 8}, {16, 4}, {4, 16}, {32, 2}, {2, 32}, {64, 1}} {
				for pat := 0; pat < 4; pat++ {
					m := &ref.MSM{Type: t, StationID: 7, Timestamp: 3000, CellsSent: -1}
					for i := 0; i < sh[0]; i++ {
						m.SatMask |= uint64(1) << uint(63-i)
						m.Sats = append(m.Sats, ref.Sat{Whole: 70, Frac: 3})
					}
					for i := 0; i < sh[1]; i++ {
						m.SigMask |= uint32(1) << uint(31-i)
					}
					for cidx := 0; cidx < 64; cidx++ {
						on := pat == 3 || pat == 0 && cidx == 0 || pat == 1 && cidx == 63 || pat == 2 && (cidx == 0 || cidx == 63)
						m.CellMask = append(m.CellMask, on)
						if on {
							m.Sigs = append(m.Sigs, ref.Sig{RangeDelta: 1, PhaseDelta: 2, Lock: 1, CNR: 30})
						}
					}
					p := ref.EncodeMSM(m)
					for _, cut := range []int{len(p), len(p) - 1, 40, 34, 33} {
						if cut > len(p) || cut < 8 || cut > 1023 {
							continue
						}
						doFrame(ref.Frame(p[:cut]), "cell mask of exactly 64 bits", true)
					}
				}
			}
		}
		c.Count("full_cell_mask_frames", 1)
	}
	// runs without a start byte longer than any buffer someone might have sized
	if c.Batch == 2 || c.Thorough() && c.Batch%16 == 2 {
		for _, jl := range []int{4095, 4096, 4097, 5000, 20000, 65536, 65537, 100000} {
			in := append(append(append([]byte(nil), gen.RandFrame(r).Bytes...), gen.NoD3(r.Bytes(jl))...), gen.RandFrame(r).Bytes...)
			k := crashCase{Stream: hexs(in), Note: fmt.Sprintf("%d bytes without a start byte", jl)}
			cj := c.BeginV(k)
			execC07Stream(c, k, cj)
			c.Eval(ref.Hash64(in), true)
		}
		c.Count("long_runs_without_a_start_byte", 1)
	}
	// long monotonous streams
	if c.Batch == 0 || c.Thorough() && c.Batch < 12 {
		zero := []byte{0xd3, 0, 0}
		cc := ref.CRC24Q(zero)
		zero = append(zero, byte(cc>>16), byte(cc>>8), byte(cc))
		tiny := ref.Frame([]byte{0x3e})
		units := [][]byte{zero, tiny, {0xd3}, {0xd3, 0x00}, {0x00}, []byte("$GPGGA*00\r\n"), {0xd3, 0x00, 0x00}, ref.Frame([]byte{0x43, 0x50, 0, 0, 0, 0, 0, 0}),
			{0xd3, 0xff}, []byte("\r\n"), {0xd3, 0x03, 0xff}, gen.RandFrame(r).Bytes}
		u := units[0]
		total := 30 << 20
		if c.Thorough() {
			u = units[c.Batch%len(units)]
			total = 64 << 20
		}
		k := crashCase{Unit: hexs(u), Repeats: total / len(u), Note: "one unit repeated"}
		cj := c.BeginV(k)
		execC07Periodic(c, k, cj)
		c.Eval(ref.Hash64(u, []byte("periodic")), true)
	}
	nStreams := c.Share(c.Pick(6000, 120000))
	for i := 0; i < nStreams; i++ {
		var b []byte
		switch i % 10 {
		case 0:
			b = make([]byte, r.Range(1, 3000))
			for j := range b {
				b[j] = 0xD3
			}
		case 1:
			b = append([]byte{0xD3, 0x03, 0xFF}, r.Bytes(r.Range(0, 200))...)
		case 2:
			b = r.Bytes(r.Range(1, 20000))
		default:
			b = gen.HostileStream(r, false).Bytes()
		}
		k := crashCase{Stream: hexs(b)}
		cj := c.BeginV(k)
		execC07Stream(c, k, cj)
		c.Eval(ref.Hash64(b), i%10 > 2)
	}
	// sessions of well-formed MSM messages of the four constellations with a time scale,
	// running across week and day rollovers, with illegal timestamps and frames cut
	// short in between (the histories of C06): framed, decoded and displayed
	nHist := c.Share(c.Pick(1600, 32000))
	for i := 0; i < nHist; i++ {
		h, _ := genHistory(r, i%2 == 0)
		rr := ref.NewRand(uint64(h.StartMs) ^ 0x5555)
		var b []byte
		for _, m := range h.Msgs {
			f := timeFrame(rr, m.Type, m.TS)
			if m.Short > 0 {
				f = ref.Frame(f[3 : 3+m.Short])
			}
			b = append(b, f...)
		}
		k := crashCase{Stream: hexs(b), Note: "a session across rollovers"}
		cj := c.BeginV(k)
		execC07Stream(c, k, cj)
		c.Count("sessions_across_rollovers", 1)
		c.Eval(ref.Hash64(b), true)
	}
	if c.Thorough() && c.Batch == 0 {
		b := r.Bytes(1 << 20)
		k := crashCase{Stream: hexs(b), Note: "1 MB random"}
		cj := c.BeginV(k)
		execC07Stream(c, k, cj)
		c.Eval(ref.Hash64(b), true)
	}
}
