package main

import (
	"bufio"
	"bytes"
	"encoding/json"
	"errors"
	"fmt"
	"io"
	"io/fs"
	"log"
	"log/slog"
	"os"
	"path/filepath"
	"sync"
	"sync/atomic"
	"time"

	filehandler "github.com/goblimey/go-ntrip/file_handler"
	"github.com/goblimey/go-ntrip/jsonconfig"
	"github.com/goblimey/go-ntrip/rtcm/handler"

	"verifharness/child"
	"verifharness/gen"
	"verifharness/ref"
)

func init() { monitors["C13"] = monC13 }

// A script step is a data chunk or a fault.
type step struct {
	Data  string `json:"data,omitempty"`  // hex
	Fault string `json:"fault,omitempty"` // eof | timeout | deadline | other
	// a step with both Data and Fault returns the bytes TOGETHER with the error in one
	// Read call, as io.Reader allows
	DelayMs int `json:"delay_ms,omitempty"` // the Read blocks this long before it reports the fault
}

type faultCase struct {
	Steps       []step `json:"steps"`
	TimeoutMs   uint   `json:"timeout_on_eof_ms"` // 0 = zero tolerance
	WaitMs      uint   `json:"wait_on_eof_ms"`
	Tolerant    bool   `json:"tolerant"`   // the script stays within the tolerance: everything must be processed
	StopAfter   int    `json:"stop_after"` // for stop scripts: number of data bytes supplied before the stop
	WantErrKind string `json:"want_error"` // eof | timeout | other
	// what the source reports for ever once the script has been played: "" = end of
	// file (the same io.EOF every time), "timeout" = a fresh i/o timeout error each time
	// (as os.File and net.Conn produce), "mixed" = the two alternating
	AfterEnd string `json:"after_script,omitempty"`
	// the Config object was used before, by a handler, with this tolerance (-1 = not),
	// and its fields were then set to the values above
	UsedBeforeWithTolMs int `json:"config_used_before_with_tolerance_ms,omitempty"`
	// the configuration has a system log (the handler writes a line per event to it)
	WithLog bool `json:"system_log,omitempty"`
	// the source is a real file that another process is still appending to, opened
	// the way the applications open their input (a JSON configuration naming a list
	// of files, Config.WaitAndConnectToInput): each Data step is appended after its
	// DelayMs; the end-of-file results are the file system's own
	Growing bool `json:"growing_file,omitempty"`
	// the same file handler object served an earlier input first (a fresh message
	// channel is put into its exported MessageChan field for the new input): an input
	// that it gave up on after end-of-file results beyond its tolerance
	HandlerUsedBefore bool `json:"file_handler_served_an_earlier_input,omitempty"`
	// unrelated settings of the same configuration: they must not matter
	ReadTimeoutMs uint   `json:"read_timeout_ms,omitempty"`
	SleepOpenMs   uint   `json:"sleep_after_failed_open_ms,omitempty"`
	Note          string `json:"note"`
}

var errOther = errors.New("input/output error")

// other hard errors a source can report: none of them is an end of file or an i/o timeout
var errOthers = map[string]error{
	"other":            errOther,
	"other-unexpected": io.ErrUnexpectedEOF,
	"other-reset":      errors.New("read tcp 127.0.0.1:2101->127.0.0.1:40000: read: connection reset by peer"),
	"other-closed":     io.ErrClosedPipe,
	"other-wrapped":    &fs.PathError{Op: "read", Path: "/dev/ttyUSB0", Err: errors.New("no such device")},
}

func faultErr(kind string) error {
	switch kind {
	case "eof":
		return io.EOF
	case "timeout":
		return errors.New("read /dev/ttyUSB0: i/o timeout")
	case "deadline":
		return &fs.PathError{Op: "read", Path: "/dev/ttyUSB0", Err: os.ErrDeadlineExceeded}
	case "timeout-path":
		// the text the handler's own comment quotes, carried by an error type that has
		// a Timeout method - which answers false, because the inner error is plain
		return &fs.PathError{Op: "read", Path: "/dev/ttyUSB0", Err: errors.New("i/o timeout")}
	case "timeout-wrapped":
		return fmt.Errorf("serial port: %w", errors.New("read /dev/ttyUSB0: i/o timeout"))
	}
	if e, ok := errOthers[kind]; ok {
		return e
	}
	return errOther
}

// scriptReader plays a script; after the script it reports end of file for ever.
// It timestamps the faults it returns so that a stalled machine can be told apart
// from a handler that gave up too early.
type scriptReader struct {
	mu        sync.Mutex
	steps     []step
	pos       int
	lastFault time.Time     // time of the previous Read if it returned a fault, else zero
	runStart  time.Time     // time of the first fault of the current series of consecutive faults
	maxGap    time.Duration // longest series of consecutive faults inside the script, first to last
	supplied  int
	afterEnd  int
	afterKind string
	tolerance time.Duration
	endStart  time.Time
	neverStop bool // the handler kept reading a silent source far beyond the tolerance
}

func (s *scriptReader) noteFault() {
	now := time.Now()
	if s.lastFault.IsZero() {
		s.runStart = now // first fault of a series
	} else if s.pos <= len(s.steps) && s.afterEnd == 0 {
		// the handler counts its tolerance from the first fault of a series
		if g := now.Sub(s.runStart); g > s.maxGap {
			s.maxGap = g
		}
	}
	s.lastFault = now
}

func (s *scriptReader) Read(p []byte) (int, error) {
	tick()
	s.mu.Lock()
	defer s.mu.Unlock()
	if s.pos >= len(s.steps) {
		s.noteFault()
		s.afterEnd++
		if s.afterEnd == 1 {
			s.endStart = time.Now()
		}
		// The source stays silent for good.  Every one of these reads shows the handler
		// alive and looking at its clock; once it has made more than 200 of them over
		// more than 25 times the tolerance (and 2 s) it is not going to stop: say so and
		// end the run with a hard error.
		if s.tolerance > 0 && s.afterEnd > 200 && time.Since(s.endStart) > 25*s.tolerance && time.Since(s.endStart) > 2*time.Second {
			s.neverStop = true
			return 0, errOther
		}
		switch {
		case s.afterKind == "timeout" || s.afterKind == "mixed" && s.afterEnd%2 == 0:
			return 0, faultErr([]string{"timeout", "deadline"}[s.afterEnd%2])
		case s.afterKind == "timeout-empty":
			// nothing, in both of the ways a serial library says so
			if s.afterEnd%2 == 0 {
				return 0, nil
			}
			return 0, faultErr("timeout")
		case s.afterKind == "eof-empty":
			if s.afterEnd%2 == 0 {
				return 0, nil
			}
		}
		return 0, io.EOF
	}
	st := s.steps[s.pos]
	if st.Fault != "" && st.Data != "" {
		// data and error in the same call
		d := unhex(st.Data)
		n := copy(p, d)
		if n < len(d) {
			s.steps[s.pos].Data = hexs(d[n:])
			s.supplied += n
			s.lastFault = time.Time{}
			return n, nil
		}
		s.pos++
		s.supplied += n
		s.lastFault = time.Time{}
		s.noteFault()
		return n, faultErr(st.Fault)
	}
	if st.Fault == "empty" {
		// an empty chunk: (0, nil)
		s.pos++
		return 0, nil
	}
	if st.Fault != "" {
		if st.DelayMs > 0 {
			// the source stays silent for a while before it reports the end of file
			s.mu.Unlock()
			time.Sleep(time.Duration(st.DelayMs) * time.Millisecond)
			s.mu.Lock()
		}
		s.pos++
		s.noteFault()
		return 0, faultErr(st.Fault)
	}
	if st.DelayMs > 0 {
		// the source has nothing for a while, then the data (the read blocks)
		s.steps[s.pos].DelayMs = 0
		s.mu.Unlock()
		time.Sleep(time.Duration(st.DelayMs) * time.Millisecond)
		s.mu.Lock()
	}
	d := unhex(st.Data)
	n := copy(p, d)
	if n < len(d) {
		s.steps[s.pos].Data = hexs(d[n:])
	} else {
		s.pos++
	}
	s.supplied += n
	s.lastFault = time.Time{}
	return n, nil
}

// heartbeat measures how late this process's own goroutines are woken: a goroutine
// sleeps 2 ms over and over and records by how much each sleep overshot.  A handler
// that gives up although the script kept every interruption within the tolerance is
// excused only if the machine itself was late during that run.
var heartbeat struct {
	sync.Mutex
	started bool
	late    []lateness
}

type lateness struct {
	at time.Time
	by time.Duration
}

func startHeartbeat() {
	heartbeat.Lock()
	defer heartbeat.Unlock()
	if heartbeat.started {
		return
	}
	heartbeat.started = true
	go func() {
		for {
			t0 := time.Now()
			time.Sleep(2 * time.Millisecond)
			by := time.Since(t0) - 2*time.Millisecond
			if by > 20*time.Millisecond {
				heartbeat.Lock()
				heartbeat.late = append(heartbeat.late, lateness{time.Now(), by})
				if len(heartbeat.late) > 4096 {
					heartbeat.late = heartbeat.late[2048:]
				}
				heartbeat.Unlock()
			}
		}
	}()
}

// worstLatenessSince is the largest overshoot recorded since t.
func worstLatenessSince(t time.Time) time.Duration {
	heartbeat.Lock()
	defer heartbeat.Unlock()
	var w time.Duration
	for _, l := range heartbeat.late {
		if l.at.After(t) && l.by > w {
			w = l.by
		}
	}
	return w
}

type faultObs struct {
	msgs      []handler.Message
	err       error
	closed    bool
	stalled   bool
	supplied  int
	neverStop bool
	afterEnd  int
}

func runFaultScript(k faultCase) faultObs {
	startHeartbeat()
	began := time.Now()
	steps := append([]step(nil), k.Steps...)
	sr := &scriptReader{steps: steps, afterKind: k.AfterEnd, tolerance: time.Duration(k.TimeoutMs) * time.Millisecond}
	cfg := &jsonconfig.Config{WaitTimeOnEOFMilliseconds: k.WaitMs, TimeoutOnEOFMilliSeconds: k.TimeoutMs,
		ReadTimeoutMilliSeconds: k.ReadTimeoutMs, SleepTimeAfterFailedOpenMilliSeconds: k.SleepOpenMs}
	if k.WithLog {
		cfg.SystemLog = log.New(io.Discard, "", log.LstdFlags)
	}
	if k.UsedBeforeWithTolMs != 0 {
		// the same Config object served an earlier session with another tolerance
		before := uint(0)
		if k.UsedBeforeWithTolMs > 0 {
			before = uint(k.UsedBeforeWithTolMs)
		}
		cfg.TimeoutOnEOFMilliSeconds, cfg.WaitTimeOnEOFMilliseconds = before, 1
		ch0 := make(chan handler.Message, 4)
		fh0 := filehandler.New(ch0, cfg)
		go func() {
			for range ch0 {
			}
		}()
		fh0.Handle(fixedStart, bufio.NewReader(&scriptReader{steps: []step{{Data: "d3"}, {Fault: "eof"}, {Fault: "other"}}}))
		cfg.TimeoutOnEOFMilliSeconds, cfg.WaitTimeOnEOFMilliseconds = k.TimeoutMs, k.WaitMs
	}
	var source io.Reader = sr
	var grown *countingReader
	if k.Growing {
		dir, err := os.MkdirTemp(".", "c13grow")
		if err == nil {
			defer os.RemoveAll(dir)
			feed := filepath.Join(dir, "feed.rtcm")
			os.WriteFile(feed, nil, 0644)
			cfgText := fmt.Sprintf(`{"input": [%q, %q], "timeout_on_EOF_milliseconds": %d, "wait_time_on_EOF_millis": %d, "read_timeout_milliseconds": %d, "sleep_time_after_failed_open_milliseconds": 5}`,
				filepath.Join(dir, "ttyACM0-not-there"), feed, k.TimeoutMs, k.WaitMs, k.ReadTimeoutMs)
			cfgPath := filepath.Join(dir, "cfg.json")
			os.WriteFile(cfgPath, []byte(cfgText), 0644)
			if fc, e := jsonconfig.GetJSONConfigFromFile(cfgPath, log.New(io.Discard, "", 0)); e == nil {
				cfg = fc
				grown = &countingReader{r: cfg.WaitAndConnectToInput()}
				source = grown
				go func() {
					for _, st := range steps {
						sleepTicking(time.Duration(st.DelayMs) * time.Millisecond)
						if f, e := os.OpenFile(feed, os.O_APPEND|os.O_WRONLY, 0644); e == nil {
							f.Write(unhex(st.Data))
							f.Close()
						}
					}
				}()
			}
		}
	}
	ch := make(chan handler.Message, 4)
	fh := filehandler.New(ch, cfg)
	if k.HandlerUsedBefore {
		ch0 := make(chan handler.Message, 4)
		fh = filehandler.New(ch0, cfg)
		go func() {
			for range ch0 {
			}
		}()
		fh.Handle(fixedStart, bufio.NewReader(&scriptReader{steps: []step{{Data: "d3001443"}, {Fault: "eof"}}}))
		fh.MessageChan = ch
	}
	var obs faultObs
	done := make(chan struct{})
	go func() {
		obs.err = fh.Handle(fixedStart, bufio.NewReader(source))
		close(done)
	}()
	collected := make(chan struct{})
	go func() {
		for m := range ch {
			obs.msgs = append(obs.msgs, m)
			tick()
		}
		obs.closed = true
		close(collected)
	}()
	waitOrHang(done, caseWatchdog, "file handler did not return")
	waitOrHangGone(collected, caseWatchdog, "message channel was not closed after the file handler returned")
	sr.mu.Lock()
	defer sr.mu.Unlock()
	obs.supplied = sr.supplied
	if grown != nil {
		obs.supplied = int(atomic.LoadInt64(&grown.n))
	}
	obs.neverStop = sr.neverStop
	obs.afterEnd = sr.afterEnd
	// stall guard: the handler is excused for giving up early only if this process's
	// own heartbeat shows that the machine was late during the run (by a quarter of the
	// tolerance, at most 100 ms).  How long the handler itself chose to wait between
	// its reads is its own business: a source that has data again whenever it is asked
	// has resumed within any tolerance.
	if k.TimeoutMs > 0 {
		limit := time.Duration(k.TimeoutMs) * time.Millisecond / 4
		if limit > 100*time.Millisecond {
			limit = 100 * time.Millisecond
		}
		if worstLatenessSince(began) > limit {
			obs.stalled = true
		}
	}
	return obs
}

// countingReader counts the bytes that have been read through it.
type countingReader struct {
	r io.Reader
	n int64
}

func (c *countingReader) Read(p []byte) (int, error) {
	tick()
	n, err := c.r.Read(p)
	atomic.AddInt64(&c.n, int64(n))
	return n, err
}

func allData(steps []step) []byte {
	var b []byte
	for _, s := range steps {
		if s.Data != "" {
			b = append(b, unhex(s.Data)...)
		}
	}
	return b
}

func sameSeq(a []handler.Message, b []handler.Message) string {
	n := len(a)
	if len(b) < n {
		n = len(b)
	}
	for i := 0; i < n; i++ {
		if a[i].MessageType != b[i].MessageType || !bytes.Equal(a[i].RawData, b[i].RawData) {
			return fmt.Sprintf("message %d: got (type %d, %d bytes %s), the uninterrupted stream gives (type %d, %d bytes %s)", i,
				a[i].MessageType, len(a[i].RawData), clip(hexs(a[i].RawData)), b[i].MessageType, len(b[i].RawData), clip(hexs(b[i].RawData)))
		}
	}
	if len(a) != len(b) {
		return fmt.Sprintf("%d messages delivered, the uninterrupted stream gives %d; delivered:%s", len(a), len(b), describeMsgs(a, 8))
	}
	return ""
}

// suspects collects tolerant scripts on which the handler gave up early while the
// reader saw no stall.  The code under test reads the wall clock between the
// reader's return and its own decision, where no reader-side timestamp can see a
// stall; so such a case is only a violation if it gives up again in each of three
// re-runs executed alone, one after the other, when the batch has finished (a
// genuine defect - a timer not re-armed, a wrong tolerance - is deterministic; a
// scheduling stall longer than the tolerance is not).
var suspects struct {
	sync.Mutex
	list []faultCase
}

// execC13 returns true if the case was decided (false = inconclusive, retry).
func execC13(c *child.Ctx, k faultCase, cj []byte) bool {
	decided, _ := execC13X(c, k, cj, false)
	return decided
}

// execC13X returns (decided, gaveUpEarly).  In confirming mode an early give-up is
// reported through the second result only.
func execC13X(c *child.Ctx, k faultCase, cj []byte, confirming bool) (bool, string) {
	decided, early := execC13Y(c, k, cj, confirming)
	return decided, early
}

func execC13Y(c *child.Ctx, k faultCase, cj []byte, confirming bool) (bool, string) {
	obs := runFaultScript(k)
	if !obs.closed {
		c.Violate("channel-not-closed", "the message channel was not closed", cj)
		return true, ""
	}
	if obs.err == nil {
		c.Violate("no-error-returned", "Handle returned nil although the input ended", cj)
		return true, ""
	}
	if obs.neverStop {
		c.Violate("did-not-stop", fmt.Sprintf("the source stayed silent for good (reporting %q after the script) and the handler was still reading it after %d reads and more than 25 times the tolerance of %d ms (%s)", k.AfterEnd, obs.afterEnd, k.TimeoutMs, k.Note), cj)
		return true, ""
	}
	data := allData(k.Steps)
	if k.Tolerant {
		if obs.supplied != len(data) {
			if obs.stalled {
				return false, "" // the machine stalled: the handler was entitled to give up
			}
			if !confirming {
				suspects.Lock()
				suspects.list = append(suspects.list, k)
				suspects.Unlock()
				return true, ""
			}
			return true, fmt.Sprintf("the handler stopped after %d of %d bytes although every interruption was within the tolerance (error %v)", obs.supplied, len(data), obs.err)
		}
		want := runSequential(fixedStart, slog.LevelDebug, data)
		if why := sameSeq(obs.msgs, want); why != "" {
			c.Violate("interruption-changed-messages", why+" ("+k.Note+")", cj)
		}
		c.Count("tolerant_scripts_checked", 1)
		return true, ""
	}
	// stop script
	if obs.supplied != k.StopAfter {
		c.Violate("did-not-stop", fmt.Sprintf("the handler consumed %d bytes; the source stopped being readable after %d (%s)", obs.supplied, k.StopAfter, k.Note), cj)
		return true, ""
	}
	want := runSequential(fixedStart, slog.LevelDebug, data[:k.StopAfter])
	if why := sameSeq(obs.msgs, want); why != "" {
		c.Violate("data-before-stop-lost", why+" ("+k.Note+")", cj)
	}
	switch k.WantErrKind {
	default:
		if want, ok := errOthers[k.WantErrKind]; ok && !errors.Is(obs.err, want) {
			c.Violate("wrong-error", fmt.Sprintf("Handle returned %v, the read error was %v", obs.err, want), cj)
		}
	}
	c.Count("stop_scripts_checked", 1)
	return true, ""
}

// splitAt turns data into script steps cut at the given byte positions, in chunks
// of at most chunk bytes.
func chunked(data []byte, chunk int) []step {
	var out []step
	for len(data) > 0 {
		n := chunk
		if n > len(data) {
			n = len(data)
		}
		out = append(out, step{Data: hexs(data[:n])})
		data = data[n:]
	}
	return out
}

func monC13(c *child.Ctx, replay json.RawMessage) {
	const tolMs = 400
	if replay != nil {
		var k faultCase
		json.Unmarshal(replay, &k)
		c.Begin(replay)
		for try := 0; try < 3; try++ {
			if execC13(c, k, replay) {
				break
			}
		}
		c.Eval(1, true)
		return
	}
	r := ref.NewRand(c.Seed*452930459 + uint64(c.Batch)*472882027 + 13)
	var cases []faultCase
	var nontriv []bool
	add := func(k faultCase, nt bool) {
		if k.Tolerant && len(cases)%10 != 0 {
			// most tolerant scripts end with a hard read error (the handler stops at once)
			// instead of a silence the handler has to sit out; every tenth keeps the silence
			k.Steps = append(append([]step(nil), k.Steps...), step{Fault: "other"})
		}
		// the other settings of the configuration (shipped configs set them) must not change the behaviour
		k.WithLog = len(cases)%3 == 1
		switch len(cases) % 4 {
		case 1:
			k.ReadTimeoutMs = 500
		case 2:
			k.ReadTimeoutMs, k.SleepOpenMs = 30000, 1000
		case 3:
			k.SleepOpenMs = 250
		}
		cases = append(cases, k)
		nontriv = append(nontriv, nt)
	}
	faultKinds := []string{"eof", "timeout", "deadline", "timeout-path", "timeout-wrapped"}
	otherKinds := []string{"other", "other", "other-unexpected", "other-reset", "other-closed", "other-wrapped"}
	nStreams := c.Share(c.Pick(48, 1600))
	for si := 0; si < nStreams; si++ {
		s := gen.CleanStream(r, gen.CleanOpts{MinFrames: 2, MaxFrames: 4, SmallFrames: true, TruncTail: si%3 == 0})
		if si%4 == 3 {
			s = gen.HostileStream(r, false)
		}
		data := s.Bytes()
		if len(data) > 400 {
			data = data[:400]
		}
		if len(data) < 10 {
			continue
		}
		// which byte boundaries lie strictly inside a frame
		inside := make([]bool, len(data)+1)
		off := 0
		for _, g := range s {
			if g.Kind == "frame" {
				for p := off + 1; p < off+len(g.Bytes) && p <= len(data); p++ {
					inside[p] = true
				}
			}
			off += len(g.Bytes)
		}
		chunk := []int{1, 3, 50, 4096}[r.Intn(4)]
		mk := func(pos int, faults []string) []step {
			st := chunked(data[:pos], chunk)
			for _, f := range faults {
				st = append(st, step{Fault: f})
			}
			return append(st, chunked(data[pos:], chunk)...)
		}
		// single fault at EVERY byte boundary x {eof, timeout}
		for pos := 0; pos <= len(data); pos++ {
			for _, f := range []string{"eof", "timeout", faultKinds[2+(pos+si)%3]} {
				add(faultCase{Steps: mk(pos, []string{f}), TimeoutMs: tolMs, WaitMs: 1, Tolerant: true, Note: fmt.Sprintf("single %s after byte %d", f, pos)}, inside[pos])
			}
		}
		// double faults at every 4th boundary
		for pos := si % 4; pos <= len(data); pos += 4 {
			f1, f2 := faultKinds[r.Intn(len(faultKinds))], faultKinds[r.Intn(len(faultKinds))]
			add(faultCase{Steps: mk(pos, []string{f1, f2}), TimeoutMs: tolMs, WaitMs: 1, Tolerant: true, Note: fmt.Sprintf("%s+%s after byte %d", f1, f2, pos)}, inside[pos])
		}
		// bytes handed over together with the fault, in one Read call (as e.g. HTTP
		// bodies and decompressors do); and a Read that blocks longer than the tolerance
		// before it reports the first of two faults
		for i := 0; i < 6; i++ {
			pos := r.Range(1, len(data)-1)
			cut := r.Range(0, pos-1)
			st := chunked(data[:cut], chunk)
			st = append(st, step{Data: hexs(data[cut:pos]), Fault: faultKinds[r.Intn(len(faultKinds))]})
			if r.Chance(1, 2) {
				st = append(st, step{Fault: faultKinds[r.Intn(len(faultKinds))]})
			}
			st = append(st, chunked(data[pos:], chunk)...)
			c.Count("scripts_with_data_and_fault_in_one_read", 1)
			add(faultCase{Steps: st, TimeoutMs: tolMs, WaitMs: 1, Tolerant: true, Note: fmt.Sprintf("bytes %d..%d arrive together with the fault", cut, pos)}, inside[pos])
		}
		if si%3 == 0 {
			pos := r.Range(0, len(data))
			st := chunked(data[:pos], chunk)
			st = append(st, step{Fault: faultKinds[r.Intn(len(faultKinds))], DelayMs: tolMs + 60}, step{Fault: faultKinds[r.Intn(len(faultKinds))]})
			st = append(st, chunked(data[pos:], chunk)...)
			c.Count("scripts_with_a_slow_first_fault", 1)
			add(faultCase{Steps: st, TimeoutMs: tolMs, WaitMs: 1, Tolerant: true, Note: fmt.Sprintf("the read blocks longer than the tolerance before the first of two faults after byte %d", pos)}, inside[pos])
		}
		// other ratios of the pause between retries to the tolerance: a single fault with
		// a pause nearly as long as the tolerance; two faults with a pause of more than
		// half of it (the property speaks of single and double interruptions; after a second
		// fault the handler sleeps for the whole tolerance, so a third one in a row is
		// always beyond it).  The source has data again whenever it is asked, and every
		// series of faults ends within the tolerance.
		for i, cfg := range [][3]int{{900, 1000, 1}, {600, 1000, 2}, {550, 1000, 2}, {140, 400, 2}} {
			if (si+i)%2 == 0 || c.Thorough() {
				pos := r.Range(0, len(data))
				var fl []string
				for j := 0; j < cfg[2]; j++ {
					fl = append(fl, faultKinds[r.Intn(len(faultKinds))])
				}
				c.Count("scripts_with_long_retry_pause", 1)
				add(faultCase{Steps: mk(pos, fl), TimeoutMs: uint(cfg[1]), WaitMs: uint(cfg[0]), Tolerant: true, Note: fmt.Sprintf("%d fault(s) after byte %d, retry pause %d ms, tolerance %d ms", cfg[2], pos, cfg[0], cfg[1])}, inside[pos])
			}
		}
		// a retry pause LONGER than the tolerance: legal, if odd; a single interruption
		// is still resumed from (the handler looks again after its pause and finds data)
		for i, cfg := range [][2]int{{300, 200}, {120, 100}, {60, 1}} {
			if (si+i)%3 == 0 || c.Thorough() {
				pos := r.Range(0, len(data))
				c.Count("scripts_with_retry_pause_longer_than_tolerance", 1)
				add(faultCase{Steps: mk(pos, []string{faultKinds[r.Intn(len(faultKinds))]}), TimeoutMs: uint(cfg[1]), WaitMs: uint(cfg[0]), Tolerant: true, Note: fmt.Sprintf("one fault after byte %d, retry pause %d ms, tolerance %d ms", pos, cfg[0], cfg[1])}, inside[pos])
			}
		}
		// a long retry pause inside a long tolerance: the source is back at once, but the
		// handler looks again only after 2.6 s - in the middle of a frame, which is then
		// completed as if nothing had happened
		if si == 0 || c.Thorough() && si%4 == 0 {
			pos := 0
			for p := range inside {
				if inside[p] && p > 3 {
					pos = p + 2
					if pos >= len(inside) || !inside[pos] {
						pos = p
					}
					break
				}
			}
			if pos > 0 {
				c.Count("scripts_with_a_retry_pause_of_seconds_inside_a_frame", 1)
				add(faultCase{Steps: mk(pos, []string{faultKinds[r.Intn(len(faultKinds))]}), TimeoutMs: 7000, WaitMs: 2600, Tolerant: true, Note: fmt.Sprintf("one fault after byte %d (inside a frame), retry pause 2600 ms, tolerance 7000 ms", pos)}, true)
			}
		}
		// ... and with that configuration a SECOND fault right after the pause means the
		// source has been silent for longer than the tolerance: the handler stops there
		if si%3 == 1 || c.Thorough() {
			pos := r.Range(0, len(data))
			c.Count("stop_scripts_pause_longer_than_tolerance", 1)
			add(faultCase{Steps: mk(pos, []string{"eof", "eof"}), TimeoutMs: 100, WaitMs: 300, StopAfter: pos, WantErrKind: "eof", Note: fmt.Sprintf("two faults after byte %d with a retry pause of 300 ms and a tolerance of 100 ms: silent beyond the tolerance", pos)}, inside[pos])
		}
		// the file handler object itself has served an earlier input (which it gave up on);
		// the new input begins with an interruption, or has one inside a frame
		if si%2 == 1 || c.Thorough() {
			pos := []int{0, 0, r.Range(0, len(data))}[r.Intn(3)]
			f := faultKinds[r.Intn(len(faultKinds))]
			c.Count("scripts_on_a_file_handler_that_served_an_earlier_input", 1)
			add(faultCase{Steps: mk(pos, []string{f}), TimeoutMs: tolMs, WaitMs: 1, Tolerant: true, HandlerUsedBefore: true, Note: fmt.Sprintf("single %s after byte %d; the same file handler object gave up on an earlier input before", f, pos)}, inside[pos])
		}
		// after an interruption the source answers "nothing yet" (0 bytes, no error) a
		// hundred times or more before the data continues: no error was reported, so
		// nothing may be given up
		if si%2 == 0 || c.Thorough() {
			pos := r.Range(0, len(data))
			fl := []string{faultKinds[r.Intn(len(faultKinds))]}
			if r.Chance(1, 2) {
				fl = append(fl, faultKinds[r.Intn(len(faultKinds))])
			}
			for j := []int{99, 100, 101, 150, 300, 1000}[r.Intn(6)]; j > 0; j-- {
				fl = append(fl, "empty")
			}
			c.Count("scripts_with_many_empty_reads_after_an_interruption", 1)
			add(faultCase{Steps: mk(pos, fl), TimeoutMs: tolMs, WaitMs: 1, Tolerant: true, Note: fmt.Sprintf("%d fault(s) after byte %d, then %d empty reads, then the data continues", len(fl)-countEmpty(fl), pos, countEmpty(fl))}, inside[pos])
		}
		// a real file that is still being written: the stream is appended in two to five
		// pieces with pauses well inside the tolerance; the file system reports end of
		// file in between, as often as the handler asks
		if si%3 == 0 || c.Thorough() {
			var st []step
			at := 0
			for np := r.Range(2, 5); np > 0 && at < len(data); np-- {
				to := r.Range(at+1, len(data))
				if np == 1 {
					to = len(data)
				}
				st = append(st, step{Data: hexs(data[at:to]), DelayMs: r.Range(5, 180)})
				at = to
			}
			if at < len(data) {
				st = append(st, step{Data: hexs(data[at:]), DelayMs: r.Range(5, 180)})
			}
			c.Count("scripts_with_a_growing_file", 1)
			add(faultCase{Steps: st, TimeoutMs: tolMs, WaitMs: []uint{1, 1, 50}[r.Intn(3)], ReadTimeoutMs: []uint{0, 0, 2000}[r.Intn(3)], Tolerant: true, Growing: true,
				Note: fmt.Sprintf("a file opened through the configuration and still growing: %d appends with pauses of up to 180 ms, tolerance %d ms", len(st), tolMs)}, true)
		}
		// a Config object that has been used before with the other kind of tolerance
		{
			pos := r.Range(0, len(data))
			f := faultKinds[r.Intn(len(faultKinds))]
			c.Count("scripts_with_a_reused_config", 2)
			add(faultCase{Steps: mk(pos, []string{f}), TimeoutMs: tolMs, WaitMs: 1, Tolerant: true, UsedBeforeWithTolMs: -1, Note: fmt.Sprintf("single %s after byte %d; the Config was used before with tolerance zero", f, pos)}, inside[pos])
			add(faultCase{Steps: mk(pos, []string{f}), TimeoutMs: 0, WaitMs: 0, StopAfter: pos, WantErrKind: f, UsedBeforeWithTolMs: 300, Note: fmt.Sprintf("zero tolerance, %s after byte %d; the Config was used before with a tolerance of 300 ms", f, pos)}, inside[pos])
		}
		// a second interruption that begins a little less than one tolerance after an
		// earlier one that was resumed from (retry pause a quarter of the tolerance)
		if si%2 == 1 || c.Thorough() {
			p1 := r.Range(0, len(data)-1)
			p2 := r.Range(p1+1, len(data))
			for _, gap := range []int{220, 260, 300} {
				st := chunked(data[:p1], chunk)
				st = append(st, step{Fault: faultKinds[r.Intn(len(faultKinds))]})
				mid := chunked(data[p1:p2], 4096)
				mid[len(mid)-1].DelayMs = gap // first fault at 0, resumed at ~100, next interruption at ~100+gap
				st = append(st, mid...)
				st = append(st, step{Fault: faultKinds[r.Intn(len(faultKinds))]}, step{Fault: faultKinds[r.Intn(len(faultKinds))]})
				st = append(st, chunked(data[p2:], chunk)...)
				c.Count("scripts_with_a_second_interruption_soon_after_the_first", 1)
				add(faultCase{Steps: st, TimeoutMs: 400, WaitMs: 100, Tolerant: true, Note: fmt.Sprintf("interruption after byte %d, resumed, %d ms of quiet, double interruption after byte %d (retry pause 100 ms, tolerance 400 ms)", p1, gap, p2)}, inside[p1] || inside[p2])
			}
		}
		// two separate interruptions
		for i := 0; i < 6; i++ {
			p1 := r.Range(0, len(data)-1)
			p2 := r.Range(p1+1, len(data))
			st := chunked(data[:p1], chunk)
			st = append(st, step{Fault: faultKinds[r.Intn(len(faultKinds))]})
			if r.Chance(1, 2) {
				st = append(st, step{Fault: faultKinds[r.Intn(len(faultKinds))]})
			}
			st = append(st, chunked(data[p1:p2], chunk)...)
			st = append(st, step{Fault: faultKinds[r.Intn(len(faultKinds))]})
			if r.Chance(1, 2) {
				st = append(st, step{Fault: faultKinds[r.Intn(len(faultKinds))]})
			}
			st = append(st, chunked(data[p2:], chunk)...)
			add(faultCase{Steps: st, TimeoutMs: tolMs, WaitMs: 1, Tolerant: true, Note: fmt.Sprintf("interruptions after bytes %d and %d", p1, p2)}, inside[p1] || inside[p2])
		}
		// the source reports one interruption at once and the second only after a read
		// that blocked for longer than the tolerance: it has been silent beyond the
		// tolerance, the handler stops there
		if si%2 == 0 {
			pos := r.Range(0, len(data))
			st := chunked(data[:pos], chunk)
			st = append(st, step{Fault: faultKinds[r.Intn(len(faultKinds))]}, step{Fault: faultKinds[r.Intn(len(faultKinds))], DelayMs: 160})
			st = append(st, chunked(data[pos:], chunk)...)
			c.Count("stop_scripts_slow_second_fault", 1)
			add(faultCase{Steps: st, TimeoutMs: 100, WaitMs: 1, StopAfter: pos, WantErrKind: "eof", Note: fmt.Sprintf("after byte %d an interruption, then a read that blocks 160 ms (tolerance 100 ms) before it reports the next", pos)}, inside[pos])
		}
		// stop scripts at every boundary (every 2nd in quick): zero tolerance, other error, silence beyond the tolerance
		stepStop := c.Pick(3, 1)
		for pos := si % stepStop; pos <= len(data); pos += stepStop {
			switch (pos/stepStop + si) % 4 {
			case 3:
				// a hard error directly after a tolerated end-of-file or timeout (no byte between)
				f := faultKinds[r.Intn(len(faultKinds))]
				c.Count("stop_scripts_other_error_after_tolerated_fault", 1)
				ok := otherKinds[r.Intn(len(otherKinds))]
				add(faultCase{Steps: mk(pos, []string{f, ok}), TimeoutMs: tolMs, WaitMs: 1, StopAfter: pos, WantErrKind: ok, Note: fmt.Sprintf("%s then another read error (%v) after byte %d", f, errOthers[ok], pos)}, inside[pos])
			case 0:
				f := faultKinds[r.Intn(len(faultKinds))]
				c.Count("stop_scripts_zero_tolerance", 1)
				add(faultCase{Steps: mk(pos, []string{f}), TimeoutMs: 0, WaitMs: 0, StopAfter: pos, WantErrKind: f, Note: fmt.Sprintf("zero tolerance, %s after byte %d", f, pos)}, inside[pos])
			case 1:
				tm := uint(0)
				if r.Chance(1, 2) {
					tm = tolMs
				}
				c.Count("stop_scripts_other_error", 1)
				ok := otherKinds[r.Intn(len(otherKinds))]
				add(faultCase{Steps: mk(pos, []string{ok}), TimeoutMs: tm, WaitMs: 1, StopAfter: pos, WantErrKind: ok, Note: fmt.Sprintf("other read error (%v) after byte %d", errOthers[ok], pos)}, inside[pos])
			default:
				// silence beyond the tolerance: faults keep coming until the handler gives up
				// (in a third of the scripts with empty reads between them: nothing arrived
				// either way)
				fl := []string{}
				withEmpty := r.Chance(1, 3)
				for i := 0; i < 12; i++ {
					fl = append(fl, faultKinds[r.Intn(len(faultKinds))])
					if withEmpty {
						fl = append(fl, "empty")
					}
				}
				if withEmpty {
					c.Count("stop_scripts_silence_with_empty_reads_between_the_faults", 1)
				}
				c.Count("stop_scripts_silence_beyond_tolerance", 1)
				after := []string{"", "timeout", "mixed", "timeout-empty", "eof-empty"}[r.Intn(5)]
				if after != "" {
					c.Count("stop_scripts_silent_source_reporting_fresh_timeouts", 1)
				}
				add(faultCase{Steps: mk(pos, fl), TimeoutMs: 40, WaitMs: 1, StopAfter: pos, WantErrKind: "eof", AfterEnd: after, Note: fmt.Sprintf("silent beyond the tolerance after byte %d", pos)}, inside[pos])
			}
		}
	}
	// run the cases concurrently (they sleep, they do not spin)
	par := 48
	sem := make(chan struct{}, par)
	var wg sync.WaitGroup
	for i := range cases {
		wg.Add(1)
		sem <- struct{}{}
		go func(i int) {
			defer wg.Done()
			defer func() { <-sem }()
			k := cases[i]
			cj, _ := json.Marshal(k)
			decided := false
			for try := 0; try < 3 && !decided; try++ {
				decided = execC13(c, k, cj)
			}
			if !decided {
				c.Inconclusive("machine stalled during a fault script three times: " + k.Note)
				c.EvalN(1)
				return
			}
			c.Eval(ref.Hash64(cj), nontriv[i])
			if c.WantSample() && nontriv[i] && len(k.Steps) < 12 {
				c.Sample(k)
			}
		}(i)
	}
	wg.Wait()
	// confirm the suspects alone, sequentially
	suspects.Lock()
	list := suspects.list
	suspects.list = nil
	suspects.Unlock()
	notReproduced := 0
	for _, k := range list {
		cj, _ := json.Marshal(k)
		again := 0
		why := ""
		for try := 0; try < 3; try++ {
			decided, early := execC13X(c, k, cj, true)
			if decided && early != "" {
				again++
				why = early
			}
		}
		switch {
		case again == 3:
			c.Violate("gave-up-within-tolerance", why+" - in the batch and again in three solo re-runs ("+k.Note+")", cj)
		case again == 0:
			// happened once among dozens of scripts running at the same time and never
			// again alone: the machine, not the script (the handler compares two readings
			// of the wall clock; a goroutine that is not scheduled for longer than the
			// tolerance between them gives up rightly).  Counted, and limited below.
			notReproduced++
			c.Count("early_give_ups_not_reproduced_alone", 1)
		default:
			c.Inconclusive(fmt.Sprintf("the handler gave up early once on a tolerant script but only %d of 3 solo re-runs did: %s", again, k.Note))
		}
		c.Count("suspect_scripts_rerun_alone", 1)
	}
	if notReproduced > 3+len(cases)/200 {
		c.Inconclusive(fmt.Sprintf("%d of %d scripts made the handler give up early in the batch and never alone: too many to blame on the machine", notReproduced, len(cases)))
	}
}

func countEmpty(fl []string) int {
	n := 0
	for _, f := range fl {
		if f == "empty" {
			n++
		}
	}
	return n
}
