package main

import (
	"bytes"
	"encoding/json"
	"fmt"
	"log/slog"
	"strings"
	"sync"
	"sync/atomic"

	"github.com/goblimey/go-ntrip/rtcm/handler"
	"github.com/goblimey/go-ntrip/rtcm/type1005"
	"github.com/goblimey/go-ntrip/rtcm/type1006"

	"verifharness/child"
	"verifharness/gen"
	"verifharness/ref"
)

func init() {
	monitors["C05"] = monC05
	preludes["C05"] = func(c *child.Ctx) {
		// the very first 1005/1006 decodes of this process: eight goroutines, frames
		// prepared beforehand, released together (main.go then repeats this in fresh
		// processes: anything built lazily meets its first callers side by side)
		r := ref.NewRand(c.Seed*37 + uint64(c.Batch)*139 + 5)
		type job struct {
			b *ref.Base
			f []byte
		}
		var jobs [8][]job
		for g := range jobs {
			for len(jobs[g]) < 24 {
				t := 1005 + (g+len(jobs[g]))%2
				b := gen.RandBase(r, t)
				jobs[g] = append(jobs[g], job{b, ref.Frame(ref.EncodeBase(b, t))})
			}
		}
		start := make(chan struct{})
		var wg sync.WaitGroup
		var bad atomic.Value
		for g := range jobs {
			wg.Add(1)
			go func(g int) {
				defer wg.Done()
				<-start
				for _, j := range jobs[g] {
					var why string
					func() {
						defer func() {
							if x := recover(); x != nil {
								why = fmt.Sprintf("panic: %v", x)
							}
						}()
						f, text, err := decodeBaseDirect(j.b.Type, j.f, slog.LevelInfo)
						if err != nil {
							why = "well-formed message rejected: " + err.Error()
							return
						}
						if why = checkBaseFields(j.b, f); why == "" {
							why = checkBaseText(j.b, text)
						}
					}()
					if why != "" {
						cj, _ := json.Marshal(baseCase{B: j.b, TypeField: j.b.Type, Cut: -1})
						bad.Store([2]string{fmt.Sprintf("among the very first type %d decodes of a process, made by eight goroutines at the same time: %s", j.b.Type, why), string(cj)})
						return
					}
				}
			}(g)
		}
		close(start)
		wg.Wait()
		if v := bad.Load(); v != nil {
			c.Violate("field-mismatch", v.([2]string)[0], []byte(v.([2]string)[1]))
		}
		c.Count("processes_whose_first_decodes_were_side_by_side", 1)
	}
}

type baseCase struct {
	B         *ref.Base `json:"base"`
	TypeField int       `json:"type_field"` // number put in the 12-bit type field
	Cut       int       `json:"cut"`        // payload truncated to this many bytes (-1 = whole)
}

// fixed4 formats v * 0.0001 exactly, with pure integer arithmetic.
func fixed4(v int64) string {
	sign := ""
	a := v
	if v < 0 {
		sign = "-"
		a = -v
	}
	return fmt.Sprintf("%s%d.%04d", sign, a/10000, a%10000)
}

type baseFields struct {
	typ, station, itrf, i1, i2, i3, height uint
	x, y, z                                int64
}

func decodeBaseDirect(t int, frame []byte, lvl slog.Level) (*baseFields, string, error) {
	if t == 1005 {
		m, err := type1005.GetMessage(frame, lvl)
		if err != nil {
			return nil, "", err
		}
		if m == nil {
			return nil, "", fmt.Errorf("nil message without error")
		}
		return &baseFields{typ: m.MessageType, station: m.StationID, itrf: m.ITRFRealisationYear, i1: m.Ignored1, i2: m.Ignored2, i3: m.Ignored3,
			x: m.AntennaRefX, y: m.AntennaRefY, z: m.AntennaRefZ}, m.String(), nil
	}
	m, err := type1006.GetMessage(frame, lvl)
	if err != nil {
		return nil, "", err
	}
	if m == nil {
		return nil, "", fmt.Errorf("nil message without error")
	}
	return &baseFields{typ: m.MessageType, station: m.StationID, itrf: m.ITRFRealisationYear, i1: m.Ignored1, i2: m.Ignored2, i3: m.Ignored3,
		x: m.AntennaRefX, y: m.AntennaRefY, z: m.AntennaRefZ, height: m.AntennaHeight}, m.String(), nil
}

func checkBaseFields(b *ref.Base, f *baseFields) string {
	switch {
	case int(f.typ) != b.Type:
		return fmt.Sprintf("MessageType %d, encoded %d", f.typ, b.Type)
	case f.station != b.StationID:
		return fmt.Sprintf("StationID %d, encoded %d", f.station, b.StationID)
	case f.itrf != b.ITRF:
		return fmt.Sprintf("ITRFRealisationYear %d, encoded %d", f.itrf, b.ITRF)
	case f.i1 != b.Ign1 || f.i2 != b.Ign2 || f.i3 != b.Ign3:
		return fmt.Sprintf("reserved groups %d/%d/%d, encoded %d/%d/%d", f.i1, f.i2, f.i3, b.Ign1, b.Ign2, b.Ign3)
	case f.x != b.X:
		return fmt.Sprintf("AntennaRefX %d, encoded %d", f.x, b.X)
	case f.y != b.Y:
		return fmt.Sprintf("AntennaRefY %d, encoded %d", f.y, b.Y)
	case f.z != b.Z:
		return fmt.Sprintf("AntennaRefZ %d, encoded %d", f.z, b.Z)
	case b.Type == 1006 && f.height != b.Height:
		return fmt.Sprintf("AntennaHeight %d, encoded %d", f.height, b.Height)
	}
	return ""
}

// checkBaseText checks the readable form: each coordinate and the height shown as
// exactly the encoded integer times 0.0001 m, to four decimals.
func checkBaseText(b *ref.Base, text string) string {
	want := fmt.Sprintf("ECEF coords in metres (%s, %s, %s)\n", fixed4(b.X), fixed4(b.Y), fixed4(b.Z))
	if !strings.Contains(text, want) {
		i := strings.Index(text, "ECEF coords")
		got := text
		if i >= 0 {
			got = text[i:]
			if j := strings.IndexByte(got, '\n'); j >= 0 {
				got = got[:j]
			}
		}
		return fmt.Sprintf("display shows %q, exact value is %q", got, strings.TrimSpace(want))
	}
	if b.Type == 1006 {
		wh := fmt.Sprintf("Antenna height %s metres\n", fixed4(int64(b.Height)))
		if !strings.Contains(text, wh) {
			i := strings.Index(text, "Antenna height")
			got := text
			if i >= 0 {
				got = text[i:]
				if j := strings.IndexByte(got, '\n'); j >= 0 {
					got = got[:j]
				}
			}
			return fmt.Sprintf("display shows %q, exact value is %q", got, strings.TrimSpace(wh))
		}
	}
	return ""
}

func execC05(c *child.Ctx, k baseCase, cj []byte) {
	b := k.B
	payload := ref.EncodeBase(b, k.TypeField)
	full := 19
	if b.Type == 1006 {
		full = 21
	}
	var frame []byte
	wantError := false
	switch {
	case k.Cut == 0:
		frame = []byte{0xD3, 0, 0, 0, 0, 0} // no payload at all
		cc := ref.CRC24Q(frame[:3])
		frame[3], frame[4], frame[5] = byte(cc>>16), byte(cc>>8), byte(cc)
		wantError = true
	case k.Cut > 0 && k.Cut < len(payload):
		frame = ref.Frame(payload[:k.Cut])
		wantError = k.Cut < full
	default:
		frame = ref.Frame(payload)
	}
	if k.TypeField != b.Type {
		wantError = true
	}
	for _, lvl := range []slog.Level{slog.LevelInfo, slog.LevelDebug, slog.LevelDebug - 4, slog.LevelWarn} {
		var f *baseFields
		var text string
		var err error
		panicked := ""
		func() {
			defer func() {
				if r := recover(); r != nil {
					panicked = fmt.Sprint(r)
				}
			}()
			f, text, err = decodeBaseDirect(b.Type, frame, lvl)
		}()
		if panicked != "" {
			c.Violate("panic", fmt.Sprintf("type %d decoder panicked: %s", b.Type, panicked), cj)
			return
		}
		if wantError {
			if err == nil {
				c.Violate("bad-message-accepted", fmt.Sprintf("type %d decoder accepted a message with type field %d and %d payload bytes (needs %d)", b.Type, k.TypeField, len(frame)-6, full), cj)
				return
			}
			c.Count("rejections_observed", 1)
			continue
		}
		if err != nil {
			c.Violate("well-formed-rejected", fmt.Sprintf("type %d decoder rejected a well-formed message: %v", b.Type, err), cj)
			return
		}
		if why := checkBaseFields(b, f); why != "" {
			c.Violate("field-mismatch", fmt.Sprintf("type %d decoder: %s", b.Type, why), cj)
			return
		}
		if why := checkBaseText(b, text); why != "" {
			c.Violate("display-not-exact", fmt.Sprintf("type %d String (level %v): %s", b.Type, lvl, why), cj)
			return
		}
		// the public path: single-frame decoding, then display
		if k.TypeField == b.Type && k.Cut != 0 {
			h := handler.New(fixedStart, lvl)
			var msg *handler.Message
			var disp string
			func() {
				defer func() {
					if r := recover(); r != nil {
						panicked = fmt.Sprint(r)
					}
				}()
				msg, _ = h.GetMessage(frame)
				if msg != nil {
					disp = msg.String()
				}
			}()
			if panicked != "" {
				c.Violate("panic", "handler path panicked: "+panicked, cj)
				return
			}
			if msg == nil || msg.MessageType != b.Type {
				c.Violate("well-formed-rejected", fmt.Sprintf("handler.GetMessage did not return a type %d message for a well-formed frame", b.Type), cj)
				return
			}
			if why := checkBaseText(b, disp); why != "" {
				c.Violate("display-not-exact", fmt.Sprintf("Message.String (level %v): %s", lvl, why), cj)
				return
			}
			c.Count("displays_checked", 1)
		}
		c.Count("decodes_compared", 1)
	}
}

type rawBaseCase struct {
	Type int    `json:"type"`
	Raw  string `json:"raw_frame_prefix"`
}

// execC05Raw hands a truncated raw frame to the 1005/1006 decoder: it must be
// rejected with an error.
func execC05Raw(c *child.Ctx, t int, raw []byte) {
	cj, _ := json.Marshal(rawBaseCase{Type: t, Raw: hexs(raw)})
	for _, lvl := range []slog.Level{slog.LevelInfo, slog.LevelDebug} {
		var err error
		panicked := ""
		func() {
			defer func() {
				if r := recover(); r != nil {
					panicked = fmt.Sprint(r)
				}
			}()
			_, _, err = decodeBaseDirect(t, raw, lvl)
		}()
		if panicked != "" {
			c.Violate("panic", fmt.Sprintf("type %d decoder panicked on the first %d bytes of a frame: %s", t, len(raw), panicked), cj)
			return
		}
		if err == nil {
			c.Violate("bad-message-accepted", fmt.Sprintf("type %d decoder accepted the first %d bytes of a frame", t, len(raw)), cj)
			return
		}
		c.Count("rejections_observed", 1)
	}
}

func monC05(c *child.Ctx, replay json.RawMessage) {
	if replay != nil && hasKey(replay, "frames_back_to_back_in_one_buffer") {
		var kc struct {
			Buf string `json:"frames_back_to_back_in_one_buffer"`
		}
		json.Unmarshal(replay, &kc)
		c.Begin(replay)
		buf := unhex(kc.Buf)
		whole := append([]byte(nil), buf...)
		for off := 0; off+6 <= len(buf) && buf[off] == 0xd3; {
			n := int(buf[off+1]&3)<<8 | int(buf[off+2])
			if off+n+6 > len(buf) {
				break
			}
			t := ref.TypeOf(whole[off : off+n+6])
			var e1, e2 error
			func() {
				defer func() { recover() }()
				_, _, e1 = decodeBaseDirect(t, buf[off:off+n+6], slog.LevelInfo)
				_, _, e2 = decodeBaseDirect(t, append([]byte(nil), whole[off:off+n+6]...), slog.LevelInfo)
			}()
			if (e1 == nil) != (e2 == nil) || !bytes.Equal(buf, whole) {
				c.Violate("field-mismatch", fmt.Sprintf("the frame at offset %d decodes differently from a sub-slice of the buffer than from a slice of its own, or decoding changed the buffer: %s", off, firstDiff(buf, whole)), replay)
				break
			}
			off += n + 6
		}
		c.Eval(1, true)
		return
	}
	if replay != nil {
		if hasKey(replay, "raw_frame_prefix") {
			var rk rawBaseCase
			json.Unmarshal(replay, &rk)
			c.Begin(replay)
			execC05Raw(c, rk.Type, unhex(rk.Raw))
			c.Eval(1, true)
			return
		}
		var k baseCase
		json.Unmarshal(replay, &k)
		c.Begin(replay)
		execC05(c, k, replay)
		c.Eval(1, true)
		return
	}
	r := ref.NewRand(c.Seed*256203221 + uint64(c.Batch)*275604541 + 5)
	run := func(k baseCase, nontriv bool) {
		cj := c.BeginV(k)
		execC05(c, k, cj)
		c.Eval(ref.Hash64(cj), nontriv)
		if c.WantSample() && nontriv && k.Cut < 0 {
			c.Sample(k)
		}
	}
	// boundary coordinates on every axis, both types (batch 0 only: it is a fixed list)
	if c.Batch == 0 {
		bc := gen.BoundaryCoords()
		for _, t := range []int{1005, 1006} {
			for axis := 0; axis < 3; axis++ {
				for _, v := range bc {
					b := gen.RandBase(r, t)
					switch axis {
					case 0:
						b.X = v
					case 1:
						b.Y = v
					default:
						b.Z = v
					}
					run(baseCase{B: b, TypeField: t, Cut: -1}, true)
				}
			}
			for _, hgt := range []uint{0, 1, 9, 10, 11, 99, 100, 101, 999, 1000, 1001, 9999, 10000, 10001, 32767, 32768, 65534, 65535} {
				b := gen.RandBase(r, 1006)
				b.Height = hgt
				run(baseCase{B: b, TypeField: 1006, Cut: -1}, true)
			}
			// sparse messages: every subset of the nine fields zero, the others at an
			// extreme - what an unconfigured receiver, a test signal or a station at the
			// origin sends; with nothing, zeros and ones behind the fields
			for sub := 0; sub < 512; sub++ {
				for ext := 0; ext < 3; ext++ {
					b := &ref.Base{Type: t}
					pick := func(bit int, lo, hi int64) int64 {
						if sub>>uint(bit)&1 == 0 {
							return 0
						}
						switch ext {
						case 0:
							return hi
						case 1:
							return lo
						}
						return 1
					}
					b.StationID = uint(pick(0, 256, 4095))
					if ext == 1 && sub&1 == 1 {
						b.StationID = []uint{256, 512, 3840, 1}[sub>>1%4]
					}
					b.ITRF = uint(pick(1, 32, 63))
					b.Ign1 = uint(pick(2, 8, 15))
					b.X = pick(3, -(1 << 37), 1<<37-1)
					b.Ign2 = uint(pick(4, 2, 3))
					b.Y = pick(5, -(1 << 37), 1<<37-1)
					b.Ign3 = uint(pick(6, 2, 3))
					b.Z = pick(7, -(1 << 37), 1<<37-1)
					b.Height = uint(pick(8, 32768, 65535))
					switch (sub + ext) % 3 {
					case 1:
						b.Trailing = make([]byte, 1+sub%7)
					case 2:
						b.Trailing = bytes.Repeat([]byte{0xff}, 1+sub%5)
					}
					run(baseCase{B: b, TypeField: t, Cut: -1}, true)
					c.Count("sparse_messages", 1)
				}
			}
			// every truncation length 0..full-1 must be an error, never a panic
			b := gen.RandBase(r, t)
			b.Trailing = nil
			full := len(ref.EncodeBase(b, t))
			for cut := 0; cut < full; cut++ {
				run(baseCase{B: b, TypeField: t, Cut: cut}, true)
			}
			c.Count("truncation_lengths_swept", int64(full))
			// the decoders are also handed the raw frame cut at EVERY byte, including
			// slices shorter than the leader and CRC: always an error, never a panic
			whole := ref.Frame(ref.EncodeBase(b, t))
			for n := 0; n < len(whole); n++ {
				execC05Raw(c, t, whole[:n])
				c.Eval(ref.Hash64(whole[:n], []byte{byte(t)}), true)
			}
			c.Count("raw_frame_truncations_swept", int64(len(whole)))
			// every other number in the type field must be an error
			for tf := 0; tf < 4096; tf++ {
				if tf == t {
					continue
				}
				run(baseCase{B: b, TypeField: tf, Cut: -1}, tf == 1005 || tf == 1006 || tf == t^1 || tf == t+16)
			}
			c.Count("wrong_type_fields_swept", 4095)
		}
	}
	// the enumerated part (boundary values, all truncation lengths, all wrong type
	// fields) is swept completely by batch 0; the other batches add random cases
	c.SetExhaustive(true)
	n := c.Share(c.Pick(400000, 10000000))
	for i := 0; i < n; i++ {
		t := 1005 + i%2
		b := gen.RandBase(r, t)
		if i%16 == 5 {
			// payloads with many trailing bytes, up to the 1023-byte limit, in particular
			// lengths just above 256, 512 and 768
			full := 19 + 2*(t-1005)
			var extra int
			switch r.Intn(4) {
			case 0:
				extra = 256*r.Range(1, 3) + r.Intn(24) - full
			case 1:
				extra = 1023 - full
			default:
				extra = r.Range(9, 1023-full)
			}
			b.Trailing = r.Bytes(extra)
			if r.Chance(1, 2) {
				b.Trailing = make([]byte, extra)
			}
		}
		run(baseCase{B: b, TypeField: t, Cut: -1}, b.X != 0 && b.Y != 0 && b.Z != 0)
	}
	// decoding successive frames from ONE reused buffer: each result must be that of
	// the bytes the buffer holds at the time
	nr := c.Share(c.Pick(20000, 400000))
	for _, t := range []int{1005, 1006} {
		buf := make([]byte, 0, 64)
		for i := 0; i < nr/2; i++ {
			b := gen.RandBase(r, t)
			b.Trailing = nil
			tf := t
			if i%7 == 3 {
				tf = []int{1005, 1006, 1007, 1004}[r.Intn(4)] // sometimes a frame the decoder must reject
			}
			frame := ref.Frame(ref.EncodeBase(b, tf))
			buf = append(buf[:0], frame...)
			k := baseCase{B: b, TypeField: tf, Cut: -1}
			cj, _ := json.Marshal(k)
			if i%256 == 0 {
				c.Begin(cj)
			}
			var f *baseFields
			var err error
			panicked := ""
			func() {
				defer func() {
					if rr := recover(); rr != nil {
						panicked = fmt.Sprint(rr)
					}
				}()
				f, _, err = decodeBaseDirect(t, buf, slog.LevelInfo)
			}()
			switch {
			case panicked != "":
				c.Violate("panic", "decoder panicked on a frame in a reused buffer: "+panicked, cj)
			case tf != t:
				if err == nil {
					c.Violate("bad-message-accepted", fmt.Sprintf("type %d decoder accepted a frame with type field %d (read from a buffer that held a valid frame before)", t, tf), cj)
				}
			case err != nil:
				c.Violate("well-formed-rejected", fmt.Sprintf("type %d decoder rejected a well-formed frame in a reused buffer: %v", t, err), cj)
			default:
				if why := checkBaseFields(b, f); why != "" {
					c.Violate("field-mismatch", fmt.Sprintf("type %d decoder, frame read from a reused buffer (stale result of the previous frame?): %s", t, why), cj)
				}
			}
			c.Count("reused_buffer_decodes", 1)
			c.EvalN(1)
			if c.NViolations() > 0 {
				break
			}
		}
	}
	// messages lying one behind the other in one read buffer, each decoded from its own
	// sub-slice (whose spare capacity is the rest of the buffer): the later ones still
	// decode, and the buffer is left as it was
	nb := c.Share(c.Pick(20000, 400000))
	for i := 0; i < nb && c.NViolations() == 0; i++ {
		var bs []*ref.Base
		var frames [][]byte
		var buf []byte
		for j := r.Range(2, 4); j > 0; j-- {
			t := 1005 + r.Intn(2)
			b := gen.RandBase(r, t)
			if r.Chance(2, 3) {
				b.Trailing = r.Bytes(r.Intn(3))
			}
			f := ref.Frame(ref.EncodeBase(b, t))
			bs = append(bs, b)
			frames = append(frames, f)
			buf = append(buf, f...)
		}
		buf = append(buf, r.Bytes(12)...)
		whole := append([]byte(nil), buf...)
		cj, _ := json.Marshal(map[string]interface{}{"frames_back_to_back_in_one_buffer": hexs(whole)})
		if i%256 == 0 {
			c.Begin(cj)
		}
		off := 0
		for j, f := range frames {
			sub := buf[off : off+len(f)]
			var fl *baseFields
			var err error
			panicked := ""
			func() {
				defer func() {
					if rr := recover(); rr != nil {
						panicked = fmt.Sprint(rr)
					}
				}()
				fl, _, err = decodeBaseDirect(bs[j].Type, sub, slog.LevelInfo)
			}()
			switch {
			case panicked != "":
				c.Violate("panic", "decoder panicked on a frame that is a sub-slice of a read buffer: "+panicked, cj)
			case err != nil:
				c.Violate("well-formed-rejected", fmt.Sprintf("frame %d of %d lying back to back in one buffer (type %d, decoded in order, each from its own sub-slice) is rejected: %v", j+1, len(frames), bs[j].Type, err), cj)
			default:
				if why := checkBaseFields(bs[j], fl); why != "" {
					c.Violate("field-mismatch", fmt.Sprintf("frame %d of %d lying back to back in one buffer: %s", j+1, len(frames), why), cj)
				}
			}
			if !bytes.Equal(buf, whole) {
				c.Violate("field-mismatch", fmt.Sprintf("decoding frame %d of %d (type %d) from a sub-slice of a buffer changed the buffer: %s", j+1, len(frames), bs[j].Type, firstDiff(buf, whole)), cj)
			}
			if c.NViolations() > 0 {
				break
			}
			off += len(f)
		}
		c.Count("frames_decoded_back_to_back", int64(len(frames)))
		c.EvalN(1)
	}
	// several goroutines displaying their own messages at the same time (the proxy's
	// sessions, the filter's display and report): each text is that of its own message
	{
		nd := c.Share(c.Pick(40000, 800000))
		var wg sync.WaitGroup
		var bad atomic.Value
		for g := 0; g < 4; g++ {
			wg.Add(1)
			go func(g int) {
				defer wg.Done()
				rr := ref.NewRand(r.Uint64() + uint64(g))
				for i := 0; i < nd/4 && bad.Load() == nil; i++ {
					t := 1005 + (i+g)%2
					b := gen.RandBase(rr, t)
					b.Trailing = nil
					_, text, err := decodeBaseDirect(t, ref.Frame(ref.EncodeBase(b, t)), slog.LevelInfo)
					if err != nil {
						continue
					}
					if why := checkBaseText(b, text); why != "" {
						cj, _ := json.Marshal(baseCase{B: b, TypeField: t, Cut: -1})
						bad.Store([2]string{fmt.Sprintf("type %d String while three other goroutines display their own messages: %s", t, why), string(cj)})
					}
					if i%64 == 0 {
						tick()
					}
				}
			}(g)
		}
		wg.Wait()
		if v := bad.Load(); v != nil {
			c.Violate("display-not-exact", v.([2]string)[0], []byte(v.([2]string)[1]))
		}
		c.Count("concurrent_displays_checked", int64(nd))
		c.EvalN(1)
	}
	// the same few stations displayed by eight goroutines in turn (a caster relaying one
	// base station to many clients: everybody displays the same two or three positions,
	// alternately, at the same moments) - each goroutine has its own decoded messages
	{
		rounds := c.Share(c.Pick(400, 8000))
		for round := 0; round < rounds && c.NViolations() == 0; round++ {
			t := 1005 + round%2
			var stations []*ref.Base
			var frames [][]byte
			for s := 0; s < 2+round%2; s++ {
				b := gen.RandBase(r, t)
				b.Trailing = nil
				stations = append(stations, b)
				frames = append(frames, ref.Frame(ref.EncodeBase(b, t)))
			}
			var wg sync.WaitGroup
			var bad atomic.Value
			start := make(chan struct{})
			for g := 0; g < 8; g++ {
				wg.Add(1)
				go func(g int) {
					defer wg.Done()
					defer func() {
						if x := recover(); x != nil {
							bad.Store([2]string{fmt.Sprintf("panic while the same stations were displayed side by side: %v", x), "null"})
						}
					}()
					<-start
					for i := 0; i < 60 && bad.Load() == nil; i++ {
						s := i % len(stations)
						f, text, err := decodeBaseDirect(t, frames[s], slog.LevelInfo)
						if err != nil {
							cj, _ := json.Marshal(baseCase{B: stations[s], TypeField: t, Cut: -1})
							bad.Store([2]string{fmt.Sprintf("type %d decoder rejected a well-formed message while seven other goroutines decode and display the same %d frames (from the same buffers): %v", t, len(stations), err), string(cj)})
							return
						}
						if why := checkBaseFields(stations[s], f); why != "" {
							cj, _ := json.Marshal(baseCase{B: stations[s], TypeField: t, Cut: -1})
							bad.Store([2]string{fmt.Sprintf("type %d decoder while seven other goroutines decode the same %d frames from the same buffers: %s", t, len(stations), why), string(cj)})
							return
						}
						if why := checkBaseText(stations[s], text); why != "" {
							cj, _ := json.Marshal(baseCase{B: stations[s], TypeField: t, Cut: -1})
							bad.Store([2]string{fmt.Sprintf("type %d String while seven other goroutines display the same %d stations in turn: %s", t, len(stations), why), string(cj)})
						}
					}
				}(g)
			}
			close(start)
			wg.Wait()
			if v := bad.Load(); v != nil {
				sig := "display-not-exact"
				if strings.Contains(v.([2]string)[0], "decoder") {
					sig = "field-mismatch"
				}
				c.Violate(sig, v.([2]string)[0], []byte(v.([2]string)[1]))
			}
			for s := range frames {
				if !bytes.Equal(frames[s], ref.Frame(ref.EncodeBase(stations[s], t))) {
					cj, _ := json.Marshal(baseCase{B: stations[s], TypeField: t, Cut: -1})
					c.Violate("field-mismatch", fmt.Sprintf("the caller's frame of a type %d message was changed by being decoded (eight goroutines reading the same buffer)", t), cj)
				}
			}
			c.Count("rounds_of_the_same_stations_displayed_side_by_side", 1)
			if round%16 == 0 {
				tick()
			}
		}
		c.EvalN(1)
	}
	// CRC twins: two different messages of one type and length whose frames carry the
	// same three CRC bytes (they differ by a multiple of the CRC's generator polynomial
	// in their last 25 bits), decoded alternately - the CRC identifies nothing
	{
		nt := c.Share(c.Pick(2000, 40000))
		for i := 0; i < nt && c.NViolations() == 0; i++ {
			t := 1005 + i%2
			a := gen.RandBase(r, t)
			a.Trailing = nil
			b := *a
			const generator = uint64(0x1864CFB)
			if t == 1005 {
				z := (uint64(a.Z) & (1<<38 - 1)) ^ generator
				b.Z = int64(z<<26) >> 26
			} else {
				tail := ((uint64(a.Z)&(1<<38-1))<<16 | uint64(a.Height)&0xffff) ^ generator
				b.Height = uint(tail & 0xffff)
				b.Z = int64((tail>>16)<<26) >> 26
			}
			fa, fb := ref.Frame(ref.EncodeBase(a, t)), ref.Frame(ref.EncodeBase(&b, t))
			if !bytes.Equal(fa[len(fa)-3:], fb[len(fb)-3:]) || bytes.Equal(fa, fb) {
				c.Count("crc_twin_construction_failed", 1)
				continue
			}
			for rep := 0; rep < 2; rep++ {
				run(baseCase{B: a, TypeField: t, Cut: -1}, true)
				run(baseCase{B: &b, TypeField: t, Cut: -1}, true)
			}
			// and directly one after the other at one log level
			for _, lvl := range []slog.Level{slog.LevelInfo, slog.LevelDebug} {
				for rep := 0; rep < 3; rep++ {
					for wi, want := range []*ref.Base{a, &b} {
						f, text, err := decodeBaseDirect(t, [][]byte{fa, fb}[wi], lvl)
						why := ""
						if err != nil {
							why = "well-formed message rejected: " + err.Error()
						} else if why = checkBaseFields(want, f); why == "" {
							why = checkBaseText(want, text)
						}
						if why != "" {
							cj, _ := json.Marshal(baseCase{B: want, TypeField: t, Cut: -1})
							c.Violate("field-mismatch", fmt.Sprintf("type %d message decoded straight after a different message of the same length whose frame has the same CRC: %s", t, why), cj)
							break
						}
					}
				}
			}
			c.Count("crc_twin_pairs_decoded_alternately", 1)
		}
	}
	// results that are kept: a decoded message must not change when later messages are
	// decoded (the caller - the proxy's report queue, a display goroutine - still holds it)
	nk := c.Share(c.Pick(20000, 400000))
	type kept struct {
		b    *ref.Base
		get  func() *baseFields
		text func() string
		cj   []byte
	}
	var ring []kept
	for i := 0; i < nk && c.NViolations() == 0; i++ {
		t := 1005 + r.Intn(2)
		b := gen.RandBase(r, t)
		if r.Chance(3, 4) {
			b.Trailing = nil
		}
		frame := ref.Frame(ref.EncodeBase(b, t))
		kc := baseCase{B: b, TypeField: t, Cut: -1}
		cj, _ := json.Marshal(kc)
		if i%256 == 0 {
			c.Begin(cj)
		}
		var kp kept
		panicked := ""
		func() {
			defer func() {
				if rr := recover(); rr != nil {
					panicked = fmt.Sprint(rr)
				}
			}()
			if t == 1005 {
				m, err := type1005.GetMessage(frame, slog.LevelInfo)
				if err != nil || m == nil {
					panicked = fmt.Sprintf("well-formed 1005 rejected: %v", err)
					return
				}
				kp = kept{b: b, cj: cj, text: m.String, get: func() *baseFields {
					return &baseFields{typ: m.MessageType, station: m.StationID, itrf: m.ITRFRealisationYear, i1: m.Ignored1, i2: m.Ignored2, i3: m.Ignored3, x: m.AntennaRefX, y: m.AntennaRefY, z: m.AntennaRefZ}
				}}
			} else {
				m, err := type1006.GetMessage(frame, slog.LevelInfo)
				if err != nil || m == nil {
					panicked = fmt.Sprintf("well-formed 1006 rejected: %v", err)
					return
				}
				kp = kept{b: b, cj: cj, text: m.String, get: func() *baseFields {
					return &baseFields{typ: m.MessageType, station: m.StationID, itrf: m.ITRFRealisationYear, i1: m.Ignored1, i2: m.Ignored2, i3: m.Ignored3, x: m.AntennaRefX, y: m.AntennaRefY, z: m.AntennaRefZ, height: m.AntennaHeight}
				}}
			}
		}()
		if panicked != "" {
			c.Violate("well-formed-rejected", panicked, cj)
			break
		}
		ring = append(ring, kp)
		if len(ring) > 4 {
			ring = ring[1:]
		}
		for age, old := range ring {
			if why := checkBaseFields(old.b, old.get()); why != "" {
				c.Violate("field-mismatch", fmt.Sprintf("a type %d message decoded %d decodes ago and kept by the caller has changed: %s", old.b.Type, len(ring)-1-age, why), old.cj)
				break
			}
			if i%8 == 0 {
				if why := checkBaseText(old.b, old.text()); why != "" {
					c.Violate("display-not-exact", fmt.Sprintf("a type %d message decoded %d decodes ago and kept by the caller displays differently now: %s", old.b.Type, len(ring)-1-age, why), old.cj)
					break
				}
			}
		}
		c.Count("kept_results_rechecked", int64(len(ring)))
		c.EvalN(1)
	}
}

func hasKey(raw json.RawMessage, key string) bool {
	var m map[string]json.RawMessage
	if json.Unmarshal(raw, &m) != nil {
		return false
	}
	_, ok := m[key]
	return ok
}
