package main

import (
	"bytes"
	"encoding/json"
	"fmt"
	"os"
	"path/filepath"
	"strings"
	"time"

	"verifharness/child"
	"verifharness/gen"
	"verifharness/ref"
)

func init() { monitors["C16"] = monC16 }

type loggerCase struct {
	ID      int    `json:"id"`
	Size    int    `json:"size"`
	Content string `json:"content"` // random | zeros | text
	Seed    uint64 `json:"seed"`
	Stdin   string `json:"stdin_mode"` // file | pipe | pipe-close-at-once
	// sizes of the writes to the program's standard input, in turn (overrides Chunk)
	ChunkPattern []int `json:"chunk_pattern,omitempty"`
	// the reader of the program's standard output stops reading once for this long
	// after its first 4096 bytes (a downstream program that is busy for a while)
	StdoutPauseMs int    `json:"stdout_reader_pauses_ms,omitempty"`
	Chunk         int    `json:"chunk"`
	GapUs         int    `json:"gap_us"`
	Hook          string `json:"hook_profile"`
	Procs         int    `json:"gomaxprocs"`
	LogEvents     bool   `json:"log_events"`
	NoEventDir    bool   `json:"no_event_log_directory,omitempty"`
	NoOldDir      bool   `json:"no_directory_for_old_logs,omitempty"`
	TZ            string `json:"tz,omitempty"` // time zone of the process
	// the local time of day at which the process starts ("hh:mm:ss"): realised at run time
	// by a zone file whose offset is the difference from the machine's clock
	LocalClock string `json:"local_time_of_day_at_start,omitempty"`
	// the input pauses for SilenceMs after SilenceAfterChunks chunks
	SilenceAfterChunks int `json:"silence_after_chunks,omitempty"`
	SilenceMs          int `json:"silence_ms,omitempty"`
	// the standard input is a pipe in non-blocking mode
	StdinNonblock bool `json:"stdin_nonblocking,omitempty"`
	// the configured record directory is written as <dir>/link/../record, where link is
	// a symbolic link into another directory: the operating system's meaning of the
	// path, <dir>/elsewhere/record, is where the record belongs
	SymlinkDir bool `json:"record_directory_behind_symlink,omitempty"`
	// the configured record directory lies two or three levels below anything that
	// exists yet (a fresh machine, the shipped "./logs/rtcm")
	DeepDir bool `json:"record_directory_several_new_levels,omitempty"`
	// the record directory already holds the records and event logs of twenty earlier
	// days (named for dates in 1999)
	History bool `json:"record_directory_has_history,omitempty"`
	// the event log directory is the same directory as the record's
	SameDirs bool `json:"event_log_in_the_record_directory,omitempty"`
	// the first write to the input has this many bytes (the first read gets exactly them)
	FirstChunk int `json:"first_chunk,omitempty"`
}

// allParked: in a goroutine dump taken after SIGQUIT, is every goroutine that
// executes code of the program (not only the runtime's own) blocked on a channel, a
// select or a lock?  Then nothing can ever complete the run.
func allParked(dump, pathMarker string) bool {
	i := strings.LastIndex(dump, "SIGQUIT")
	if i >= 0 {
		dump = dump[i:]
	}
	found := 0
	for _, g := range strings.Split(dump, "\n\n") {
		if !strings.Contains(g, pathMarker) {
			continue
		}
		hdr := g
		if j := strings.IndexByte(g, '\n'); j >= 0 {
			hdr = g[:j]
		}
		if !strings.HasPrefix(hdr, "goroutine ") {
			continue
		}
		found++
		parked := false
		for _, st := range []string{"chan send", "chan receive", "select", "sync.", "semacquire"} {
			if strings.Contains(hdr, st) {
				parked = true
			}
		}
		if !parked {
			return false
		}
	}
	return found > 0
}

func loggerInput(k loggerCase) []byte {
	r := ref.NewRand(k.Seed)
	switch k.Content {
	case "zeros":
		return make([]byte, k.Size)
	case "frames":
		var b []byte
		for len(b) < k.Size {
			b = append(b, gen.RandFrame(r).Bytes...)
		}
		return b[:k.Size]
	case "lines":
		// complete lines of plain text ending in a line feed (what can be typed or
		// pasted into a terminal in its default mode without being rewritten by it)
		var b []byte
		for n := 0; len(b) < k.Size; n++ {
			b = append(b, fmt.Sprintf("$GNGLL,5321.68%02d,N,00630.33%02d,W,0927%02d.000,A,A*%02X\n", r.Intn(100), r.Intn(100), n%60, r.Intn(256))...)
		}
		return b
	case "crlf-binary":
		// binary data in which CR LF, LF, NUL NUL and the like turn up at the places where
		// the chunk pattern cuts
		b := r.Bytes(k.Size)
		for i := 0; i+1 < len(b); i += 1 + int(b[i]%13) {
			copy(b[i:], [][]byte{{'\r', '\n'}, {'\n', '\n'}, {0, 0}, {'\r', '\r'}}[int(b[i])%4])
		}
		if len(k.ChunkPattern) == 5 {
			// make the two-byte pieces of the pattern CR LF
			off := 0
			for n := 0; off < len(b); n++ {
				sz := k.ChunkPattern[n%5]
				if sz == 2 && off+2 <= len(b) {
					b[off], b[off+1] = '\r', '\n'
				}
				off += sz
			}
		}
		return b
	case "text":
		b := make([]byte, k.Size)
		for i := range b {
			b[i] = "$GPGGA,123519,4807.038,N\r\n"[i%26]
		}
		return b
	}
	return r.Bytes(k.Size)
}

func execC16(c *child.Ctx, k loggerCase, cj []byte) {
	in := loggerInput(k)
	dir := filepath.Join(c.WorkDir, fmt.Sprintf("logger%d", k.ID))
	os.MkdirAll(dir, 0755)
	defer os.RemoveAll(dir)
	logDir := filepath.Join(dir, "record")
	recRel := "record"
	if k.DeepDir && !k.SymlinkDir {
		logDir = filepath.Join(dir, "logs", "rtcm", "station7")
		recRel = filepath.Join("logs", "rtcm", "station7")
	}
	if k.SymlinkDir {
		os.MkdirAll(filepath.Join(dir, "elsewhere", "sub"), 0755)
		os.Symlink(filepath.Join(dir, "elsewhere", "sub"), filepath.Join(dir, "link"))
		logDir = dir + "/link/../record" // not filepath.Join: it would clean the path
		recRel = filepath.Join("elsewhere", "record")
	}
	cfgText := fmt.Sprintf(`{"log_events": %v, "message_log_directory": %q`, k.LogEvents, logDir)
	if !k.NoOldDir {
		cfgText += fmt.Sprintf(`, "directory_for_old_message_logs": %q`, filepath.Join(dir, "old"))
	}
	if k.SameDirs {
		cfgText += fmt.Sprintf(`, "event_log_directory": %q`, logDir)
	} else if !k.NoEventDir {
		cfgText += fmt.Sprintf(`, "event_log_directory": %q`, filepath.Join(dir, "events"))
	}
	switch k.ID % 5 {
	case 1:
		// the settings of the configuration file that ships with the program
		// (apps/rtcmlogger/rtcmlogger.json), two of which rtcmlogger itself does not use
		cfgText += `, "display_messages": true, "record_messages": true`
	case 3:
		cfgText += `, "comment": "station 7, roof", "caster_host_name": "caster.example", "caster_port": 2101, "input": ["/dev/ttyACM0"], "timeout_on_EOF_milliseconds": 500`
	}
	os.WriteFile(filepath.Join(dir, "cfg.json"), []byte(cfgText+"}"), 0644)
	if k.History && !k.SymlinkDir {
		os.MkdirAll(logDir, 0755)
		for d := 1; d <= 20; d++ {
			os.WriteFile(filepath.Join(logDir, fmt.Sprintf("rtcmlogger.1999-01-%02d.rtcm", d)), []byte("old record\n"), 0644)
			os.WriteFile(filepath.Join(logDir, fmt.Sprintf("rtcmlogger.1999-01-%02d.log", d)), []byte("old events\n"), 0644)
		}
	}
	var extraEnv []string
	if strings.HasPrefix(k.TZ, "fixed") {
		// a zone file with a fixed offset of up to +-23 h: relative to the UTC date the
		// process then sees the local date it would see in an ordinary zone at another
		// time of day
		var hours int
		fmt.Sscanf(k.TZ, "fixed%d", &hours)
		zf := filepath.Join(dir, "zone.tzif")
		fixedZoneFile(zf, hours*3600)
		extraEnv = append(extraEnv, "TZ="+zf)
	} else if k.LocalClock != "" {
		var hh, mm, ss int
		fmt.Sscanf(k.LocalClock, "%d:%d:%d", &hh, &mm, &ss)
		now := time.Now().UTC()
		off := (hh*3600 + mm*60 + ss) - (now.Hour()*3600 + now.Minute()*60 + now.Second())
		if off > 43200 {
			off -= 86400
		}
		if off < -43200 {
			off += 86400
		}
		zf := filepath.Join(dir, "zone.tzif")
		fixedZoneFile(zf, off)
		extraEnv = append(extraEnv, "TZ="+zf)
	} else if k.TZ != "" {
		extraEnv = append(extraEnv, "TZ="+k.TZ)
	}
	ak := appCase{ID: k.ID, StdinMode: "pipe", StdoutMode: "fast", Chunk: k.Chunk, ReaderUs: k.GapUs, Procs: k.Procs, HookProfile: k.Hook,
		SilenceAfterChunks: k.SilenceAfterChunks, SilenceMs: k.SilenceMs, StdinNonblock: k.StdinNonblock, FirstChunk: k.FirstChunk, ChunkPattern: k.ChunkPattern, StdoutPauseMs: k.StdoutPauseMs, StdoutPauseAfter: 4096}
	if k.Stdin == "file" || k.Stdin == "devnull" || k.Stdin == "pty" {
		ak.StdinMode = k.Stdin
	}
	if k.Stdin == "pipe-close-at-once" {
		ak.Chunk = len(in) + 1
		ak.ReaderUs = 0
	}
	res := runAppProcess(c, filepath.Join(c.BinDir, "rtcmlogger"), []string{"-c", filepath.Join(dir, "cfg.json")}, in, ak, dir, extraEnv)
	if k.Stdin == "pty" && res.ExitCode == -2 {
		c.Count("pseudo_terminal_not_available", 1)
		return
	}
	if k.Stdin == "devnull" || k.Stdin == "pty" {
		c.Count("runs_with_input_from_a_character_device", 1)
	}
	switch {
	case res.StdinRefused:
		c.Violate("pass-through-differs", fmt.Sprintf("rtcmlogger closed its standard input after %d of %d bytes while it kept running; %d bytes had been passed through (log_events %v)\n%s",
			res.StdinRefusedAfter, len(in), len(res.Stdout), k.LogEvents, clipText(res.Stderr)), cj)
		return
	case res.TimedOut:
		if allParked(res.Stderr, "/apps/rtcmlogger/") {
			c.Violate("did-not-end", fmt.Sprintf("rtcmlogger had not ended 90 s after its whole input (%d bytes) was written and closed, and every goroutine of the program is blocked: it passed %d bytes through (%s)\n%s",
				len(in), len(res.Stdout), firstDiff(res.Stdout, in), clipText(res.Stderr)), cj)
			return
		}
		if res.AcceptedAMinuteBeforeTheEnd > len(res.Stdout) {
			c.Violate("pass-through-withheld", fmt.Sprintf("rtcmlogger was still running (not blocked) when the run was ended; its standard input had accepted %d bytes more than a minute earlier and only %d bytes had been passed through (input %d bytes, silence of %d ms after %d chunks, non-blocking stdin %v)\n%s",
				res.AcceptedAMinuteBeforeTheEnd, len(res.Stdout), len(in), k.SilenceMs, k.SilenceAfterChunks, k.StdinNonblock, clipText(res.Stderr)), cj)
			return
		}
		if res.InputEndedAMinuteBeforeTheEnd {
			c.Violate("did-not-end", fmt.Sprintf("rtcmlogger was still running (not blocked) more than a minute after it had been given the whole of its input (%d bytes, stdin %s) and the end of it; it had passed %d bytes through\n%s",
				len(in), k.Stdin, len(res.Stdout), clipText(res.Stderr)), cj)
			return
		}
		c.Inconclusive("rtcmlogger did not exit within 90 s")
		return
	case res.ExitCode != 0:
		sig := "crash"
		if strings.Contains(res.Stderr, "WARNING: DATA RACE") {
			sig = "data-race"
		}
		c.Violate(sig, fmt.Sprintf("rtcmlogger exited with status %d:\n%s", res.ExitCode, clipText(res.Stderr)), cj)
		return
	}
	if k.SilenceMs >= 10000 && res.OutAtSilenceEnd < res.InBeforeSilence {
		// "never ... delays indefinitely ... the pass-through": what had been read before
		// the source fell silent must not wait for the source to speak again
		c.Violate("pass-through-withheld", fmt.Sprintf("%d bytes were written to rtcmlogger's standard input (in chunks of %d) and then nothing for %d ms: at the end of the silence only %d of them had been passed through",
			res.InBeforeSilence, k.Chunk, k.SilenceMs, res.OutAtSilenceEnd), cj)
		return
	}
	if !bytes.Equal(res.Stdout, in) {
		c.Violate("pass-through-differs", fmt.Sprintf("rtcmlogger wrote %d bytes to its standard output for %d bytes of input: %s", len(res.Stdout), len(in), firstDiff(res.Stdout, in)), cj)
		return
	}
	// the record must be in the configured directory itself
	inLogDir := map[string][]byte{}
	for name, b := range res.Files {
		if filepath.Dir(name) == recRel && !strings.HasPrefix(filepath.Base(name), "rtcmlogger.1999-") {
			inLogDir[name] = b
		}
	}
	rec, nfiles := concatFiles(inLogDir, "rtcmlogger.", ".rtcm")
	if !bytes.Equal(rec, in) {
		where := ""
		if k.SymlinkDir {
			where = fmt.Sprintf(" in the configured directory %s (which the operating system resolves to %s)", logDir, filepath.Join(dir, recRel))
		}
		c.Violate("record-differs", fmt.Sprintf("after the program ended the day's record file(s) (%d)%s hold %d bytes for %d bytes of input: %s (stdin %s, hook %q)", nfiles, where, len(rec), len(in), firstDiff(rec, in), k.Stdin, k.Hook), cj)
		return
	}
	c.Count("processes_checked", 1)
	c.Count("bytes_passed_through", int64(len(in)))
}

func monC16(c *child.Ctx, replay json.RawMessage) {
	if replay != nil {
		var k loggerCase
		json.Unmarshal(replay, &k)
		c.Begin(replay)
		for i := 0; i < 40 && c.NViolations() == 0; i++ {
			k.ID = 900000 + i
			execC16(c, k, replay)
		}
		c.Eval(1, true)
		return
	}
	r := ref.NewRand(c.Seed*654188429 + uint64(c.Batch)*674506081 + 16)
	sizes := []int{0, 1, 2, 100, 5000, 8095, 8096, 8097, 2*8096 - 1, 2 * 8096, 2*8096 + 1, 3*8096 + 1, 40000, 100000}
	// a delay before the recorder's write (the optional hook named by the property)
	// widens the window between the last block being handed over and the process exiting
	hooks := []string{"", "", "@apps/rtcmlogger/main:recorder:write=20000", "@apps/rtcmlogger/main:writeRTCMLog:write=5000", "@apps/rtcmlogger/main:recorder:recv=3000", "y300x3"}
	n := c.Share(c.Pick(400, 8000))
	for i := 0; i < n; i++ {
		k := loggerCase{ID: c.Batch*100000 + i, Seed: r.Uint64() >> 1, Content: []string{"random", "random", "zeros", "text"}[r.Intn(4)],
			Stdin: []string{"file", "pipe", "pipe", "pipe-close-at-once"}[r.Intn(4)], Chunk: []int{0, 1000, 8096, 100}[r.Intn(4)], GapUs: []int{0, 300, 3000}[r.Intn(3)],
			Hook: hooks[r.Intn(len(hooks))], Procs: []int{1, 2, 16}[r.Intn(3)], LogEvents: r.Chance(1, 3), NoEventDir: r.Chance(1, 3), NoOldDir: r.Chance(1, 2),
			// zones in which the local date is behind, equal to or ahead of the UTC date right now
			TZ: []string{"", "", "UTC", "Etc/GMT+12", "Etc/GMT+8", "Etc/GMT-10", "Etc/GMT-14", "America/New_York", "Asia/Tokyo", "fixed-23", "fixed-18", "fixed-9", "fixed23", "fixed15"}[r.Intn(14)]}
		if i < len(sizes) {
			k.Size = sizes[i]
		} else if c.Thorough() && r.Chance(1, 40) {
			k.Size = r.Range(200000, 2000000)
		} else {
			k.Size = sizes[r.Intn(len(sizes))] + r.Intn(3)
		}
		if k.Chunk == 100 && k.Size > 20000 {
			k.Chunk = 1000
		}
		if i%50 == 33 {
			// hundreds of small reads while the recorder lags behind: nothing may be dropped
			k.Hook = "@apps/rtcmlogger/main:writeRTCMLog:write=4000"
			k.Size = r.Range(30000, 50000)
			k.Stdin, k.Chunk, k.GapUs = "pipe", r.Range(90, 160), -250 // every chunk arrives on its own
		}
		if i%50 == 17 {
			// a filestore that takes more than a second over the last write: "recording
			// never ... truncates the record" has no time limit
			k.Hook = "@apps/rtcmlogger/main:writeRTCMLog:write=1300000"
			k.Size = r.Range(1, 8000)
			k.Stdin = "pipe-close-at-once"
		}
		if i%7 == 3 {
			// the time of day on the machine: start of an hour, just after midnight, just
			// before the end of an hour, ... (never within the last minute of a day: the
			// record of a run that crosses midnight is split over two days by design)
			hh := r.Intn(24)
			k.LocalClock = []string{fmt.Sprintf("%02d:00:00", hh), fmt.Sprintf("%02d:00:02", hh), "00:00:01", fmt.Sprintf("%02d:59:58", r.Intn(23)), fmt.Sprintf("%02d:30:00", hh), "23:58:30"}[r.Intn(6)]
			k.TZ = ""
			c.Count("runs_at_chosen_time_of_day", 1)
		}
		if sb := c.NBatch - 1 - c.Batch; i == 1 && (sb < len(timedStalls(c)) || sb == len(timedStalls(c)) && !c.Thorough()) {
			// a live source that falls silent for a while and then carries on
			k.Stdin, k.Size, k.Chunk, k.GapUs, k.Hook = "pipe", r.Range(9000, 30000), 3000, -2000, ""
			k.SilenceAfterChunks = r.Range(1, 2)
			if sb == len(timedStalls(c)) {
				// one run of the quick tier lasts longer than a minute
				k.SilenceMs = 65500
			} else {
				k.SilenceMs = int(timedStalls(c)[sb].Milliseconds())
			}
			if k.SilenceMs >= 1000 && k.SilenceMs < 60000 {
				k.SilenceMs = k.SilenceMs*10 + 500 // 12.5 s; thorough: up to 105 s
			}
			if sb%2 == 1 {
				// whole blocks: what is read before the silence is exactly 1..7 times the
				// program's 8096-byte block
				k.Chunk = 8096 * r.Range(1, 3)
				k.Size = k.Chunk*k.SilenceAfterChunks + r.Range(1, 9000)
				k.GapUs = -20000
			}
			// the event log is on in the longest of these and in every other one (whatever
			// a running program logs once a minute or once an hour, the record stays the copy)
			k.LogEvents = sb%2 == 0 || k.SilenceMs > 60000
			if k.LogEvents {
				k.NoEventDir = false
				c.Count("runs_with_silent_input_and_event_log", 1)
			}
			c.Count("runs_with_silent_input", 1)
		}
		k.StdinNonblock = k.Stdin != "file" && (i%3 == 1 || k.SilenceMs > 0)
		if i%7 == 5 {
			k.DeepDir = true
			c.Count("runs_with_record_directory_several_new_levels_deep", 1)
		}
		if i%9 == 4 {
			k.SymlinkDir = true
			c.Count("runs_with_record_directory_behind_a_symlink", 1)
		}
		if i%11 == 6 || i%11 == 2 {
			k.History = true
			c.Count("runs_with_a_record_directory_that_has_history", 1)
		}
		if i%11 == 6 {
			// the event log shares the record's directory
			k.LogEvents, k.SameDirs, k.NoEventDir = true, true, false
			c.Count("runs_with_event_log_in_the_record_directory", 1)
		}
		if i%5 == 1 && k.Stdin != "file" && k.SilenceMs == 0 && k.Size >= 8 {
			// a stream that begins with a frame, its first few bytes arriving on their own
			k.Content, k.Stdin, k.FirstChunk = "frames", "pipe", 1+i/5%8
			c.Count("runs_with_a_tiny_first_read", 1)
		}
		if i%17 == 11 && k.SilenceMs == 0 {
			// text whose line ends arrive in reads of their own (a feeder that writes the
			// sentence and the CR LF separately; a keep-alive of bare line ends), and binary
			// data cut so that two-byte and one-byte pieces arrive alone
			k.Stdin, k.Content, k.Size, k.Hook, k.FirstChunk = "pipe", "text", 26*r.Range(3, 40), "", 0
			k.ChunkPattern, k.GapUs = []int{24, 2}, -2500
			if r.Chance(1, 3) {
				k.Content, k.ChunkPattern = "crlf-binary", []int{r.Range(5, 60), 2, 1, r.Range(1, 9), 2}
			}
			c.Count("runs_with_line_ends_arriving_on_their_own", 1)
		}
		if i == 12 && c.Batch%4 == 0 {
			// downstream is busy for a few seconds while hundreds of kilobytes arrive: the
			// pipe to it fills up, the program waits in its write; the event log is on
			k.Stdin, k.Content, k.Size, k.Chunk, k.GapUs, k.Hook = "pipe", "random", r.Range(200000, 400000), 8096, 0, ""
			k.SilenceMs, k.FirstChunk, k.ChunkPattern, k.StdinNonblock = 0, 0, nil, false
			k.LogEvents, k.NoEventDir = true, false
			k.StdoutPauseMs = []int{2600, 4200}[c.Batch/4%2]
			c.Count("runs_with_the_output_held_up_for_seconds", 1)
		}
		if i%13 == 3 || i%13 == 8 {
			// the standard input is a character device: /dev/null (an empty input), or a
			// terminal in its default mode that is given lines of text and then ^D
			k.Stdin, k.Size, k.Content = "devnull", 0, "random"
			if i%13 == 8 {
				k.Stdin, k.Size, k.Content = "pty", []int{0, 1, 400, 1500}[r.Intn(4)], "lines"
			}
			k.SilenceMs, k.SilenceAfterChunks, k.StdinNonblock, k.FirstChunk, k.Chunk, k.GapUs = 0, 0, false, 0, 0, 0
		}
		if i == 2 && c.Batch == 0 || c.Thorough() && i%100 == 2 {
			// a long session with the event log on: several megabytes through one process
			k.Size, k.LogEvents, k.NoEventDir = r.Range(5000000, 7000000), true, false
			k.Stdin, k.Chunk, k.GapUs, k.Hook, k.SilenceMs = "pipe", 0, 0, "", 0
			c.Count("long_sessions_with_event_log", 1)
		}
		cj := c.BeginV(k)
		execC16(c, k, cj)
		c.Eval(ref.Hash64(cj), k.Size > 0 && (k.Hook != "" || k.Stdin != "file"))
		if c.WantSample() && k.Hook != "" && k.Size > 0 {
			c.Sample(k)
		}
	}
}
