package main

import (
	"bytes"
	"encoding/json"
	"fmt"
	"log/slog"
	"os"
	"sync"
	"sync/atomic"

	"github.com/goblimey/go-ntrip/rtcm/handler"
	"github.com/goblimey/go-ntrip/rtcm/header"
	msm4msg "github.com/goblimey/go-ntrip/rtcm/type_msm4/message"
	msm7msg "github.com/goblimey/go-ntrip/rtcm/type_msm7/message"

	"verifharness/child"
	"verifharness/gen"
	"verifharness/ref"
)

func init() {
	monitors["C04"] = monC04
	preludes["C04"] = func(c *child.Ctx) {
		// the very first decodes of this process: eight goroutines, frames prepared
		// beforehand, released together
		r := ref.NewRand(c.Seed*31 + uint64(c.Batch)*131 + 4)
		type job struct {
			m *ref.MSM
			f []byte
		}
		var jobs [8][]job
		for g := range jobs {
			for len(jobs[g]) < 40 {
				m := gen.RandMSM(r, gen.MSMOpts{Type: ref.MSMTypes[(g+len(jobs[g]))%len(ref.MSMTypes)]})
				if p := ref.EncodeMSM(m); len(p) <= 1023 {
					jobs[g] = append(jobs[g], job{m, ref.Frame(p)})
				}
			}
		}
		start := make(chan struct{})
		var wg sync.WaitGroup
		var bad atomic.Value
		for g := range jobs {
			wg.Add(1)
			go func(g int) {
				defer wg.Done()
				<-start
				for _, j := range jobs[g] {
					var why string
					func() {
						defer func() {
							if x := recover(); x != nil {
								why = fmt.Sprintf("panic: %v", x)
							}
						}()
						direct, _, errText := decodeMSMBothWays(j.f, ref.IsMSM7(j.m.Type), slog.LevelInfo)
						if direct == nil {
							why = "well-formed message rejected: " + errText
							return
						}
						why = compareMSM(j.m, direct)
					}()
					if why != "" {
						cj, _ := json.Marshal(msmCase{M: j.m, Pads: []int{j.m.PadBytes}})
						bad.Store([2]string{"among the very first decodes of a process, made by eight goroutines at the same time: " + why, string(cj)})
						return
					}
				}
			}(g)
		}
		close(start)
		wg.Wait()
		if v := bad.Load(); v != nil {
			c.Violate("decode-mismatch", v.([2]string)[0], []byte(v.([2]string)[1]))
		}
		c.Count("processes_whose_first_decodes_were_side_by_side", 1)
		if c.Batch%2 == 1 && os.Getenv("VMON_PRELUDE_ONLY") == "" {
			c04ConcurrentDecodes(c, r)
		}
	}
}

// decoded is the neutral form both decoders' results are copied into, field by
// field through the exported API, before comparison with the encoded description.
type decoded struct {
	live     interface{} // the decoder's own result, kept so that it can be read again later
	hdr      *header.Header
	sats     []ref.Sat
	satIDs   []uint
	sigs     [][]ref.Sig
	sigIDs   [][]uint
	sigSatID [][]int // ID of the satellite cell each signal cell points at (-1 = nil)
}

func fromMSM4(m *msm4msg.Message) *decoded {
	d := &decoded{hdr: m.Header, live: m}
	for i := range m.Satellites {
		s := &m.Satellites[i]
		d.sats = append(d.sats, ref.Sat{Whole: s.RangeWholeMillis, Frac: s.RangeFractionalMillis})
		d.satIDs = append(d.satIDs, s.ID)
	}
	for i := range m.Signals {
		var row []ref.Sig
		var ids []uint
		var sid []int
		for j := range m.Signals[i] {
			c := &m.Signals[i][j]
			row = append(row, ref.Sig{RangeDelta: c.RangeDelta, PhaseDelta: c.PhaseRangeDelta, Lock: c.LockTimeIndicator, Half: c.HalfCycleAmbiguity, CNR: c.CarrierToNoiseRatio})
			ids = append(ids, c.ID)
			if c.Satellite == nil {
				sid = append(sid, -1)
			} else {
				sid = append(sid, int(c.Satellite.ID))
			}
		}
		d.sigs = append(d.sigs, row)
		d.sigIDs = append(d.sigIDs, ids)
		d.sigSatID = append(d.sigSatID, sid)
	}
	return d
}

func fromMSM7(m *msm7msg.Message) *decoded {
	d := &decoded{hdr: m.Header, live: m}
	for i := range m.Satellites {
		s := &m.Satellites[i]
		d.sats = append(d.sats, ref.Sat{Whole: s.RangeWholeMillis, Ext: s.ExtendedInfo, Frac: s.RangeFractionalMillis, Rate: s.PhaseRangeRate})
		d.satIDs = append(d.satIDs, s.ID)
	}
	for i := range m.Signals {
		var row []ref.Sig
		var ids []uint
		var sid []int
		for j := range m.Signals[i] {
			c := &m.Signals[i][j]
			row = append(row, ref.Sig{RangeDelta: c.RangeDelta, PhaseDelta: c.PhaseRangeDelta, Lock: c.LockTimeIndicator, Half: c.HalfCycleAmbiguity, CNR: c.CarrierToNoiseRatio, RateDelta: c.PhaseRangeRateDelta})
			ids = append(ids, c.ID)
			if c.Satellite == nil {
				sid = append(sid, -1)
			} else {
				sid = append(sid, int(c.Satellite.ID))
			}
		}
		d.sigs = append(d.sigs, row)
		d.sigIDs = append(d.sigIDs, ids)
		d.sigSatID = append(d.sigSatID, sid)
	}
	return d
}

// compareMSM returns "" when the decoded message is exactly the encoded description.
func compareMSM(m *ref.MSM, d *decoded) string {
	h := d.hdr
	if h == nil {
		return "decoded message has no header"
	}
	bad := func(name string, want, got interface{}) string {
		return fmt.Sprintf("header field %s: encoded %v decoded %v", name, want, got)
	}
	if h.MessageType != m.Type {
		return bad("MessageType", m.Type, h.MessageType)
	}
	if h.Constellation != ref.ConstellationOf(m.Type) {
		return bad("Constellation", ref.ConstellationOf(m.Type), h.Constellation)
	}
	if h.StationID != m.StationID {
		return bad("StationID", m.StationID, h.StationID)
	}
	if h.Timestamp != m.Timestamp {
		return bad("Timestamp", m.Timestamp, h.Timestamp)
	}
	if h.MultipleMessage != m.Multiple {
		return bad("MultipleMessage", m.Multiple, h.MultipleMessage)
	}
	if h.IssueOfDataStation != m.IODS {
		return bad("IssueOfDataStation", m.IODS, h.IssueOfDataStation)
	}
	if h.SessionTransmissionTime != m.SessTime {
		return bad("SessionTransmissionTime", m.SessTime, h.SessionTransmissionTime)
	}
	if h.ClockSteeringIndicator != m.ClkSteer {
		return bad("ClockSteeringIndicator", m.ClkSteer, h.ClockSteeringIndicator)
	}
	if h.ExternalClockSteeringIndicator != m.ExtClk {
		return bad("ExternalClockSteeringIndicator", m.ExtClk, h.ExternalClockSteeringIndicator)
	}
	if h.GNSSDivergenceFreeSmoothingIndicator != m.Smoothing {
		return bad("GNSSDivergenceFreeSmoothingIndicator", m.Smoothing, h.GNSSDivergenceFreeSmoothingIndicator)
	}
	if h.GNSSSmoothingInterval != m.SmoothInt {
		return bad("GNSSSmoothingInterval", m.SmoothInt, h.GNSSSmoothingInterval)
	}
	if h.SatelliteMask != m.SatMask {
		return bad("SatelliteMask", m.SatMask, h.SatelliteMask)
	}
	if h.SignalMask != m.SigMask {
		return bad("SignalMask", m.SigMask, h.SignalMask)
	}
	var cm uint64
	ncell := 0
	for _, b := range m.CellMask {
		cm <<= 1
		if b {
			cm |= 1
			ncell++
		}
	}
	if h.CellMask != cm {
		return bad("CellMask", cm, h.CellMask)
	}
	if h.NumSignalCells != ncell {
		return bad("NumSignalCells", ncell, h.NumSignalCells)
	}
	satIDs := ref.SatIDs(m.SatMask)
	sigIDs := ref.SigIDs(m.SigMask)
	if fmt.Sprint(h.Satellites) != fmt.Sprint(satIDs) && !(len(h.Satellites) == 0 && len(satIDs) == 0) {
		return bad("Satellites", satIDs, h.Satellites)
	}
	if fmt.Sprint(h.Signals) != fmt.Sprint(sigIDs) && !(len(h.Signals) == 0 && len(sigIDs) == 0) {
		return bad("Signals", sigIDs, h.Signals)
	}
	if len(h.Cells) != len(satIDs) {
		return fmt.Sprintf("cell matrix has %d rows, %d satellites encoded", len(h.Cells), len(satIDs))
	}
	for i := range h.Cells {
		if len(h.Cells[i]) != len(sigIDs) {
			return fmt.Sprintf("cell matrix row %d has %d columns, %d signals encoded", i, len(h.Cells[i]), len(sigIDs))
		}
		for j := range h.Cells[i] {
			if h.Cells[i][j] != m.CellMask[i*len(sigIDs)+j] {
				return fmt.Sprintf("cell matrix [%d][%d] is %v, encoded %v", i, j, h.Cells[i][j], m.CellMask[i*len(sigIDs)+j])
			}
		}
	}
	// satellite cells
	if len(d.sats) != len(m.Sats) {
		return fmt.Sprintf("%d satellite cells decoded, %d encoded", len(d.sats), len(m.Sats))
	}
	for i := range d.sats {
		if d.satIDs[i] != satIDs[i] {
			return fmt.Sprintf("satellite cell %d has ID %d, mask says %d", i, d.satIDs[i], satIDs[i])
		}
		if d.sats[i] != m.Sats[i] {
			return fmt.Sprintf("satellite cell %d (sat %d): encoded %+v decoded %+v", i, satIDs[i], m.Sats[i], d.sats[i])
		}
	}
	// signal cells: one row per satellite, cells in mask order
	total := 0
	for i := range d.sigs {
		total += len(d.sigs[i])
	}
	if total != ncell {
		return fmt.Sprintf("%d signal cells decoded, %d encoded", total, ncell)
	}
	if ncell > 0 && len(d.sigs) != len(satIDs) {
		return fmt.Sprintf("%d signal rows decoded, %d satellites encoded", len(d.sigs), len(satIDs))
	}
	c := 0
	for i := range satIDs {
		var got []ref.Sig
		var gotIDs []uint
		var gotSat []int
		if i < len(d.sigs) {
			got, gotIDs, gotSat = d.sigs[i], d.sigIDs[i], d.sigSatID[i]
		}
		k := 0
		for j := range sigIDs {
			if !m.CellMask[i*len(sigIDs)+j] {
				continue
			}
			if k >= len(got) {
				return fmt.Sprintf("satellite %d: signal cell for signal %d missing", satIDs[i], sigIDs[j])
			}
			if gotIDs[k] != sigIDs[j] {
				return fmt.Sprintf("satellite %d: cell %d has signal ID %d, mask says %d", satIDs[i], k, gotIDs[k], sigIDs[j])
			}
			if gotSat[k] != int(satIDs[i]) {
				return fmt.Sprintf("signal cell (sat %d, sig %d) is attached to satellite %d", satIDs[i], sigIDs[j], gotSat[k])
			}
			if got[k] != m.Sigs[c] {
				return fmt.Sprintf("signal cell (sat %d, sig %d): encoded %+v decoded %+v", satIDs[i], sigIDs[j], m.Sigs[c], got[k])
			}
			k++
			c++
		}
		if k != len(got) {
			return fmt.Sprintf("satellite %d: %d signal cells decoded, %d encoded", satIDs[i], len(got), k)
		}
	}
	return ""
}

// decodeMSMBothWays decodes a frame through the decoder package and through the
// public handler path (single-frame decoding + Analyse).
func decodeMSMBothWays(frame []byte, msm7 bool, lvl slog.Level) (direct *decoded, viaHandler *decoded, errText string) {
	if msm7 {
		m, err := msm7msg.GetMessage(frame, lvl)
		if err != nil {
			return nil, nil, "type_msm7 GetMessage: " + err.Error()
		}
		direct = fromMSM7(m)
	} else {
		m, err := msm4msg.GetMessage(frame, lvl)
		if err != nil {
			return nil, nil, "type_msm4 GetMessage: " + err.Error()
		}
		direct = fromMSM4(m)
	}
	h := handler.New(fixedStart, lvl)
	msg, _ := h.GetMessage(frame) // a time conversion error (e.g. SBAS has no time scale in the handler) is not a decode error
	if msg == nil || msg.MessageType < 0 {
		return direct, nil, "handler.GetMessage did not return a typed message for a well-formed frame"
	}
	handler.Analyse(msg)
	switch r := msg.Readable.(type) {
	case *msm4msg.Message:
		viaHandler = fromMSM4(r)
	case *msm7msg.Message:
		viaHandler = fromMSM7(r)
	default:
		return direct, nil, fmt.Sprintf("handler.Analyse produced %T (%q) instead of a decoded message", msg.Readable, msg.ErrorMessage)
	}
	return direct, viaHandler, ""
}

type msmCase struct {
	M    *ref.MSM `json:"msm"`
	Pads []int    `json:"pads"`
	// Lvl is the log level handed to the decoders (slog numbering: 0 Info, -4 Debug,
	// -8 a trace level below Debug, 4 Warn, 8 Error, 12 above Error).  What is decoded
	// does not depend on how much is logged.
	Lvl int `json:"lvl,omitempty"`
	// before the well-formed message is decoded the decoders are handed the same
	// message with the multiple-message flag set and this many bytes cut off its end
	// (one call per entry): an unfinished set of messages, a short read.  What a
	// decoder made of an earlier input is no concern of the next one.
	PreCuts []int `json:"truncated_flagged_copies_first,omitempty"`
}

var c04Levels = []int{0, -4, -8, 4, 8, 12, -12}

// c04PrevByFamily keeps, per decoder family, the previous message's description and
// decoded result: decoding the next message of that family must not change it.
type c04Kept struct {
	m  *ref.MSM
	d  *decoded
	cj []byte
}

var c04PrevByFamily [2]c04Kept // [0] MSM4, [1] MSM7

func execC04(c *child.Ctx, k msmCase, cj []byte) {
	msm7 := ref.IsMSM7(k.M.Type)
	fam := 0
	if msm7 {
		fam = 1
	}
	prev := c04PrevByFamily[fam]
	defer func() {
		// by now this message has been decoded several times: the previous message's
		// decoded result must still match its encoding
		if prev.m != nil && prev.d != nil {
			// read the decoder's own result again, now
			again := prev.d
			switch live := prev.d.live.(type) {
			case *msm4msg.Message:
				again = fromMSM4(live)
			case *msm7msg.Message:
				again = fromMSM7(live)
			}
			if why := compareMSM(prev.m, again); why != "" {
				c.Violate("decoded-result-changed-later", "a decoded message no longer matches its encoding after the next message was decoded: "+why, prev.cj)
			}
			c.Count("earlier_results_rechecked", 1)
		}
	}()
	for _, cut := range k.PreCuts {
		pm := *k.M
		pm.Multiple, pm.PadBytes = true, 0
		pp := ref.EncodeMSM(&pm)
		if cut <= 0 || cut >= len(pp)-3 || len(pp) > 1023 {
			continue
		}
		func() {
			defer func() { recover() }() // what becomes of the truncated copy is C07's business
			decodeMSMBothWays(ref.Frame(pp[:len(pp)-cut]), msm7, slog.Level(k.Lvl))
		}()
		c.Count("truncated_flagged_predecessors", 1)
	}
	for _, pad := range k.Pads {
		m := *k.M
		m.PadBytes = pad
		payload := ref.EncodeMSM(&m)
		if len(payload) > 1023 {
			continue
		}
		frame := ref.Frame(payload)
		var direct, via *decoded
		var errText string
		func() {
			defer func() {
				if r := recover(); r != nil {
					errText = fmt.Sprintf("panic: %v", r)
				}
			}()
			direct, via, errText = decodeMSMBothWays(frame, msm7, slog.Level(k.Lvl))
		}()
		if k.Lvl != 0 {
			c.Count("decodes_at_another_log_level", 1)
		}
		if errText != "" {
			c.Violate("well-formed-rejected", fmt.Sprintf("well-formed type %d message with %d padding bytes: %s", m.Type, pad, errText), cj)
			return
		}
		if why := compareMSM(&m, direct); why != "" {
			c.Violate("decode-mismatch", fmt.Sprintf("type %d, %d padding bytes, decoder package: %s", m.Type, pad, why), cj)
			return
		}
		if why := compareMSM(&m, via); why != "" {
			c.Violate("decode-mismatch", fmt.Sprintf("type %d, %d padding bytes, handler.Analyse: %s", m.Type, pad, why), cj)
			return
		}
		mm := m
		c04PrevByFamily[fam] = c04Kept{&mm, direct, cj}
		c.Count("decodes_compared", 2)
		c.Count("cells_compared", int64(2*len(m.Sigs)))
	}
}

// validateEncoder re-encodes the captured real-receiver MSM frames: decode with the
// repository, load the fields into the description, encode, and require the
// captured bytes back bit for bit.  This pins the encoder's layout to real data, so
// an encoder bug cannot hide a decoder bug or the other way round.
func validateEncoder(c *child.Ctx) {
	n := 0
	for _, f := range capturedFrames() {
		t := ref.TypeOf(f)
		if !(ref.IsMSM4(t) || ref.IsMSM7(t)) {
			continue
		}
		var d *decoded
		func() {
			defer func() { recover() }()
			if ref.IsMSM7(t) {
				if m, err := msm7msg.GetMessage(f, slog.LevelInfo); err == nil {
					d = fromMSM7(m)
				}
			} else {
				if m, err := msm4msg.GetMessage(f, slog.LevelInfo); err == nil {
					d = fromMSM4(m)
				}
			}
		}()
		if d == nil || d.hdr == nil {
			continue // the repository cannot decode it (judged elsewhere); nothing to validate against
		}
		h := d.hdr
		m := &ref.MSM{Type: h.MessageType, StationID: h.StationID, Timestamp: h.Timestamp, Multiple: h.MultipleMessage, IODS: h.IssueOfDataStation,
			SessTime: h.SessionTransmissionTime, ClkSteer: h.ClockSteeringIndicator, ExtClk: h.ExternalClockSteeringIndicator,
			Smoothing: h.GNSSDivergenceFreeSmoothingIndicator, SmoothInt: h.GNSSSmoothingInterval, SatMask: h.SatelliteMask, SigMask: h.SignalMask, CellsSent: -1}
		for i := range h.Cells {
			m.CellMask = append(m.CellMask, h.Cells[i]...)
		}
		m.Sats = d.sats
		for i := range d.sigs {
			m.Sigs = append(m.Sigs, d.sigs[i]...)
		}
		body := ref.EncodeMSM(m)
		payload := f[3 : len(f)-3]
		if len(body) > len(payload) {
			continue
		}
		// the captured payload may carry padding after the signal data
		same := true
		for i := range payload {
			var b byte
			if i < len(body) {
				b = body[i]
			}
			if payload[i] != b {
				same = false
			}
		}
		if !same {
			// not fatal by itself (the repository's decoder may be the wrong side), but
			// the run must say so: the encoder is then not anchored to this frame
			c.Count("encoder_validation_mismatches", 1)
			continue
		}
		n++
	}
	c.Count("encoder_validated_on_captured_msm_frames", int64(n))
	if n == 0 {
		c.Inconclusive("the independent MSM encoder could not be validated against any captured frame")
	}
}

// c04CRCTwin returns a description that differs from m only in the last cells of its
// last field array (CNR for MSM4, fine rate for MSM7), by the bits of the CRC-24Q
// generator polynomial laid over the last 25 bits of that array.  The CRC is linear,
// so a message that differs from another by a shifted copy of the generator has the
// same remainder: the two frames have the same length and the same CRC bytes.
func c04CRCTwin(m *ref.MSM) *ref.MSM {
	msm7 := ref.IsMSM7(m.Type)
	w := uint(6)
	if msm7 {
		w = 15
	}
	n := len(m.Sigs)
	if m.CellsSent >= 0 && m.CellsSent < n {
		return nil
	}
	if uint(n)*w < 25 {
		return nil
	}
	// the last array as a bit string, most significant first
	bits := make([]byte, 0, uint(n)*w)
	for _, sg := range m.Sigs {
		v := uint64(sg.CNR)
		if msm7 {
			v = uint64(int64(sg.RateDelta)) & (1<<15 - 1)
		}
		for b := int(w) - 1; b >= 0; b-- {
			bits = append(bits, byte(v>>uint(b))&1)
		}
	}
	const generator = uint32(0x1864CFB) // x^24 + ... + 1, 25 bits
	for i := 0; i < 25; i++ {
		bits[len(bits)-25+i] ^= byte((generator >> uint(24-i)) & 1)
	}
	cp := *m
	cp.Sigs = append([]ref.Sig(nil), m.Sigs...)
	for i := range cp.Sigs {
		var v uint64
		for b := uint(0); b < w; b++ {
			v = v<<1 | uint64(bits[uint(i)*w+b])
		}
		if msm7 {
			sv := int(v)
			if v&(1<<14) != 0 {
				sv = int(v) - (1 << 15)
			}
			cp.Sigs[i].RateDelta = sv
		} else {
			cp.Sigs[i].CNR = uint(v)
		}
	}
	return &cp
}

// c04ConcurrentDecodes: several receivers' messages decoded at the same time.
func c04ConcurrentDecodes(c *child.Ctx, r *ref.SplitMix64) {
	// several receivers' messages decoded at the same time by different goroutines
	// (the proxy's connections, the fan-out's consumers): each result is that of its
	// own message
	nc := c.Share(c.Pick(24000, 400000))
	var wg sync.WaitGroup
	var bad atomic.Value
	for g := 0; g < 4; g++ {
		wg.Add(1)
		go func(g int) {
			defer wg.Done()
			rr := ref.NewRand(r.Uint64() + uint64(g)*104729)
			for i := 0; i < nc/4 && bad.Load() == nil; i++ {
				m := gen.RandMSM(rr, gen.MSMOpts{Type: ref.MSMTypes[(i+g)%len(ref.MSMTypes)], AllowNoCell: true})
				m.PadBytes = rr.Intn(3)
				p := ref.EncodeMSM(m)
				if len(p) > 1023 {
					continue
				}
				kc := msmCase{M: m, Pads: []int{m.PadBytes}}
				var why string
				func() {
					defer func() {
						if x := recover(); x != nil {
							why = fmt.Sprintf("panic: %v", x)
						}
					}()
					direct, _, errText := decodeMSMBothWays(ref.Frame(p), ref.IsMSM7(m.Type), slog.LevelInfo)
					if direct == nil {
						why = "well-formed message rejected: " + errText
						return
					}
					why = compareMSM(m, direct)
				}()
				if why != "" {
					cj, _ := json.Marshal(kc)
					bad.Store([2]string{"decoded while three other goroutines were decoding their own messages: " + why, string(cj)})
				}
				if i%256 == 0 {
					tick()
				}
			}
		}(g)
	}
	wg.Wait()
	if v := bad.Load(); v != nil {
		c.Violate("decode-mismatch", v.([2]string)[0], []byte(v.([2]string)[1]))
	}
	c.Count("concurrent_decodes_compared", int64(nc))
	c.EvalN(1)
}

func monC04(c *child.Ctx, replay json.RawMessage) {
	if replay != nil && hasKey(replay, "frames_back_to_back_in_one_buffer") {
		// relational replay: each frame decoded from its sub-slice of the buffer must
		// give what it gives from a slice of its own, and leave the buffer alone
		var kc struct {
			Buf string `json:"frames_back_to_back_in_one_buffer"`
		}
		json.Unmarshal(replay, &kc)
		c.Begin(replay)
		buf := unhex(kc.Buf)
		whole := append([]byte(nil), buf...)
		for off := 0; off+6 <= len(buf) && buf[off] == 0xd3; {
			n := int(buf[off+1]&3)<<8 | int(buf[off+2])
			if off+n+6 > len(buf) {
				break
			}
			sub := buf[off : off+n+6]
			own := append([]byte(nil), whole[off:off+n+6]...)
			t := ref.TypeOf(own)
			var a, b *decoded
			func() {
				defer func() { recover() }()
				a, _, _ = decodeMSMBothWays(sub, ref.IsMSM7(t), slog.LevelInfo)
				b, _, _ = decodeMSMBothWays(own, ref.IsMSM7(t), slog.LevelInfo)
			}()
			if (a == nil) != (b == nil) || !bytes.Equal(buf, whole) {
				c.Violate("decode-mismatch", fmt.Sprintf("the frame at offset %d decodes differently from a sub-slice of the buffer than from a slice of its own, or decoding changed the buffer: %s", off, firstDiff(buf, whole)), replay)
				break
			}
			off += n + 6
		}
		c.Eval(1, true)
		return
	}
	if replay != nil {
		var k msmCase
		json.Unmarshal(replay, &k)
		c.Begin(replay)
		execC04(c, k, replay)
		c.Eval(1, true)
		return
	}
	r := ref.NewRand(c.Seed*217645199 + uint64(c.Batch)*236887691 + 4)
	concurrentDecodes := func() { c04ConcurrentDecodes(c, r) }
	// frames that lie one behind the other in one read buffer, each handed to the decoder
	// as a sub-slice: decoding one must leave the bytes behind it alone
	backToBack := func() {
		nb := c.Share(c.Pick(8000, 160000))
		for i := 0; i < nb && c.NViolations() == 0; i++ {
			var ms []*ref.MSM
			var frames [][]byte
			var buf []byte
			for j := r.Range(2, 4); j > 0; j-- {
				m := gen.RandMSM(r, gen.MSMOpts{Type: ref.MSMTypes[r.Intn(len(ref.MSMTypes))], AllowNoCell: true})
				m.PadBytes = []int{0, 0, 1, 2, 7}[r.Intn(5)]
				p := ref.EncodeMSM(m)
				if len(p) > 1023 {
					continue
				}
				f := ref.Frame(p)
				ms = append(ms, m)
				frames = append(frames, f)
				buf = append(buf, f...)
			}
			buf = append(buf, r.Bytes(16)...) // and something after the last frame
			whole := append([]byte(nil), buf...)
			kc := map[string]interface{}{"frames_back_to_back_in_one_buffer": hexs(whole)}
			cj, _ := json.Marshal(kc)
			if i%128 == 0 {
				c.Begin(cj)
			}
			off := 0
			for j, f := range frames {
				sub := buf[off : off+len(f)] // capacity reaches to the end of the buffer
				var why string
				func() {
					defer func() {
						if x := recover(); x != nil {
							why = fmt.Sprintf("panic: %v", x)
						}
					}()
					direct, _, errText := decodeMSMBothWays(sub, ref.IsMSM7(ms[j].Type), slog.LevelInfo)
					if direct == nil {
						why = "well-formed message rejected: " + errText
						return
					}
					why = compareMSM(ms[j], direct)
				}()
				if why != "" {
					c.Violate("decode-mismatch", fmt.Sprintf("frame %d of %d lying back to back in one buffer (each decoded from its own sub-slice, in order): %s", j+1, len(frames), why), cj)
					break
				}
				if !bytes.Equal(buf, whole) {
					c.Violate("decode-mismatch", fmt.Sprintf("decoding frame %d of %d from a sub-slice of a buffer changed the buffer: %s", j+1, len(frames), firstDiff(buf, whole)), cj)
					break
				}
				off += len(f)
			}
			c.Count("frames_decoded_back_to_back", int64(len(frames)))
			c.EvalN(1)
		}
	}
	// pairs of different well-formed messages of the same type and length whose frames
	// end in the SAME three CRC bytes (the second differs from the first by the CRC's
	// generator polynomial laid over the last 25 bits of its last field array):
	// decoded one after the other, each gives its own contents
	npairs := c.Share(c.Pick(8000, 160000))
	made := 0
	for i := 0; i < npairs*4 && made < npairs && c.NViolations() == 0; i++ {
		m := gen.RandMSM(r, gen.MSMOpts{Type: ref.MSMTypes[i%len(ref.MSMTypes)]})
		m2 := c04CRCTwin(m)
		if m2 == nil {
			continue
		}
		pa, pb := ref.EncodeMSM(m), ref.EncodeMSM(m2)
		if len(pa) > 1023 || len(pa) != len(pb) || bytes.Equal(pa, pb) || ref.CRC24Q(append([]byte{0xd3, byte(len(pa) >> 8), byte(len(pa))}, pa...)) != ref.CRC24Q(append([]byte{0xd3, byte(len(pb) >> 8), byte(len(pb))}, pb...)) {
			c.Count("crc_twins_not_constructible", 1)
			continue
		}
		made++
		kc := msmCase{M: m2, Pads: []int{m2.PadBytes}}
		cj, _ := json.Marshal(kc)
		if made%128 == 1 {
			c.Begin(cj)
		}
		for pass, fr := range [][]byte{ref.Frame(pa), ref.Frame(pb)} {
			want := []*ref.MSM{m, m2}[pass]
			var why string
			func() {
				defer func() {
					if x := recover(); x != nil {
						why = fmt.Sprintf("panic: %v", x)
					}
				}()
				direct, via, errText := decodeMSMBothWays(fr, ref.IsMSM7(want.Type), slog.LevelInfo)
				if direct == nil {
					why = "well-formed message rejected: " + errText
					return
				}
				if why = compareMSM(want, direct); why == "" && via != nil {
					why = compareMSM(want, via)
				}
			}()
			if why != "" {
				c.Violate("decode-mismatch", fmt.Sprintf("message %d of two messages of equal length whose frames carry the same CRC, decoded one after the other: %s", pass+1, why), cj)
				break
			}
		}
		c.Count("crc_twin_pairs_decoded", 1)
		c.EvalN(1)
	}
	// (in the odd batches the prelude has already run the side-by-side decodes, as the
	// first decodes of the process)
	validateEncoder(c)
	n := c.Share(c.Pick(40000, 600000))
	npads := c.Pick(4, 8)
	for i := 0; i < n; i++ {
		m := gen.RandMSM(r, gen.MSMOpts{Type: ref.MSMTypes[i%len(ref.MSMTypes)], AllowNoCell: true})
		maxPad := gen.MaxPad(m)
		pads := []int{0}
		for len(pads) < npads {
			var p int
			switch r.Intn(5) {
			case 0:
				p = r.Range(0, 13)
			case 1:
				p = r.Range(0, 3)
			case 2:
				p = maxPad // right up to the 1023-byte limit
			case 3:
				p = r.Range(0, maxPad)
			default:
				p = r.Range(1, 24)
			}
			if p > maxPad {
				p = maxPad
			}
			pads = append(pads, p)
		}
		k := msmCase{M: m, Pads: pads}
		if i%3 == 1 {
			k.Lvl = c04Levels[(i/3)%len(c04Levels)]
		}
		if i%4 == 2 && len(m.Sigs) >= 2 {
			// cut inside the signal data: after the first cell's worth, in the middle, one byte short
			full := len(ref.EncodeMSM(m))
			k.PreCuts = []int{1, r.Range(1, full/3+1), r.Range(1, full/2+1)}
		}
		cj := c.BeginV(k)
		execC04(c, k, cj)
		zeroField := false
		for _, s := range m.Sigs {
			if s.RangeDelta == 0 || s.PhaseDelta == 0 || (s.Lock == 0 && !s.Half && s.CNR == 0) {
				zeroField = true
			}
		}
		bigPad := false
		for _, p := range pads {
			if p >= 3 {
				bigPad = true
			}
		}
		c.Eval(ref.Hash64(cj), len(m.Sigs) >= 2 || zeroField || bigPad)
		if c.WantSample() && len(m.Sigs) >= 2 && len(m.Sigs) <= 4 {
			c.Sample(k)
		}
	}
	if c.Batch%2 == 0 {
		concurrentDecodes()
	}
	backToBack()
}
