package main

import (
	"bufio"
	"bytes"
	"encoding/json"
	"fmt"
	"log/slog"
	"reflect"
	"runtime"
	"strings"
	"sync"

	"github.com/goblimey/go-ntrip/apps/appcore"
	"github.com/goblimey/go-ntrip/jsonconfig"
	"github.com/goblimey/go-ntrip/rtcm/handler"
	"github.com/goblimey/go-ntrip/rtcm/type1005"
	"github.com/goblimey/go-ntrip/rtcm/type1006"
	msm4msg "github.com/goblimey/go-ntrip/rtcm/type_msm4/message"
	msm7msg "github.com/goblimey/go-ntrip/rtcm/type_msm7/message"

	"verifharness/child"
	"verifharness/gen"
	"verifharness/ref"
)

func init() { monitors["C15"] = monC15 }

type detCase struct {
	PoolSeed  uint64 `json:"pool_seed"`
	Kind      string `json:"kind"` // history | concurrent
	Order     []int  `json:"order,omitempty"`
	Handlers  int    `json:"handlers,omitempty"`
	Consumers int    `json:"consumers,omitempty"`
	Procs     int    `json:"gomaxprocs,omitempty"`
	Seed      uint64 `json:"seed"`
}

// framePool builds the frames used by C15: captured real frames plus generated
// well-formed and ill-formed frames of all decodable types and a few others.
func framePool(seed uint64) [][]byte {
	r := ref.NewRand(seed)
	pool := capturedFrames()
	if len(pool) > 40 {
		pool = pool[:40]
	}
	for i := 0; i < 140; i++ {
		m := gen.RandMSM(r, gen.MSMOpts{Type: ref.MSMTypes[i%len(ref.MSMTypes)], AllowNoCell: true})
		m.PadBytes = r.Intn(3)
		if i%9 == 0 {
			m.FixIllegalTime(r)
		}
		p := ref.EncodeMSM(m)
		if len(p) > 1023 {
			continue
		}
		if i%7 == 3 && len(p) > 30 {
			p = p[:r.Range(7, len(p)-1)] // ill-formed: truncated body
		}
		pool = append(pool, ref.Frame(p))
	}
	// MSM frames whose cell masks are the same bit string although their shapes
	// (satellites x signals) differ
	for _, t := range []int{1074, 1077, 1087, 1124} {
		for _, sh := range [][2]int{{2, 3}, {3, 2}, {6, 2}, {4, 3}, {3, 4}, {2, 6}, {12, 1}, {1, 12}} {
			for _, pat := range []int{0, 1, 2} {
				m := &ref.MSM{Type: t, StationID: uint(r.Intn(4096)), Timestamp: uint(r.Range(1, 80000000)), CellsSent: -1}
				for i := 0; i < sh[0]; i++ {
					m.SatMask |= uint64(1) << uint(63-2*i)
					m.Sats = append(m.Sats, ref.Sat{Whole: uint(60 + r.Intn(30)), Frac: uint(r.Intn(1024)), Ext: uint(r.Intn(16)), Rate: r.Range(-500, 500)})
				}
				for i := 0; i < sh[1]; i++ {
					m.SigMask |= uint32(1) << uint(30-2*i)
				}
				for c := 0; c < sh[0]*sh[1]; c++ {
					on := pat == 0 || pat == 1 && c%3 != 2 || pat == 2 && (c/sh[1])%2 == 0 // all ones, 110110..., every second satellite without cells
					m.CellMask = append(m.CellMask, on)
					if on {
						m.Sigs = append(m.Sigs, ref.Sig{RangeDelta: r.Range(-1000, 1000), PhaseDelta: r.Range(-1000, 1000), Lock: uint(r.Intn(16)), CNR: uint(1 + r.Intn(60)), RateDelta: r.Range(-100, 100)})
					}
				}
				if p := ref.EncodeMSM(m); len(p) <= 1023 {
					pool = append(pool, ref.Frame(p))
				}
			}
		}
	}
	// base stations that have not been given a position yet (all coordinates zero), with
	// and without a height
	for _, t := range []int{1005, 1006} {
		for _, h := range []uint{0, 15000} {
			b := gen.RandBase(r, t)
			b.X, b.Y, b.Z, b.Height, b.Trailing = 0, 0, 0, h, nil
			pool = append(pool, ref.Frame(ref.EncodeBase(b, t)))
		}
	}
	// part messages: the multiple-message flag set and fewer cells sent than the mask lists
	for _, t := range []int{1074, 1077, 1084, 1097, 1124} {
		for k := 0; k < 3; k++ {
			m := gen.RandMSM(r, gen.MSMOpts{Type: t})
			if len(m.Sigs) < 2 {
				continue
			}
			m.Multiple = true
			m.CellsSent = r.Range(1, len(m.Sigs)-1)
			if p := ref.EncodeMSM(m); len(p) <= 1023 {
				pool = append(pool, ref.Frame(p))
			}
		}
	}
	for i := 0; i < 30; i++ {
		t := 1005 + i%2
		p := ref.EncodeBase(gen.RandBase(r, t), t)
		if i%6 == 5 {
			p = p[:r.Range(2, len(p)-1)]
		}
		pool = append(pool, ref.Frame(p))
	}
	for i := 0; i < 40; i++ {
		f := gen.RandFrame(r)
		pool = append(pool, f.Bytes)
	}
	// CRC twins of a dozen pool frames: the same type and length, the last 25 payload
	// bits differing by the CRC's generator polynomial, hence the same three CRC bytes
	for i, n := 0, len(pool); i < 12; i++ {
		src := pool[r.Intn(n)]
		if len(src) < 6+5 {
			continue
		}
		tw := append([]byte(nil), src...)
		end := len(tw) - 3 // first CRC byte
		const generator = uint32(0x1864CFB)
		for b := 0; b < 25; b++ {
			if generator>>uint(b)&1 == 1 {
				bit := end*8 - 1 - b
				tw[bit/8] ^= 1 << uint(7-bit%8)
			}
		}
		if ref.IsFrame(tw) {
			pool = append(pool, tw)
		}
	}
	return pool
}

type canon struct {
	typ      int
	errText  string
	readable interface{}
	text     [2]string // info, debug - time lines removed
}

func stripTime(text string, m *handler.Message) string {
	if m.SentAt != "" {
		text = strings.Replace(text, m.SentAt+"\n", "", 1)
	}
	if m.StartOfWeek != "" {
		text = strings.Replace(text, m.StartOfWeek+"\n", "", 1)
	}
	return text
}

var detLevels = []slog.Level{slog.LevelInfo, slog.LevelDebug}

// observe decodes and displays a message the way a consumer does and returns the
// comparable parts.
func observe(m *handler.Message) (readable interface{}, text string) {
	handler.Analyse(m)
	readable = m.Readable
	text = stripTime(m.String(), m)
	return
}

func buildCanon(pool [][]byte) [][2]canon {
	out := make([][2]canon, len(pool))
	for i, f := range pool {
		for li, lvl := range detLevels {
			h := handler.New(fixedStart, lvl)
			m, _ := h.GetMessage(append([]byte(nil), f...))
			var cn canon
			if m != nil {
				cn.typ = m.MessageType
				r, t := observe(m)
				cn.readable = r
				cn.text[li] = t
				// the error text after full decoding, without the time-conversion error
				cn.errText = m.ErrorMessage
			}
			out[i][li] = cn
		}
	}
	return out
}

func diffText(a, b string) string {
	la, lb := strings.Split(a, "\n"), strings.Split(b, "\n")
	for i := 0; i < len(la) && i < len(lb); i++ {
		if la[i] != lb[i] {
			return fmt.Sprintf("line %d: %q vs canonical %q", i+1, la[i], lb[i])
		}
	}
	return fmt.Sprintf("%d lines vs canonical %d lines", len(la), len(lb))
}

// checkAgainstCanon compares one processing of pool frame i with its canonical result.
func checkAgainstCanon(c *child.Ctx, cj []byte, cn *[2]canon, i int, li int, m *handler.Message, where string) {
	checkAgainstCanonX(c, cj, cn, i, li, m, where, false)
}

// checkAgainstCanonX with alreadyDecoded=true looks at the decoded form the message
// already holds instead of decoding it again.
func checkAgainstCanonX(c *child.Ctx, cj []byte, cn *[2]canon, i int, li int, m *handler.Message, where string, alreadyDecoded bool) {
	want := &cn[li]
	if m == nil {
		c.Violate("differs-from-canonical", fmt.Sprintf("%s: frame %d gave no message", where, i), cj)
		return
	}
	before := ref.Hash64(m.RawData)
	if !alreadyDecoded {
		// a consumer that only displays: the first display of a message nobody has
		// decoded yet, and the second, give the canonical text too
		fresh := *m
		fresh.RawData = append([]byte(nil), m.RawData...)
		d1 := stripTime(fresh.String(), &fresh)
		d2 := stripTime(fresh.String(), &fresh)
		if d1 != d2 {
			c.Violate("display-not-repeatable", fmt.Sprintf("%s: the first and the second display of frame %d (type %d, not decoded before) differ: %s", where, i, m.MessageType, diffText(d1, d2)), cj)
			return
		}
		if d1 != want.text[li] {
			c.Violate("differs-from-canonical", fmt.Sprintf("%s: displaying frame %d (type %d) without decoding it first gives a text that differs from the canonical text: %s", where, i, m.MessageType, diffText(d1, want.text[li])), cj)
			return
		}
		if !bytes.Equal(fresh.RawData, m.RawData) {
			c.Violate("display-modifies-raw-bytes", fmt.Sprintf("%s: the raw bytes of frame %d changed while it was displayed", where, i), cj)
			return
		}
	}
	var r interface{}
	var t string
	if alreadyDecoded {
		r, t = m.Readable, stripTime(m.String(), m)
	} else {
		r, t = observe(m)
	}
	if m.MessageType != want.typ {
		c.Violate("differs-from-canonical", fmt.Sprintf("%s: frame %d has type %d, processed first by a fresh handler it has type %d", where, i, m.MessageType, want.typ), cj)
		return
	}
	if !reflect.DeepEqual(r, want.readable) {
		c.Violate("differs-from-canonical", fmt.Sprintf("%s: the decoded fields of frame %d (type %d) differ from those obtained when it is processed first by a fresh handler: %+v vs %+v", where, i, m.MessageType, r, want.readable), cj)
		return
	}
	if t != want.text[li] {
		c.Violate("differs-from-canonical", fmt.Sprintf("%s: the readable text of frame %d (type %d) differs from the canonical text: %s", where, i, m.MessageType, diffText(t, want.text[li])), cj)
		return
	}
	// displaying again gives identical text and never modifies the raw bytes
	t2 := stripTime(m.String(), m)
	if t2 != t {
		c.Violate("display-not-repeatable", fmt.Sprintf("%s: displaying frame %d twice gives different text: %s", where, i, diffText(t2, t)), cj)
	}
	if ref.Hash64(m.RawData) != before {
		c.Violate("display-modifies-raw-bytes", fmt.Sprintf("%s: the raw bytes of frame %d changed while it was displayed", where, i), cj)
	}
	// a copy made AFTER the message has been decoded and displayed belongs to whoever
	// holds it: what its holder does with its decoded form and its raw bytes leaves
	// the original's display and bytes as they were
	func() {
		defer func() {
			if r := recover(); r != nil {
				c.Violate("panic", fmt.Sprintf("%s: copying frame %d after its display, or displaying the copy, panicked: %v", where, i, r), cj)
			}
		}()
		cp := m.Copy()
		cp.LogLevel = m.LogLevel
		_ = cp.String()
		scribble(cp.Readable)
		for j := range cp.RawData {
			cp.RawData[j] ^= 0x5a
		}
		if t3 := stripTime(m.String(), m); t3 != t {
			c.Violate("display-not-repeatable", fmt.Sprintf("%s: after a copy of frame %d (taken once it had been displayed) was altered by its holder, the original displays differently: %s", where, i, diffText(t3, t)), cj)
		}
		if ref.Hash64(m.RawData) != before {
			c.Violate("display-modifies-raw-bytes", fmt.Sprintf("%s: the raw bytes of frame %d changed when the raw bytes of its copy were altered", where, i), cj)
		}
		c.Count("copies_taken_after_display_and_altered", 1)
	}()
}

func execC15History(c *child.Ctx, k detCase, cj []byte, pool [][]byte, cn [][2]canon) {
	for li, lvl := range detLevels {
		h := handler.New(fixedStart, lvl)
		for step, i := range k.Order {
			if i < 0 || i >= len(pool) {
				continue
			}
			f := append([]byte(nil), pool[i]...)
			var m *handler.Message
			func() {
				defer func() {
					if r := recover(); r != nil {
						c.Violate("panic", fmt.Sprintf("panic at step %d: %v", step, r), cj)
					}
				}()
				m, _ = h.GetMessage(f)
				checkAgainstCanon(c, cj, &cn[i], i, li, m, fmt.Sprintf("history step %d, level %v", step, lvl))
			}()
			if !bytes.Equal(f, pool[i]) {
				c.Violate("display-modifies-raw-bytes", fmt.Sprintf("history step %d: the input bytes of frame %d were modified", step, i), cj)
			}
			if c.NViolations() > 0 {
				return
			}
		}
	}
	c.Count("history_steps_compared", int64(2*len(k.Order)))
	// the same history through the stream handler, every message kept until the
	// whole stream has been scanned and only then decoded and displayed
	for li, lvl := range detLevels {
		streamAgainstCanon(c, cj, pool, cn, k.Order, li, lvl, "stream history")
		if c.NViolations() > 0 {
			return
		}
	}
}

// streamAgainstCanon feeds the given pool frames back to back through one stream
// handler, keeps every delivered message, and compares them with the canonical
// results only after the handler has finished with the whole stream.
func streamAgainstCanon(c *child.Ctx, cj []byte, pool [][]byte, cn [][2]canon, order []int, li int, lvl slog.Level, where string) {
	var all []byte
	var idx []int
	for _, i := range order {
		if i < 0 || i >= len(pool) {
			continue
		}
		all = append(all, pool[i]...)
		idx = append(idx, i)
	}
	msgs := runSequential(fixedStart, lvl, all)
	if len(msgs) != len(idx) {
		c.Violate("differs-from-canonical", fmt.Sprintf("%s: %d frames in, %d messages out", where, len(idx), len(msgs)), cj)
		return
	}
	// decode every message first, look at the results only afterwards: a decoded
	// result must not change because other frames were decoded after it
	for j := range msgs {
		msgs[j].LogLevel = lvl
		handler.Analyse(&msgs[j])
	}
	for j := range msgs {
		if !bytes.Equal(msgs[j].RawData, pool[idx[j]]) {
			c.Violate("raw-bytes-changed-after-delivery", fmt.Sprintf("%s: message %d no longer holds the bytes of its frame once later frames have been scanned: %s, frame was %s",
				where, j, clip(hexs(msgs[j].RawData)), clip(hexs(pool[idx[j]]))), cj)
			return
		}
		checkAgainstCanonX(c, cj, &cn[idx[j]], idx[j], li, &msgs[j], fmt.Sprintf("%s, message %d (decoded before the later ones), level %v", where, j, lvl), true)
		if c.NViolations() > 0 {
			return
		}
	}
	c.Count("stream_messages_compared", int64(len(msgs)))
}

// concSteps is the number of frames each concurrent handler decodes per run.
const concSteps = 48

func execC15Concurrent(c *child.Ctx, k detCase, cj []byte, pool [][]byte, cn [][2]canon) {
	if k.Procs > 0 {
		runtime.GOMAXPROCS(k.Procs)
	}
	// every handler decodes from the SAME input byte slices
	shared := make([][]byte, len(pool))
	for i := range pool {
		shared[i] = append([]byte(nil), pool[i]...)
	}
	type freshRec struct {
		frame []byte
		li    int
		text  string
	}
	var fresh []freshRec
	var freshMu sync.Mutex
	var wg sync.WaitGroup
	for hi := 0; hi < k.Handlers; hi++ {
		wg.Add(1)
		go func(hi int) {
			defer wg.Done()
			r := ref.NewRand(k.Seed + uint64(hi)*977)
			li := hi % 2
			h := handler.New(fixedStart, detLevels[li])
			var cwg sync.WaitGroup
			for step := 0; step < concSteps; step++ {
				i := r.Intn(len(pool))
				m, _ := h.GetMessage(shared[i])
				if m == nil {
					continue
				}
				// fan out value copies, as appcore does
				for ci := 0; ci < k.Consumers; ci++ {
					cp := *m
					cwg.Add(1)
					go func(cp handler.Message, ci int) {
						defer cwg.Done()
						defer func() {
							if rr := recover(); rr != nil {
								c.Violate("panic", fmt.Sprintf("panic in a consumer: %v", rr), cj)
							}
						}()
						lvl := (li + ci) % 2 // consumers choose their own log level
						cp.LogLevel = detLevels[lvl]
						if ci%2 == 1 {
							c2 := cp.Copy()
							c2.LogLevel = detLevels[lvl]
							_ = c2.String()
							_ = handler.PrepareForDisplay(&c2)
						}
						if lvl != li {
							// the text depends on the level the message was created with in two
							// places (type 1005/1006 keep their own level); compare only what
							// does not: decoded fields and repeatability
							before := ref.Hash64(cp.RawData)
							rd, t1 := observe(&cp)
							_ = rd
							t2 := stripTime(cp.String(), &cp)
							if t1 != t2 {
								c.Violate("display-not-repeatable", "a consumer displaying its copy twice got different text: "+diffText(t1, t2), cj)
							}
							if ref.Hash64(cp.RawData) != before {
								c.Violate("display-modifies-raw-bytes", "raw bytes changed while a consumer displayed its copy", cj)
							}
							return
						}
						checkAgainstCanon(c, cj, &cn[i], i, li, &cp, fmt.Sprintf("handler %d consumer %d", hi, ci))
					}(cp, ci)
				}
				if step%8 == 7 {
					cwg.Wait()
				}
			}
			cwg.Wait()
			// the same handler type over a stream, messages kept until the end
			var order []int
			for j := 0; j < 24; j++ {
				order = append(order, r.Intn(len(pool)))
			}
			streamAgainstCanon(c, cj, pool, cn, order, li, detLevels[li], fmt.Sprintf("concurrent stream handler %d", hi))
			// message types this process has not displayed before, displayed while
			// the other goroutines are displaying too
			for j := 0; j < 12; j++ {
				t := r.Intn(4096)
				f := ref.FrameOfType(t, byte(r.Intn(16)), r.Bytes(r.Range(6, 20)))
				m, _ := h.GetMessage(f)
				if m == nil {
					continue
				}
				txt := stripTime(m.String(), m)
				freshMu.Lock()
				fresh = append(fresh, freshRec{frame: f, li: li, text: txt})
				freshMu.Unlock()
			}
		}(hi)
	}
	done := make(chan struct{})
	go func() { wg.Wait(); close(done) }()
	waitOrHang(done, caseWatchdog, "concurrent decoding did not finish")
	// the first-seen types: the text obtained concurrently must equal the text a
	// fresh handler gives sequentially
	for _, fr := range fresh {
		h := handler.New(fixedStart, detLevels[fr.li])
		m, _ := h.GetMessage(fr.frame)
		if m == nil {
			continue
		}
		if want := stripTime(m.String(), m); want != fr.text {
			c.Violate("differs-from-canonical", "a message of a type not displayed before gave different text when displayed concurrently: "+diffText(fr.text, want), cj)
			break
		}
	}
	c.Count("first_seen_types_displayed_concurrently", int64(len(fresh)))
	for i := range pool {
		if !bytes.Equal(shared[i], pool[i]) {
			c.Violate("display-modifies-raw-bytes", fmt.Sprintf("the shared input bytes of frame %d were modified", i), cj)
		}
	}
	c.Count("concurrent_displays", int64(k.Handlers*concSteps*k.Consumers))
}

// execC15DecodedCopies: a message is decoded once (the way the proxy's handler or a
// filter decodes it before passing it on), value copies of the decoded message go to
// several consumers, and their first displays happen at the same moment.  Each of
// them reads the canonical text.
func execC15DecodedCopies(c *child.Ctx, k detCase, cj []byte, pool [][]byte, cn [][2]canon) {
	runtime.GOMAXPROCS(16)
	for _, i := range k.Order {
		if i < 0 || i >= len(pool) {
			continue
		}
		for li, lvl := range detLevels {
			h := handler.New(fixedStart, lvl)
			m, _ := h.GetMessage(append([]byte(nil), pool[i]...))
			if m == nil {
				continue
			}
			func() {
				defer func() { recover() }() // crashes in decoding are C07's business
				handler.Analyse(m)
			}()
			n := 2 + (i+li)%3
			texts := make([]string, n)
			var wg sync.WaitGroup
			start := make(chan struct{})
			for ci := 0; ci < n; ci++ {
				wg.Add(1)
				go func(ci int, cp handler.Message) {
					defer wg.Done()
					defer func() {
						if rr := recover(); rr != nil {
							texts[ci] = fmt.Sprintf("panic: %v", rr)
						}
					}()
					<-start
					texts[ci] = stripTime(cp.String(), &cp)
				}(ci, *m)
			}
			close(start)
			wg.Wait()
			for ci := range texts {
				if texts[ci] != cn[i][li].text[li] {
					c.Violate("differs-from-canonical", fmt.Sprintf("frame %d (type %d) was decoded once and %d value copies of it were displayed at the same moment (level %v): copy %d reads differently from the canonical text: %s", i, m.MessageType, n, lvl, ci, diffText(texts[ci], cn[i][li].text[li])), cj)
					return
				}
			}
			c.Count("decoded_messages_whose_copies_were_displayed_together", 1)
		}
	}
}

// scribble overwrites the decoded form a consumer holds, as a consumer is free to do
// with its own copy.
func scribble(readable interface{}) {
	switch r := readable.(type) {
	case *type1005.Message:
		r.StationID ^= 0xfff
		r.AntennaRefX, r.AntennaRefY = -1, 1
	case *type1006.Message:
		r.StationID ^= 0xfff
		r.AntennaRefZ, r.AntennaHeight = -2, 7
	case *msm4msg.Message:
		if r.Header != nil {
			r.Header.StationID ^= 0xfff
			r.Header.MultipleMessage = !r.Header.MultipleMessage
		}
		for i := range r.Satellites {
			r.Satellites[i].RangeWholeMillis = 77
		}
		for i := range r.Signals {
			for j := range r.Signals[i] {
				r.Signals[i][j].RangeDelta = 12345
			}
		}
	case *msm7msg.Message:
		if r.Header != nil {
			r.Header.StationID ^= 0xfff
			r.Header.MultipleMessage = !r.Header.MultipleMessage
		}
		for i := range r.Satellites {
			r.Satellites[i].RangeWholeMillis = 77
		}
		for i := range r.Signals {
			for j := range r.Signals[i] {
				r.Signals[i][j].RangeDelta = 12345
			}
		}
	}
}

// execC15FanOut runs frames through the real reader -> framing -> fan-out pipeline
// with three consumers: each sets the log level it wants on its own copy, one of
// them overwrites the decoded form of its copy after displaying it; every consumer's
// decoded fields and text must still equal the canonical result for its level.
func execC15FanOut(c *child.Ctx, k detCase, cj []byte, pool [][]byte, cn [][2]canon) {
	if k.Procs > 0 {
		runtime.GOMAXPROCS(k.Procs)
	}
	var all []byte
	var idx []int
	for _, i := range k.Order {
		if i >= 0 && i < len(pool) {
			all = append(all, pool[i]...)
			idx = append(idx, i)
		}
	}
	levels := []int{1, 0, 1} // consumer 0 (scribbler) debug, consumer 1 info, consumer 2 debug
	channels := make([]chan handler.Message, len(levels))
	done := make([]chan struct{}, len(levels))
	for ci := range channels {
		channels[ci] = make(chan handler.Message, []int{0, 4, 1}[ci])
		done[ci] = make(chan struct{})
		go func(ci int) {
			defer close(done[ci])
			j := 0
			for m := range channels[ci] {
				tick()
				if j >= len(idx) {
					c.Violate("differs-from-canonical", "fan-out delivered more messages than frames were sent", cj)
					return
				}
				cp := m
				li := levels[ci]
				cp.LogLevel = detLevels[li]
				if ci == 1 {
					runtime.Gosched() // let the scribbler go first when it can
				}
				func() {
					defer func() {
						if rr := recover(); rr != nil {
							c.Violate("panic", fmt.Sprintf("panic in a fan-out consumer: %v", rr), cj)
						}
					}()
					// decode the way the applications' consumers do: lazily, through the display path
					handler.PrepareForDisplay(&cp)
					checkAgainstCanonX(c, cj, &cn[idx[j]], idx[j], li, &cp, fmt.Sprintf("fan-out consumer %d (level %v), message %d", ci, detLevels[li], j), true)
					if ci == 0 {
						scribble(cp.Readable)
					}
				}()
				j++
			}
		}(ci)
	}
	core := appcore.New(&jsonconfig.Config{}, channels)
	ret := make(chan struct{})
	go func() {
		core.HandleMessagesUntilEOF(fixedStart, bufio.NewReader(bytes.NewReader(all)))
		close(ret)
	}()
	waitOrHang(ret, caseWatchdog, "fan-out pipeline did not return")
	for ci := range channels {
		close(channels[ci])
	}
	for ci := range done {
		waitOrHang(done[ci], caseWatchdog, "fan-out consumer did not finish")
	}
	c.Count("fan_out_messages_compared", int64(len(idx)*len(levels)))
}

// execC15NonRTCM: data that is not RTCM is displayed too (the proxy's report, the
// filter's readable log): of any length, repeatably, leaving the bytes as they were -
// also the spare capacity behind them, which belongs to whoever owns the buffer.
func execC15NonRTCM(c *child.Ctx, k detCase, cj []byte) {
	r := ref.NewRand(k.Seed)
	for _, n := range k.Order {
		if n <= 0 {
			continue
		}
		var junk []byte
		if r.Chance(1, 2) {
			junk = gen.NoD3(r.Bytes(n))
		} else {
			junk = make([]byte, n)
			for j := range junk {
				junk[j] = "$GPGSV,3,1,11,03,03,111,00,04,15,270,00,06,01,010,00,13,06,292,00*74\r\n"[j%70]
			}
		}
		for li, lvl := range detLevels {
			// through single-frame decoding, from a buffer with spare capacity
			buf := make([]byte, n, n+64)
			copy(buf, junk)
			spare := buf[n : n+64]
			for j := range spare {
				spare[j] = 0xA5
			}
			var msgs []*handler.Message
			h := handler.New(fixedStart, lvl)
			if n%2 == 1 {
				// some other part of the program creates a handler with the other level now
				_ = handler.New(fixedStart, detLevels[1-li])
			}
			if m, _ := h.GetMessage(buf); m != nil {
				msgs = append(msgs, m)
			}
			// what the display of this data looks like must not depend on that other handler
			{
				plain := handler.New(fixedStart, lvl)
				mp, _ := plain.GetMessage(append([]byte(nil), junk...))
				if mp != nil && len(msgs) > 0 && mp.String() != msgs[0].String() {
					c.Violate("differs-from-canonical", fmt.Sprintf("the display of %d bytes of non-RTCM data scanned by a handler of level %v differs depending on whether a handler of the other level was created in between: %s", n, lvl, diffText(msgs[0].String(), mp.String())), cj)
					return
				}
			}
			// and through the stream handler, between two frames
			f1, f2 := gen.RandFrame(r), gen.RandFrame(r)
			in := append(append(append([]byte(nil), f1.Bytes...), junk...), f2.Bytes...)
			sm := runSequential(fixedStart, lvl, in)
			for j := range sm {
				if sm[j].MessageType < 0 {
					msgs = append(msgs, &sm[j])
				}
			}
			for _, m := range msgs {
				if !bytes.Equal(m.RawData, junk) {
					continue // C02/C03 judge the segmentation
				}
				full := m.RawData[:cap(m.RawData)]
				snap := append([]byte(nil), full...)
				t1 := m.String()
				t2 := m.String()
				if t1 != t2 {
					c.Violate("display-not-repeatable", fmt.Sprintf("displaying a non-RTCM message of %d bytes twice (level %v) gives different text: %s", n, lvl, diffText(t1, t2)), cj)
					return
				}
				if !bytes.Equal(m.RawData[:cap(m.RawData)], snap) || !bytes.Equal(m.RawData, junk) {
					c.Violate("display-modifies-raw-bytes", fmt.Sprintf("displaying a non-RTCM message of %d bytes (level %v) changed its raw bytes or the spare capacity of their buffer: %s", n, lvl, firstDiff(m.RawData[:cap(m.RawData)], snap)), cj)
					return
				}
				if li == 1 && !strings.Contains(t1, fmt.Sprintf("%d bytes", n)) {
					c.Violate("differs-from-canonical", fmt.Sprintf("the display of a non-RTCM message of %d bytes does not state its length: %q", n, clip(t1)), cj)
					return
				}
				c.Count("non_rtcm_displays_checked", 1)
			}
			for j := range spare {
				if spare[j] != 0xA5 {
					c.Violate("display-modifies-raw-bytes", fmt.Sprintf("decoding and displaying %d bytes of non-RTCM data wrote into the spare capacity of the caller's buffer at offset %d", n, n+j), cj)
					return
				}
			}
		}
	}
}

func monC15(c *child.Ctx, replay json.RawMessage) {
	run := func(k detCase, cj []byte) {
		pool := framePool(k.PoolSeed)
		cn := buildCanon(pool)
		if k.Kind == "nonrtcm" {
			execC15NonRTCM(c, k, cj)
		} else if k.Kind == "history" {
			execC15History(c, k, cj, pool, cn)
		} else if k.Kind == "fanout" {
			execC15FanOut(c, k, cj, pool, cn)
		} else if k.Kind == "decodedcopies" {
			execC15DecodedCopies(c, k, cj, pool, cn)
		} else if k.Kind == "alltypes" {
			// found by the sweep over all types; the sweep is part of every run
		} else {
			execC15Concurrent(c, k, cj, pool, cn)
		}
	}
	if replay != nil {
		var k detCase
		json.Unmarshal(replay, &k)
		c.Begin(replay)
		reps := 1
		if k.Kind != "history" {
			reps = 50
		}
		for i := 0; i < reps && c.NViolations() == 0; i++ {
			run(k, replay)
		}
		c.Eval(1, true)
		return
	}
	r := ref.NewRand(c.Seed*533000401 + uint64(c.Batch)*553105243 + 15)
	poolSeed := c.Seed*7 + uint64(c.Batch)
	pool := framePool(poolSeed)
	cn := buildCanon(pool)
	c.Count("max_frame_pool_size", int64(len(pool)))
	nh := c.Share(c.Pick(120, 3000))
	for i := 0; i < nh; i++ {
		k := detCase{PoolSeed: poolSeed, Kind: "history", Seed: r.Uint64() >> 1}
		n := 200
		for j := 0; j < n; j++ {
			if j > 0 && r.Chance(1, 5) {
				k.Order = append(k.Order, k.Order[j-1]) // immediate repetition
			} else {
				k.Order = append(k.Order, r.Intn(len(pool)))
			}
		}
		cj := c.BeginV(k)
		execC15History(c, k, cj, pool, cn)
		c.Eval(ref.Hash64(cj), true)
		if i == 0 {
			c.Sample(map[string]interface{}{"kind": "history", "pool_size": len(pool), "order_prefix": k.Order[:20]})
		}
	}
	// every message type, displayed again and again by fresh handlers and as one message
	// value: the same frame reads the same every time (a title picked by walking a
	// map, a cache filled by whoever comes first, would not)
	for ty := c.Batch; ty < 4096; ty += c.NBatch {
		body := []byte{byte(ty >> 4), byte(ty << 4), 0x00, 0x21, 0x00, 0x00, 0x00}
		frame := ref.Frame(body)
		reps := 6
		if ty >= 1000 && ty <= 1300 || ty >= 4000 {
			reps = 48
		}
		first := ""
		var held *handler.Message
		for rep := 0; rep < reps; rep++ {
			func() {
				defer func() { recover() }() // crashes belong to C07 and C20
				h := handler.New(fixedStart, detLevels[rep%len(detLevels)])
				m, _ := h.GetMessage(append([]byte(nil), frame...))
				if m == nil {
					return
				}
				if held == nil {
					held = m
				}
				for _, mm := range []*handler.Message{m, held} {
					mm.LogLevel = slog.LevelInfo
					txt := stripTime(mm.String(), mm)
					if first == "" {
						first = txt
					} else if txt != first {
						cj, _ := json.Marshal(detCase{Kind: "alltypes", Order: []int{ty}})
						c.Violate("display-not-repeatable", fmt.Sprintf("a frame of type %d displayed %d times (fresh handlers, and one message value again and again) does not always read the same: %s", ty, rep+1, diffText(txt, first)), cj)
						rep = reps
						return
					}
				}
			}()
		}
		c.Count("types_displayed_repeatedly", 1)
	}
	// non-RTCM data of lengths around the longest frame (1029 bytes) and far beyond
	{
		k := detCase{Kind: "nonrtcm", Seed: r.Uint64() >> 1, Order: []int{1, 5, 6, 100, 101, 1023, 1026, 1028, 1029, 1030, 1031, 1032, 1033, 1040, 2048, 4097, r.Range(1034, 9000), r.Range(1034, 9000)}}
		if c.Batch%4 == 0 {
			k.Order = append(k.Order, 65535, 65536, 70001)
		}
		cj := c.BeginV(k)
		execC15NonRTCM(c, k, cj)
		c.Eval(ref.Hash64(cj), true)
	}
	nf := c.Share(c.Pick(80, 3000))
	for i := 0; i < nf; i++ {
		k := detCase{PoolSeed: poolSeed, Kind: "fanout", Procs: []int{16, 2, 4, 1}[r.Intn(4)], Seed: r.Uint64() >> 1}
		for j := 0; j < 40; j++ {
			k.Order = append(k.Order, r.Intn(len(pool)))
		}
		cj := c.BeginV(k)
		execC15FanOut(c, k, cj, pool, cn)
		c.Eval(ref.Hash64(cj), true)
	}
	ndc := c.Share(c.Pick(80, 3000))
	for i := 0; i < ndc; i++ {
		k := detCase{PoolSeed: poolSeed, Kind: "decodedcopies", Seed: r.Uint64() >> 1}
		for j := 0; j < 24; j++ {
			k.Order = append(k.Order, r.Intn(len(pool)))
		}
		cj := c.BeginV(k)
		execC15DecodedCopies(c, k, cj, pool, cn)
		c.Eval(ref.Hash64(cj), true)
	}
	nc := c.Share(c.Pick(40, 1500))
	for i := 0; i < nc; i++ {
		k := detCase{PoolSeed: poolSeed, Kind: "concurrent", Handlers: r.Range(2, 16), Consumers: r.Range(2, 4), Procs: []int{16, 2, 4}[r.Intn(3)], Seed: r.Uint64() >> 1}
		cj := c.BeginV(k)
		execC15Concurrent(c, k, cj, pool, cn)
		c.Eval(ref.Hash64(cj), true)
		if i == 0 {
			c.Sample(k)
		}
	}
}
