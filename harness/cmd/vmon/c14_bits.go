package main

import (
	"encoding/json"
	"math/big"

	"github.com/goblimey/go-ntrip/rtcm/utils"

	"verifharness/child"
	"verifharness/ref"
)

func init() { monitors["C14"] = monC14 }

type bitsCase struct {
	Buf    string `json:"buf"`
	Pos    uint   `json:"pos"`
	Width  uint   `json:"width"`
	Signed bool   `json:"signed"`
}

func (k bitsCase) bytes() []byte {
	b := make([]byte, len(k.Buf)/2)
	for i := range b {
		var v byte
		for j := 0; j < 2; j++ {
			ch := k.Buf[2*i+j]
			v <<= 4
			switch {
			case ch >= '0' && ch <= '9':
				v |= ch - '0'
			case ch >= 'a' && ch <= 'f':
				v |= ch - 'a' + 10
			}
		}
		b[i] = v
	}
	return b
}

// checkBits compares one extraction with the math/big oracle, and repeats it on a
// copy of the buffer with every bit outside the field complemented.
func checkBits(c *child.Ctx, buf []byte, pos, width uint, signed bool) {
	var want *big.Int
	var got *big.Int
	if signed {
		want = ref.BitsBigSigned(buf, pos, width)
		got = big.NewInt(utils.GetBitsAsInt64(buf, pos, width))
	} else {
		want = ref.BitsBig(buf, pos, width)
		got = new(big.Int).SetUint64(utils.GetBitsAsUint64(buf, pos, width))
	}
	mk := func() []byte {
		b, _ := json.Marshal(bitsCase{Buf: hexs(buf), Pos: pos, Width: width, Signed: signed})
		return b
	}
	if got.Cmp(want) != 0 {
		c.Violate("wrong-value", "extraction of "+mk2(pos, width, signed)+" returned "+got.String()+", the addressed bits are "+want.String(), mk())
		return
	}
	// complement everything outside the field
	cp := make([]byte, len(buf))
	for i := range buf {
		cp[i] = ^buf[i]
	}
	for b := pos; b < pos+width; b++ {
		mask := byte(1) << (7 - b%8)
		cp[b/8] = cp[b/8]&^mask | buf[b/8]&mask
	}
	var got2 *big.Int
	if signed {
		got2 = big.NewInt(utils.GetBitsAsInt64(cp, pos, width))
	} else {
		got2 = new(big.Int).SetUint64(utils.GetBitsAsUint64(cp, pos, width))
	}
	if got2.Cmp(want) != 0 {
		c.Violate("outside-bits-influence", "extraction of "+mk2(pos, width, signed)+" changed from "+want.String()+" to "+got2.String()+" when only bits outside the field were complemented", mk())
	}
}

func mk2(pos, width uint, signed bool) string {
	s := "unsigned"
	if signed {
		s = "signed"
	}
	b, _ := json.Marshal(map[string]interface{}{"pos": pos, "width": width, "kind": s})
	return string(b)
}

func monC14(c *child.Ctx, replay json.RawMessage) {
	if replay != nil {
		var k bitsCase
		json.Unmarshal(replay, &k)
		c.Begin(replay)
		checkBits(c, k.bytes(), k.Pos, k.Width, k.Signed)
		c.Eval(1, true)
		return
	}
	nontrivial := func(buf []byte, pos, width uint) bool {
		v := ref.BitsBig(buf, pos, width)
		return v.Sign() != 0 && (pos%8 != 0 || width > 8)
	}
	one := func(buf []byte, pos, width uint, signed bool) {
		if c.Thorough() || c.Batch == 0 {
			// the on-disk witness costs a write per case; the bit extractor cannot
			// crash the process except by an index panic, which recover() below sees
		}
		func() {
			defer func() {
				if r := recover(); r != nil {
					b, _ := json.Marshal(bitsCase{Buf: hexs(buf), Pos: pos, Width: width, Signed: signed})
					c.Violate("panic", "extraction panicked for a field inside the buffer", b)
				}
			}()
			checkBits(c, buf, pos, width, signed)
		}()
		sg := byte(0)
		if signed {
			sg = 1
		}
		c.Eval(ref.Hash64(buf, []byte{byte(pos), byte(pos >> 8), byte(width), sg}), nontrivial(buf, pos, width))
		if c.WantSample() && nontrivial(buf, pos, width) && width > 20 {
			c.Sample(bitsCase{Buf: hexs(buf), Pos: pos, Width: width, Signed: signed})
		}
	}

	// structured, exhaustive part: split over the batches by width
	for width := uint(1); width <= 64; width++ {
		if int(width)%c.NBatch != c.Batch%c.NBatch {
			continue
		}
		for _, byteOff := range []uint{0, 1, 7} {
			for align := uint(0); align < 8; align++ {
				pos := byteOff*8 + align
				nbytes := (pos+width+7)/8 + 1 // one spare byte after the field
				pats := [][]byte{}
				mkbuf := func(fill byte) []byte {
					b := make([]byte, nbytes)
					for i := range b {
						b[i] = fill
					}
					return b
				}
				setField := func(b []byte, v *big.Int) []byte {
					for i := uint(0); i < width; i++ {
						bit := v.Bit(int(width - 1 - i))
						p := pos + i
						mask := byte(1) << (7 - p%8)
						if bit == 1 {
							b[p/8] |= mask
						} else {
							b[p/8] &^= mask
						}
					}
					return b
				}
				pats = append(pats, mkbuf(0x00), mkbuf(0xFF), mkbuf(0xAA), mkbuf(0x55))
				// walking one / walking zero inside the field
				for i := uint(0); i < width; i++ {
					one1 := new(big.Int).Lsh(big.NewInt(1), i)
					pats = append(pats, setField(mkbuf(0x00), one1))
					all := new(big.Int).Sub(new(big.Int).Lsh(big.NewInt(1), width), big.NewInt(1))
					pats = append(pats, setField(mkbuf(0xFF), new(big.Int).Xor(all, one1)))
				}
				// minimum (1000..0) and maximum (0111..1) of the width, in both surroundings
				minv := new(big.Int).Lsh(big.NewInt(1), width-1)
				maxv := new(big.Int).Sub(minv, big.NewInt(1))
				pats = append(pats, setField(mkbuf(0x00), minv), setField(mkbuf(0xFF), minv), setField(mkbuf(0x00), maxv), setField(mkbuf(0xFF), maxv))
				for _, b := range pats {
					one(b, pos, width, false)
					if width >= 2 {
						one(b, pos, width, true)
					}
					// the same field ending exactly on the last bit of the buffer
					short := b[:(pos+width+7)/8]
					if (pos+width)%8 == 0 {
						one(short, pos, width, false)
						if width >= 2 {
							one(short, pos, width, true)
						}
					}
				}
			}
		}
	}
	c.SetExhaustive(true)

	// random part
	r := ref.NewRand(c.Seed*1000003 + uint64(c.Batch))
	n := c.Share(c.Pick(10000000, 400000000))
	for i := 0; i < n; i++ {
		blen := r.Range(1, 24)
		buf := r.Bytes(blen)
		switch r.Intn(8) {
		case 0:
			for j := range buf {
				buf[j] = 0xFF
			}
		case 1:
			for j := range buf {
				buf[j] = 0
			}
			buf[r.Intn(blen)] = byte(1 << uint(r.Intn(8)))
		}
		maxw := blen * 8
		if maxw > 64 {
			maxw = 64
		}
		width := uint(r.Range(1, maxw))
		pos := uint(r.Range(0, blen*8-int(width)))
		signed := width >= 2 && r.Chance(1, 2)
		one(buf, pos, width, signed)
	}
}
