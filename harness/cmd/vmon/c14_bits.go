package main

import (
	"encoding/json"
	"fmt"
	"math/big"
	"sync"
	"sync/atomic"
	"syscall"
	"time"

	"github.com/goblimey/go-ntrip/rtcm/utils"

	"verifharness/child"
	"verifharness/ref"
)

func init() {
	monitors["C14"] = monC14
	// the very first extractions of the process: twelve goroutines released together
	preludes["C14"] = func(c *child.Ctx) {
		r := ref.NewRand(c.Seed*977 + uint64(c.Batch)*31 + 14)
		type job struct {
			buf        []byte
			pos, width uint
			signed     bool
		}
		var jobs [12][]job
		for g := range jobs {
			for i := 0; i < 200; i++ {
				blen := r.Range(1, 20)
				buf := r.Bytes(blen)
				for j := range buf {
					buf[j] |= 0x11 // no zero results by accident
				}
				maxw := blen * 8
				if maxw > 64 {
					maxw = 64
				}
				width := uint(r.Range(1, maxw))
				jobs[g] = append(jobs[g], job{buf, uint(r.Range(0, blen*8-int(width))), width, width >= 2 && i%2 == 0})
			}
		}
		start := make(chan struct{})
		var wg sync.WaitGroup
		var bad atomic.Value
		for g := range jobs {
			wg.Add(1)
			go func(g int) {
				defer wg.Done()
				defer func() {
					if rr := recover(); rr != nil {
						bad.Store([2]string{fmt.Sprintf("one of the first extractions of the process panicked: %v", rr), "{}"})
					}
				}()
				<-start
				for _, j := range jobs[g] {
					var want, got *big.Int
					if j.signed {
						want, got = ref.BitsBigSigned(j.buf, j.pos, j.width), big.NewInt(utils.GetBitsAsInt64(j.buf, j.pos, j.width))
					} else {
						want, got = ref.BitsBig(j.buf, j.pos, j.width), new(big.Int).SetUint64(utils.GetBitsAsUint64(j.buf, j.pos, j.width))
					}
					if got.Cmp(want) != 0 {
						cj, _ := json.Marshal(bitsCase{Buf: hexs(j.buf), Pos: j.pos, Width: j.width, Signed: j.signed})
						bad.Store([2]string{"among the very first extractions of a process, made by twelve goroutines at the same time: extraction of " + mk2(j.pos, j.width, j.signed) + " returned " + got.String() + ", the addressed bits are " + want.String(), string(cj)})
						return
					}
				}
			}(g)
		}
		close(start)
		wg.Wait()
		if v := bad.Load(); v != nil {
			c.Violate("wrong-value", v.([2]string)[0], []byte(v.([2]string)[1]))
		}
		c.Count("processes_whose_first_extractions_were_side_by_side", 1)
	}
}

type bitsCase struct {
	Buf    string `json:"buf"`
	Pos    uint   `json:"pos"`
	Width  uint   `json:"width"`
	Signed bool   `json:"signed"`
	// a large buffer is described by its length and the seed of its contents
	BigLen   int    `json:"big_len,omitempty"`
	FillSeed uint64 `json:"fill_seed,omitempty"`
	// history: what the same buffer (same backing array) held when the same field was
	// extracted just before
	PrevBuf string `json:"previous_contents,omitempty"`
	// before that, a field running off the end of the same buffer was asked for
	PriorOffEnd bool `json:"off_the_end_fetch_before,omitempty"`
}

func bigBuffer(n int, seed uint64) []byte {
	r := ref.NewRand(seed)
	b := make([]byte, n)
	for i := 0; i+8 <= n; i += 8 {
		v := r.Uint64()
		b[i], b[i+1], b[i+2], b[i+3], b[i+4], b[i+5], b[i+6], b[i+7] = byte(v), byte(v>>8), byte(v>>16), byte(v>>24), byte(v>>32), byte(v>>40), byte(v>>48), byte(v>>56)
	}
	return b
}

// checkBig checks fields of a large buffer against the oracle applied to the few
// bytes the field occupies (the oracle is position independent).
func checkBig(c *child.Ctx, buf []byte, k bitsCase) {
	first := k.Pos / 8
	last := (k.Pos + k.Width - 1) / 8
	window := buf[first : last+1]
	rel := k.Pos - first*8
	var want, got *big.Int
	if k.Signed {
		want = ref.BitsBigSigned(window, rel, k.Width)
		got = big.NewInt(utils.GetBitsAsInt64(buf, k.Pos, k.Width))
	} else {
		want = ref.BitsBig(window, rel, k.Width)
		got = new(big.Int).SetUint64(utils.GetBitsAsUint64(buf, k.Pos, k.Width))
	}
	if got.Cmp(want) != 0 {
		cj, _ := json.Marshal(k)
		c.Violate("wrong-value", "extraction of "+mk2(k.Pos, k.Width, k.Signed)+" from a buffer of "+fmt.Sprint(len(buf))+" bytes returned "+got.String()+", the addressed bits are "+want.String(), cj)
	}
	c.Count("large_buffer_extractions", 1)
}

// checkHistory extracts the same field twice from one backing array whose contents
// change in between: each result must be that of the bits the buffer holds then.
func checkHistory(c *child.Ctx, k bitsCase) {
	prev, cur := unhex(k.PrevBuf), unhex(k.Buf)
	buf := make([]byte, len(cur))
	ext := func() *big.Int {
		if k.Signed {
			return big.NewInt(utils.GetBitsAsInt64(buf, k.Pos, k.Width))
		}
		return new(big.Int).SetUint64(utils.GetBitsAsUint64(buf, k.Pos, k.Width))
	}
	copy(buf, prev)
	ext()
	if k.PriorOffEnd {
		// an earlier fetch of a field that runs off the end of this buffer (it panics, or
		// is refused some other way): it must not change what later fetches return
		func() {
			defer func() { recover() }()
			utils.GetBitsAsUint64(buf, uint(len(buf)*8)-k.Width/2, k.Width+8)
		}()
		func() {
			defer func() { recover() }()
			utils.GetBitsAsInt64(buf, k.Pos+8, uint(len(buf)*8))
		}()
	}
	copy(buf, cur)
	got := ext()
	var want *big.Int
	if k.Signed {
		want = ref.BitsBigSigned(cur, k.Pos, k.Width)
	} else {
		want = ref.BitsBig(cur, k.Pos, k.Width)
	}
	if got.Cmp(want) != 0 {
		cj, _ := json.Marshal(k)
		c.Violate("wrong-value", "extraction of "+mk2(k.Pos, k.Width, k.Signed)+" returned "+got.String()+", the addressed bits are "+want.String()+" (the same field had just been extracted from the same buffer when it held other contents)", cj)
	}
	c.Count("refilled_buffer_extractions", 1)
}

func (k bitsCase) bytes() []byte {
	b := make([]byte, len(k.Buf)/2)
	for i := range b {
		var v byte
		for j := 0; j < 2; j++ {
			ch := k.Buf[2*i+j]
			v <<= 4
			switch {
			case ch >= '0' && ch <= '9':
				v |= ch - '0'
			case ch >= 'a' && ch <= 'f':
				v |= ch - 'a' + 10
			}
		}
		b[i] = v
	}
	return b
}

// checkBits compares one extraction with the math/big oracle, and repeats it on a
// copy of the buffer with every bit outside the field complemented.
func checkBits(c *child.Ctx, buf []byte, pos, width uint, signed bool) {
	var want *big.Int
	var got *big.Int
	if signed {
		want = ref.BitsBigSigned(buf, pos, width)
		got = big.NewInt(utils.GetBitsAsInt64(buf, pos, width))
	} else {
		want = ref.BitsBig(buf, pos, width)
		got = new(big.Int).SetUint64(utils.GetBitsAsUint64(buf, pos, width))
	}
	mk := func() []byte {
		b, _ := json.Marshal(bitsCase{Buf: hexs(buf), Pos: pos, Width: width, Signed: signed})
		return b
	}
	if got.Cmp(want) != 0 {
		c.Violate("wrong-value", "extraction of "+mk2(pos, width, signed)+" returned "+got.String()+", the addressed bits are "+want.String(), mk())
		return
	}
	// the same bytes as a sub-slice of a larger array: what lies behind the slice (its
	// spare capacity - the next message in a read buffer) is left alone
	{
		big2 := make([]byte, len(buf)+16)
		copy(big2, buf)
		for i := len(buf); i < len(big2); i++ {
			big2[i] = 0xC3
		}
		sub := big2[:len(buf)]
		var g3 *big.Int
		if signed {
			g3 = big.NewInt(utils.GetBitsAsInt64(sub, pos, width))
		} else {
			g3 = new(big.Int).SetUint64(utils.GetBitsAsUint64(sub, pos, width))
		}
		if g3.Cmp(want) != 0 {
			c.Violate("wrong-value", "extraction of "+mk2(pos, width, signed)+" from a sub-slice of a larger array returned "+g3.String()+", the addressed bits are "+want.String(), mk())
			return
		}
		for i := len(buf); i < len(big2); i++ {
			if big2[i] != 0xC3 {
				c.Violate("outside-bits-influence", fmt.Sprintf("extraction of %s wrote to byte %d behind the end of the slice it was given (its spare capacity)", mk2(pos, width, signed), i-len(buf)), mk())
				return
			}
		}
	}
	// complement everything outside the field
	cp := make([]byte, len(buf))
	for i := range buf {
		cp[i] = ^buf[i]
	}
	for b := pos; b < pos+width; b++ {
		mask := byte(1) << (7 - b%8)
		cp[b/8] = cp[b/8]&^mask | buf[b/8]&mask
	}
	var got2 *big.Int
	if signed {
		got2 = big.NewInt(utils.GetBitsAsInt64(cp, pos, width))
	} else {
		got2 = new(big.Int).SetUint64(utils.GetBitsAsUint64(cp, pos, width))
	}
	if got2.Cmp(want) != 0 {
		c.Violate("outside-bits-influence", "extraction of "+mk2(pos, width, signed)+" changed from "+want.String()+" to "+got2.String()+" when only bits outside the field were complemented", mk())
	}
}

func mk2(pos, width uint, signed bool) string {
	s := "unsigned"
	if signed {
		s = "signed"
	}
	b, _ := json.Marshal(map[string]interface{}{"pos": pos, "width": width, "kind": s})
	return string(b)
}

func monC14(c *child.Ctx, replay json.RawMessage) {
	// an extraction is a pure computation: one that is found parked on a lock or a
	// channel inside the repository's code in six samples a second apart, while nothing
	// else moves, will never return (the logical criterion of waitOrHang)
	go waitOrHang(make(chan struct{}), 12*time.Hour, "a bit-field extraction did not return")
	if replay != nil {
		var k bitsCase
		json.Unmarshal(replay, &k)
		c.Begin(replay)
		switch {
		case k.BigLen > 0:
			checkBig(c, bigBuffer(k.BigLen, k.FillSeed), k)
		case k.PrevBuf != "":
			checkHistory(c, k)
		default:
			checkBits(c, k.bytes(), k.Pos, k.Width, k.Signed)
		}
		c.Eval(1, true)
		return
	}
	nontrivial := func(buf []byte, pos, width uint) bool {
		v := ref.BitsBig(buf, pos, width)
		return v.Sign() != 0 && (pos%8 != 0 || width > 8)
	}
	one := func(buf []byte, pos, width uint, signed bool) {
		if c.Thorough() || c.Batch == 0 {
			// the on-disk witness costs a write per case; the bit extractor cannot
			// crash the process except by an index panic, which recover() below sees
		}
		func() {
			defer func() {
				if r := recover(); r != nil {
					b, _ := json.Marshal(bitsCase{Buf: hexs(buf), Pos: pos, Width: width, Signed: signed})
					c.Violate("panic", "extraction panicked for a field inside the buffer", b)
				}
			}()
			checkBits(c, buf, pos, width, signed)
		}()
		sg := byte(0)
		if signed {
			sg = 1
		}
		c.Eval(ref.Hash64(buf, []byte{byte(pos), byte(pos >> 8), byte(width), sg}), nontrivial(buf, pos, width))
		if c.WantSample() && nontrivial(buf, pos, width) && width > 20 {
			c.Sample(bitsCase{Buf: hexs(buf), Pos: pos, Width: width, Signed: signed})
		}
	}

	// structured, exhaustive part: split over the batches by width
	for width := uint(1); width <= 64; width++ {
		if int(width)%c.NBatch != c.Batch%c.NBatch {
			continue
		}
		for _, byteOff := range []uint{0, 1, 7} {
			for align := uint(0); align < 8; align++ {
				pos := byteOff*8 + align
				nbytes := (pos+width+7)/8 + 1 // one spare byte after the field
				pats := [][]byte{}
				mkbuf := func(fill byte) []byte {
					b := make([]byte, nbytes)
					for i := range b {
						b[i] = fill
					}
					return b
				}
				setField := func(b []byte, v *big.Int) []byte {
					for i := uint(0); i < width; i++ {
						bit := v.Bit(int(width - 1 - i))
						p := pos + i
						mask := byte(1) << (7 - p%8)
						if bit == 1 {
							b[p/8] |= mask
						} else {
							b[p/8] &^= mask
						}
					}
					return b
				}
				pats = append(pats, mkbuf(0x00), mkbuf(0xFF), mkbuf(0xAA), mkbuf(0x55))
				// walking one / walking zero inside the field
				for i := uint(0); i < width; i++ {
					one1 := new(big.Int).Lsh(big.NewInt(1), i)
					pats = append(pats, setField(mkbuf(0x00), one1))
					all := new(big.Int).Sub(new(big.Int).Lsh(big.NewInt(1), width), big.NewInt(1))
					pats = append(pats, setField(mkbuf(0xFF), new(big.Int).Xor(all, one1)))
				}
				// minimum (1000..0) and maximum (0111..1) of the width, in both surroundings
				minv := new(big.Int).Lsh(big.NewInt(1), width-1)
				maxv := new(big.Int).Sub(minv, big.NewInt(1))
				pats = append(pats, setField(mkbuf(0x00), minv), setField(mkbuf(0xFF), minv), setField(mkbuf(0x00), maxv), setField(mkbuf(0xFF), maxv))
				for _, b := range pats {
					one(b, pos, width, false)
					if width >= 2 {
						one(b, pos, width, true)
					}
					// the same field ending exactly on the last bit of the buffer
					short := b[:(pos+width+7)/8]
					if (pos+width)%8 == 0 {
						one(short, pos, width, false)
						if width >= 2 {
							one(short, pos, width, true)
						}
					}
				}
			}
		}
	}
	c.SetExhaustive(true)

	// random part
	r := ref.NewRand(c.Seed*1000003 + uint64(c.Batch))
	n := c.Share(c.Pick(10000000, 400000000))
	for i := 0; i < n; i++ {
		blen := r.Range(1, 24)
		buf := r.Bytes(blen)
		switch r.Intn(8) {
		case 0:
			for j := range buf {
				buf[j] = 0xFF
			}
		case 1:
			for j := range buf {
				buf[j] = 0
			}
			buf[r.Intn(blen)] = byte(1 << uint(r.Intn(8)))
		}
		maxw := blen * 8
		if maxw > 64 {
			maxw = 64
		}
		width := uint(r.Range(1, maxw))
		pos := uint(r.Range(0, blen*8-int(width)))
		signed := width >= 2 && r.Chance(1, 2)
		one(buf, pos, width, signed)
	}
	// refilled buffers: the same field of the same backing array, contents changed
	// in between (a read buffer reused for the next frame)
	nh := c.Share(c.Pick(400000, 8000000))
	for i := 0; i < nh && c.NViolations() == 0; i++ {
		blen := r.Range(1, 16)
		prev := r.Bytes(blen)
		cur := r.Bytes(blen)
		maxw := blen * 8
		if maxw > 64 {
			maxw = 64
		}
		width := uint(r.Range(1, maxw))
		pos := uint(r.Range(0, blen*8-int(width)))
		if i%3 == 0 {
			// only the field's first or last bit differs
			copy(cur, prev)
			b := pos
			if i%2 == 0 {
				b = pos + width - 1
			}
			cur[b/8] ^= 1 << (7 - b%8)
		}
		k := bitsCase{Buf: hexs(cur), PrevBuf: hexs(prev), Pos: pos, Width: width, Signed: width >= 2 && r.Chance(1, 2), PriorOffEnd: i%4 == 1}
		checkHistory(c, k)
		c.EvalN(1)
	}
	// several decoders extracting fields at the same time, each from its own buffer
	{
		nc := c.Share(c.Pick(400000, 8000000))
		var wg sync.WaitGroup
		var bad atomic.Value
		for g := 0; g < 4; g++ {
			wg.Add(1)
			go func(g int) {
				defer wg.Done()
				defer func() {
					if rr := recover(); rr != nil {
						bad.Store([2]string{fmt.Sprintf("extraction of a field inside the buffer panicked while other goroutines were extracting: %v", rr), "{}"})
					}
				}()
				rr := ref.NewRand(r.Uint64() + uint64(g)*7919)
				for i := 0; i < nc/4 && bad.Load() == nil; i++ {
					blen := rr.Range(1, 20)
					buf := rr.Bytes(blen)
					maxw := blen * 8
					if maxw > 64 {
						maxw = 64
					}
					width := uint(rr.Range(1, maxw))
					pos := uint(rr.Range(0, blen*8-int(width)))
					signed := width >= 2 && i%2 == 0
					var want, got *big.Int
					if signed {
						want, got = ref.BitsBigSigned(buf, pos, width), big.NewInt(utils.GetBitsAsInt64(buf, pos, width))
					} else {
						want, got = ref.BitsBig(buf, pos, width), new(big.Int).SetUint64(utils.GetBitsAsUint64(buf, pos, width))
					}
					if got.Cmp(want) != 0 {
						cj, _ := json.Marshal(bitsCase{Buf: hexs(buf), Pos: pos, Width: width, Signed: signed})
						bad.Store([2]string{"extraction of " + mk2(pos, width, signed) + " returned " + got.String() + ", the addressed bits are " + want.String() + " (three other goroutines were extracting fields from their own buffers at the same time)", string(cj)})
					}
				}
			}(g)
		}
		wg.Wait()
		if v := bad.Load(); v != nil {
			c.Violate("wrong-value", v.([2]string)[0], []byte(v.([2]string)[1]))
		}
		c.Count("concurrent_extractions", int64(nc))
		c.EvalN(1)
	}
	// several readers of ONE buffer at the same time (reading is sharing), and a buffer
	// in memory that cannot be written (a read-only mapping): extraction only reads
	{
		ns := c.Share(c.Pick(400000, 8000000))
		shared := r.Bytes(64)
		for j := range shared {
			if j%3 == 0 {
				shared[j] |= 0x80 // plenty of negative signed fields
			}
		}
		var wg sync.WaitGroup
		var bad atomic.Value
		for g := 0; g < 4; g++ {
			wg.Add(1)
			go func(g int) {
				defer wg.Done()
				rr := ref.NewRand(r.Uint64() + uint64(g)*15485863)
				for i := 0; i < ns/4 && bad.Load() == nil; i++ {
					width := uint(rr.Range(1, 64))
					pos := uint(rr.Range(0, 64*8-int(width)))
					signed := width >= 2 && i%2 == 0
					var want, got *big.Int
					if signed {
						want, got = ref.BitsBigSigned(shared, pos, width), big.NewInt(utils.GetBitsAsInt64(shared, pos, width))
					} else {
						want, got = ref.BitsBig(shared, pos, width), new(big.Int).SetUint64(utils.GetBitsAsUint64(shared, pos, width))
					}
					if got.Cmp(want) != 0 {
						cj, _ := json.Marshal(bitsCase{Buf: hexs(shared), Pos: pos, Width: width, Signed: signed})
						bad.Store([2]string{"extraction of " + mk2(pos, width, signed) + " returned " + got.String() + ", the addressed bits are " + want.String() + " (three other goroutines were reading fields of the same buffer at the same time)", string(cj)})
					}
				}
			}(g)
		}
		wg.Wait()
		if v := bad.Load(); v != nil {
			c.Violate("wrong-value", v.([2]string)[0], []byte(v.([2]string)[1]))
		}
		c.Count("shared_buffer_extractions", int64(ns))
		// read-only memory: a write faults and ends this process (reported as a crash)
		if mem, err := syscall.Mmap(-1, 0, 4096, syscall.PROT_READ|syscall.PROT_WRITE, syscall.MAP_ANON|syscall.MAP_PRIVATE); err == nil {
			copy(mem, r.Bytes(4096))
			for j := 0; j < 4096; j += 2 {
				mem[j] |= 0x80
			}
			if syscall.Mprotect(mem, syscall.PROT_READ) == nil {
				ro := mem[:256]
				for i := 0; i < 20000; i++ {
					width := uint(r.Range(1, 64))
					pos := uint(r.Range(0, 256*8-int(width)))
					k := bitsCase{Buf: "(read-only mapping)", Pos: pos, Width: width, Signed: width >= 2 && i%2 == 0}
					if i%256 == 0 {
						c.BeginV(k)
					}
					var want, got *big.Int
					if k.Signed {
						want, got = ref.BitsBigSigned(ro, pos, width), big.NewInt(utils.GetBitsAsInt64(ro, pos, width))
					} else {
						want, got = ref.BitsBig(ro, pos, width), new(big.Int).SetUint64(utils.GetBitsAsUint64(ro, pos, width))
					}
					if got.Cmp(want) != 0 {
						kk := k
						kk.Buf = hexs(ro)
						cj, _ := json.Marshal(kk)
						c.Violate("wrong-value", "extraction of "+mk2(pos, width, k.Signed)+" from a read-only buffer returned "+got.String()+", the addressed bits are "+want.String(), cj)
						break
					}
				}
				c.Count("extractions_from_read_only_memory", 20000)
			}
			syscall.Munmap(mem)
		}
		// the extractions package utils made while it was still initialising its own
		// variables (an overlay file of the check, see vhook_src/utils_init_probe.go.src)
		if c.Batch == 0 {
			for _, pr := range utils.VerifInitProbes {
				k := bitsCase{Buf: hexs(utils.VerifProbeBuf), Pos: pr.Pos, Width: pr.Width, Signed: pr.Signed}
				cj, _ := json.Marshal(k)
				var want, got *big.Int
				if pr.Signed {
					want, got = ref.BitsBigSigned(utils.VerifProbeBuf, pr.Pos, pr.Width), big.NewInt(pr.I)
				} else {
					want, got = ref.BitsBig(utils.VerifProbeBuf, pr.Pos, pr.Width), new(big.Int).SetUint64(pr.U)
				}
				if pr.Panicked {
					c.Violate("crash", "extraction of "+mk2(pr.Pos, pr.Width, pr.Signed)+" panicked when it was called while package utils was initialising its variables", cj)
				} else if got.Cmp(want) != 0 {
					c.Violate("wrong-value", "extraction of "+mk2(pr.Pos, pr.Width, pr.Signed)+" made while package utils was initialising its variables (before its init functions) returned "+got.String()+", the addressed bits are "+want.String(), cj)
				}
				c.Count("extractions_during_package_initialisation", 1)
			}
		}
		// a buffer that ends where accessible memory ends (a mapped file, a buffer handed
		// over by C code): the page behind it is inaccessible, so a load that reaches
		// past the last byte of the buffer faults even if the extra bits are masked away
		if mem, err := syscall.Mmap(-1, 0, 8192, syscall.PROT_READ|syscall.PROT_WRITE, syscall.MAP_ANON|syscall.MAP_PRIVATE); err == nil {
			copy(mem, r.Bytes(4096))
			if syscall.Mprotect(mem[4096:], syscall.PROT_NONE) == nil {
				for n := 1; n <= 40; n++ {
					edge := mem[4096-n : 4096 : 4096]
					for width := uint(1); width <= 64 && int(width) <= n*8; width++ {
						for _, pos := range []uint{uint(n*8) - width, uint(n*8) - width - uint(r.Intn(8)), uint(r.Range(0, n*8-int(width)))} {
							if int(pos) < 0 || int(pos+width) > n*8 {
								continue
							}
							for _, signed := range []bool{false, true} {
								if signed && width < 2 {
									continue
								}
								k := bitsCase{Buf: hexs(edge), Pos: pos, Width: width, Signed: signed}
								cj := c.BeginV(k) // a fault ends the process: the case is on record first
								var want, got *big.Int
								if signed {
									want, got = ref.BitsBigSigned(edge, pos, width), big.NewInt(utils.GetBitsAsInt64(edge, pos, width))
								} else {
									want, got = ref.BitsBig(edge, pos, width), new(big.Int).SetUint64(utils.GetBitsAsUint64(edge, pos, width))
								}
								if got.Cmp(want) != 0 {
									c.Violate("wrong-value", "extraction of "+mk2(pos, width, signed)+" from a buffer that ends at the end of accessible memory returned "+got.String()+", the addressed bits are "+want.String(), cj)
								}
								c.Count("extractions_at_the_end_of_accessible_memory", 1)
							}
						}
					}
				}
				// and a buffer that goes on into inaccessible memory, the field lying wholly
				// in front of it: only the bytes that hold bits of the field may be touched
				for n := 1; n <= 24; n++ {
					reach := mem[4096-n : 4096+16 : 4096+16]
					for width := uint(1); width <= 64 && int(width) <= n*8; width++ {
						for _, pos := range []uint{uint(n*8) - width, uint(n*8) - width - uint(r.Intn(8)), 0} {
							if int(pos) < 0 || int(pos+width) > n*8 {
								continue
							}
							for _, signed := range []bool{false, true} {
								if signed && width < 2 {
									continue
								}
								k := bitsCase{Buf: hexs(reach[:n]) + "(followed by 16 inaccessible bytes of the same slice)", Pos: pos, Width: width, Signed: signed}
								cj := c.BeginV(k)
								var want, got *big.Int
								if signed {
									want, got = ref.BitsBigSigned(reach[:n], pos, width), big.NewInt(utils.GetBitsAsInt64(reach, pos, width))
								} else {
									want, got = ref.BitsBig(reach[:n], pos, width), new(big.Int).SetUint64(utils.GetBitsAsUint64(reach, pos, width))
								}
								if got.Cmp(want) != 0 {
									c.Violate("wrong-value", "extraction of "+mk2(pos, width, signed)+" from a buffer whose later bytes are inaccessible returned "+got.String()+", the addressed bits are "+want.String(), cj)
								}
								c.Count("extractions_in_front_of_inaccessible_bytes", 1)
							}
						}
					}
				}
				syscall.Mprotect(mem[4096:], syscall.PROT_READ|syscall.PROT_WRITE)
			}
			syscall.Munmap(mem)
		}
		// the mirror image: the bytes IN FRONT of the field are inaccessible (the first
		// page of the mapping), the field begins at or just behind the boundary
		if mem, err := syscall.Mmap(-1, 0, 8192, syscall.PROT_READ|syscall.PROT_WRITE, syscall.MAP_ANON|syscall.MAP_PRIVATE); err == nil {
			copy(mem[4096:], r.Bytes(4096))
			if syscall.Mprotect(mem[:4096], syscall.PROT_NONE) == nil {
				behind := mem[4096-16:]
				vis := mem[4096:]
				for startBit := uint(0); startBit < 40; startBit++ {
					for width := uint(1); width <= 64; width++ {
						for _, signed := range []bool{false, true} {
							if signed && width < 2 {
								continue
							}
							pos := 16*8 + startBit
							k := bitsCase{Buf: "(16 inaccessible bytes)" + hexs(vis[:16]), Pos: pos, Width: width, Signed: signed}
							cj := c.BeginV(k)
							var want, got *big.Int
							if signed {
								want, got = ref.BitsBigSigned(vis, startBit, width), big.NewInt(utils.GetBitsAsInt64(behind, pos, width))
							} else {
								want, got = ref.BitsBig(vis, startBit, width), new(big.Int).SetUint64(utils.GetBitsAsUint64(behind, pos, width))
							}
							if got.Cmp(want) != 0 {
								c.Violate("wrong-value", "extraction of "+mk2(pos, width, signed)+" from a buffer whose first 16 bytes are inaccessible returned "+got.String()+", the addressed bits are "+want.String(), cj)
							}
							c.Count("extractions_behind_inaccessible_bytes", 1)
						}
					}
				}
				syscall.Mprotect(mem[:4096], syscall.PROT_READ|syscall.PROT_WRITE)
			}
			syscall.Munmap(mem)
		}
		c.EvalN(1)
	}
	// large buffers: fields next to every multiple of 64 KiB (and of 16 MiB in the
	// thorough tier), where a narrow index type would wrap
	if c.Batch == 0 || c.Thorough() {
		sizes := []int{65535, 65536, 65537, 65544, 131072 + 9, 262144 + 9, 1<<20 + 9}
		if c.Thorough() && c.Batch%8 == 0 {
			sizes = append(sizes, 1<<24+9, 1<<25+9, 1<<29+9)
		}
		for _, n := range sizes {
			seed := r.Uint64() >> 1
			buf := bigBuffer(n, seed)
			var edges []int
			for e := 65536; e < n; e *= 2 {
				edges = append(edges, e)
			}
			edges = append(edges, n)
			for _, e := range edges {
				for j := 0; j < 600; j++ {
					width := uint(r.Range(1, 64))
					// a field starting up to 9 bytes before the edge, possibly straddling it
					lo := e*8 - 72
					hi := e*8 + 8
					if hi+64 > n*8 {
						hi = n*8 - int(width)
					}
					if lo < 0 || hi < lo {
						continue
					}
					pos := uint(r.Range(lo, hi))
					if int(pos+width) > n*8 {
						continue
					}
					checkBig(c, buf, bitsCase{BigLen: n, FillSeed: seed, Pos: pos, Width: width, Signed: width >= 2 && j%2 == 0})
					c.EvalN(1)
				}
			}
		}
	}
}
