// vmon holds the runtime monitors.  One invocation runs one batch of one property
// in this process; the driver (vcheck) spawns it and contains its crashes.
package main

import (
	"encoding/json"
	"fmt"
	"io"
	"log/slog"
	"os"
	"os/exec"
	"path/filepath"
	"regexp"
	"runtime"
	"strings"
	"sync"
	"sync/atomic"
	"time"

	"verifharness/child"
)

// A monitor generates its batch's cases and executes them; when c.Replay is set it
// re-executes only the case stored in that file.
type monitor func(c *child.Ctx, replayCase json.RawMessage)

var monitors = map[string]monitor{}

// preludes run before anything else in the process has touched the code under test.
var preludes = map[string]func(*child.Ctx){}

func main() {
	c := child.Parse()
	m, ok := monitors[c.Prop]
	if !ok {
		fmt.Fprintln(os.Stderr, "vmon: no monitor for", c.Prop)
		os.Exit(3)
	}
	var rc json.RawMessage
	if c.Replay != "" {
		b, err := os.ReadFile(c.Replay)
		if err != nil {
			fmt.Fprintln(os.Stderr, "vmon: cannot read replay file:", err)
			os.Exit(3)
		}
		var rf struct {
			Case json.RawMessage `json:"case"`
		}
		if err := json.Unmarshal(b, &rf); err != nil || len(rf.Case) == 0 || string(rf.Case) == "null" {
			fmt.Fprintln(os.Stderr, "vmon: replay file has no case")
			os.Exit(3)
		}
		rc = rf.Case
	}
	// a single case handed to a process of its own (see runInPlainProcess)
	if sc := os.Getenv("VMON_SUBCASE"); sc != "" && rc == nil {
		b, err := os.ReadFile(sc)
		if err != nil {
			fmt.Println("SUBCASE-ERROR", err)
			os.Exit(3)
		}
		m(c, json.RawMessage(b))
		for _, v := range c.ViolationList() {
			vb, _ := json.Marshal(v)
			fmt.Printf("PRELUDE-VIOLATION %s\n", vb)
		}
		for k, v := range c.CounterList() {
			fmt.Printf("SUB-COUNTER %s %d\n", k, v)
		}
		fmt.Println("PRELUDE-DONE")
		os.Exit(0)
	}
	// in some processes the very first use of the code under test is made by several
	// goroutines at once (anything initialised lazily meets its first callers together)
	if p, ok := preludes[c.Prop]; ok && rc == nil {
		if os.Getenv("VMON_PRELUDE_ONLY") != "" {
			// a fresh process started only to make its first calls side by side: report
			// what it saw on standard output and leave
			p(c)
			for _, v := range c.ViolationList() {
				b, _ := json.Marshal(v)
				fmt.Printf("PRELUDE-VIOLATION %s\n", b)
			}
			fmt.Println("PRELUDE-DONE")
			os.Exit(0)
		}
		p(c)
		// the window in which lazily initialised state can be caught half-built is a
		// microsecond at the start of a process: give it more processes
		freshProcesses(c, c.Pick(24, 200))
	}
	// the process-wide default logger is the embedding program's business: in a third
	// of the processes it is a structured logger that records everything, down to
	// levels below Debug (into the void), so that whatever the code under test logs
	// lazily is really formatted
	if c.Batch%3 == 2 || rc != nil { // (and in replays: the case may come from such a process)
		slog.SetDefault(slog.New(slog.NewTextHandler(io.Discard, &slog.HandlerOptions{Level: slog.LevelDebug - 8})))
		c.Count("processes_whose_default_logger_records_everything", 1)
	}
	// the process's local time zone is the machine's business too: in a quarter of the
	// processes it is a zone with daylight saving time (or, where no zone can be loaded,
	// one with an odd fixed offset).  Nothing the code under test reports depends on it.
	if (c.Batch%4 == 1 || rc != nil) && os.Getenv("VMON_NOTZ") == "" { // (and in replays: the case may come from such a process)
		zones := []string{"Europe/London", "America/New_York", "Australia/Sydney", "Asia/Kathmandu"}
		if loc, err := time.LoadLocation(zones[(c.Batch/4)%len(zones)]); err == nil {
			time.Local = loc
		} else {
			time.Local = time.FixedZone("odd", 5*3600+45*60)
		}
		c.Count("processes_with_a_local_time_zone_other_than_utc", 1)
	}
	if os.Getenv("VMON_NOTZ") != "" {
		if _, err := time.LoadLocation("Europe/Paris"); err == nil {
			fmt.Fprintln(os.Stderr, "vmon: asked to run without a time zone database, but one can be loaded")
		} else {
			c.Count("processes_without_a_time_zone_database", 1)
		}
	}
	selfTest(c)
	m(c, rc)
	c.Finish()
}

// runInPlainProcess runs one case (as in replay mode) in a process of the same monitor
// built WITHOUT the race detector (vmon.plain, built by the driver for properties
// that ask for it) and takes over its violations and counters.  It is meant for
// long single-goroutine workloads, where the detector has nothing to watch and costs
// a factor of ten to forty.  It returns false if there is no such binary (the caller
// then runs the case in this process).
func runInPlainProcess(c *child.Ctx, caseJSON []byte, what string) bool {
	bin := filepath.Join(c.BinDir, "vmon.plain")
	if c.BinDir == "" {
		return false
	}
	if _, err := os.Stat(bin); err != nil {
		return false
	}
	return runInSubProcess(c, nil, bin, caseJSON, what)
}

// runInSubProcess runs one case in a process of the given monitor binary, started
// through the wrapper command if there is one (the wrapper receives the binary and
// its arguments as its own last arguments).  A process that ends without reporting
// is a crash of the case - unless the wrapper itself could not do its job, which it
// says by printing WRAPPER-UNAVAILABLE (then false is returned and nothing recorded).
func runInSubProcess(c *child.Ctx, wrapper []string, bin string, caseJSON []byte, what string) bool {
	f, err := os.CreateTemp(c.WorkDir, "subcase*.json")
	if err != nil {
		return false
	}
	f.Write(caseJSON)
	f.Close()
	defer os.Remove(f.Name())
	var args []string
	skip := false
	for _, a := range os.Args[1:] {
		if skip {
			skip = false
			continue
		}
		if a == "-out" || a == "-cur" || a == "--out" || a == "--cur" || a == "-replay" || a == "--replay" {
			skip = true
			continue
		}
		if strings.HasPrefix(a, "-out=") || strings.HasPrefix(a, "-cur=") || strings.HasPrefix(a, "--out=") || strings.HasPrefix(a, "--cur=") {
			continue
		}
		args = append(args, a)
	}
	args = append(args, "-out", os.DevNull, "-cur", os.DevNull)
	cmd := exec.Command(bin, args...)
	if len(wrapper) > 0 {
		cmd = exec.Command(wrapper[0], append(append(append([]string(nil), wrapper[1:]...), bin), args...)...)
	}
	cmd.Env = append(os.Environ(), "VMON_SUBCASE="+f.Name())
	done := make(chan struct{})
	var out []byte
	go func() { out, err = cmd.CombinedOutput(); close(done) }()
	for waiting := true; waiting; {
		select {
		case <-done:
			waiting = false
		case <-time.After(time.Second):
			tick() // the work is going on in the other process
		}
	}
	if strings.Contains(string(out), "WRAPPER-UNAVAILABLE") {
		return false
	}
	if !strings.Contains(string(out), "PRELUDE-DONE") {
		c.Violate("crash", fmt.Sprintf("%s, run in a process of its own, ended abnormally (%v):\n%s", what, err, clipText(string(out))), caseJSON)
		return true
	}
	for _, ln := range strings.Split(string(out), "\n") {
		if strings.HasPrefix(ln, "PRELUDE-VIOLATION ") {
			var v child.Violation
			if json.Unmarshal([]byte(ln[len("PRELUDE-VIOLATION "):]), &v) == nil {
				c.Violate(v.Signature, v.Detail, caseJSON)
			}
		}
		if strings.HasPrefix(ln, "SUB-COUNTER ") {
			var name string
			var n int64
			if _, e := fmt.Sscanf(ln, "SUB-COUNTER %s %d", &name, &n); e == nil && name != "violations_seen" {
				c.Count(name, n)
			}
		}
	}
	if len(wrapper) == 0 {
		c.Count("cases_run_in_a_process_without_the_race_detector", 1)
	}
	return true
}

// freshProcesses re-runs this program n times with VMON_PRELUDE_ONLY set (same
// property, own scratch files) and takes over the violations they report.
func freshProcesses(c *child.Ctx, n int) {
	done := 0
	sem := make(chan struct{}, 4)
	var mu sync.Mutex
	var wg sync.WaitGroup
	for i := 0; i < n; i++ {
		wg.Add(1)
		sem <- struct{}{}
		go func(i int) {
			defer wg.Done()
			defer func() { <-sem }()
			var args []string
			skip := false
			for _, a := range os.Args[1:] {
				if skip {
					skip = false
					continue
				}
				if a == "-out" || a == "-cur" || a == "--out" || a == "--cur" {
					skip = true
					continue
				}
				if strings.HasPrefix(a, "-out=") || strings.HasPrefix(a, "-cur=") || strings.HasPrefix(a, "--out=") || strings.HasPrefix(a, "--cur=") {
					continue
				}
				args = append(args, a)
			}
			args = append(args, "-out", os.DevNull, "-cur", os.DevNull)
			bin := os.Args[0]
			raced := false
			if rb := filepath.Join(c.BinDir, "vmon.race"); i%2 == 1 && c.BinDir != "" {
				// every other fresh process is the same monitor built with the race
				// detector: a half-built table is then seen whenever the first calls
				// overlap at all, not only when a reader lands inside the gap
				if _, e := os.Stat(rb); e == nil {
					bin, raced = rb, true
				}
			}
			cmd := exec.Command(bin, args...)
			cmd.Env = append(os.Environ(), "VMON_PRELUDE_ONLY=1", fmt.Sprintf("VMON_PRELUDE_INDEX=%d", i))
			out, err := cmd.CombinedOutput()
			mu.Lock()
			defer mu.Unlock()
			if raced {
				c.Count("fresh_processes_under_the_race_detector", 1)
			}
			if k := strings.Index(string(out), "WARNING: DATA RACE"); k >= 0 {
				c.Violate("data-race", "the race detector reported a data race among the first calls of a fresh process, made side by side:\n"+clipText(string(out)[k:]), nil)
				return
			}
			if !strings.Contains(string(out), "PRELUDE-DONE") {
				// it died: a crash among the first calls of a process
				c.Violate("crash", fmt.Sprintf("a fresh process whose first calls into the code under test were made side by side ended abnormally (%v):\n%s", err, clipText(string(out))), nil)
				return
			}
			done++
			for _, ln := range strings.Split(string(out), "\n") {
				if strings.HasPrefix(ln, "PRELUDE-VIOLATION ") {
					var v child.Violation
					if json.Unmarshal([]byte(ln[len("PRELUDE-VIOLATION "):]), &v) == nil {
						c.Violate(v.Signature, v.Detail, v.Case)
					}
				}
			}
		}(i)
	}
	wg.Wait()
	c.Count("fresh_processes_with_first_calls_side_by_side", int64(done))
}

// repoRoot is where the repository under test lives (always /repo for the registered checks).
var repoRoot = func() string {
	if v := os.Getenv("VERIF_REPO"); v != "" {
		return v
	}
	return "/repo"
}()

// repoFrame matches goroutine stack frames whose source file belongs to the repository.
var repoFrame = regexp.MustCompile(`\n\t` + regexp.QuoteMeta(repoRoot) + `/[^\n]*\.go:\d+`)

// progress is bumped by the monitors' own producers, consumers and readers each
// time they complete an operation; together with the goroutine states it tells a
// deadlock from a slow run.
var progress atomic.Int64

func tick() { progress.Add(1) }

// repoAllBlocked reports whether every goroutine that has a frame in the
// repository's source is blocked (chan send/receive, select, sync wait), and how
// many such goroutines there are.
func repoAllBlocked() (bool, int, string) {
	buf := make([]byte, 8<<20)
	n := runtime.Stack(buf, true)
	dump := string(buf[:n])
	allBlocked := true
	found := 0
	for _, g := range strings.Split(dump, "\n\n") {
		if !repoFrame.MatchString(g) {
			continue
		}
		found++
		hdr := g
		if i := strings.IndexByte(g, '\n'); i >= 0 {
			hdr = g[:i]
		}
		if !(strings.Contains(hdr, "chan send") || strings.Contains(hdr, "chan receive") || strings.Contains(hdr, "select") || strings.Contains(hdr, "sync.") || strings.Contains(hdr, "semacquire")) {
			allBlocked = false
		}
	}
	return allBlocked && found > 0, found, dump
}

// realStderr is the process's stderr as it was at start-up (some monitors point
// os.Stderr elsewhere for a while to keep the log small).
var realStderr = os.Stderr

func hangExit(what, verdict, dump string) {
	fmt.Fprintf(realStderr, "watchdog: %s\n", what)
	fmt.Fprintln(realStderr, "HANG-VERDICT: "+verdict)
	fmt.Fprintln(realStderr, dump)
	os.Exit(4)
}

// waitOrHang waits for done.  The verdict on a wait that does not end is logical,
// not wall-clock: it is a deadlock only if in six consecutive samples one second
// apart every goroutine with a repository frame is blocked and the monitors'
// progress counter (and the hook event counter) has not moved - nothing can ever
// make progress.  If the generous wall-clock maximum passes without that, the run
// is reported as busy, which the driver treats as inconclusive.
func waitOrHang(done <-chan struct{}, max time.Duration, what string) {
	waitOrHangX(done, max, what, false)
}

// waitOrHangGone is waitOrHang for waits that only the code under test can end
// (it has to close a channel or return): there, "no goroutine of the code under test
// is left at all" counts like "all of them are blocked" - the awaited event can
// never happen once the code that had to produce it has gone.
func waitOrHangGone(done <-chan struct{}, max time.Duration, what string) {
	waitOrHangX(done, max, what, true)
}

func waitOrHangX(done <-chan struct{}, max time.Duration, what string, goneCounts bool) {
	deadline := time.Now().Add(max)
	streak := 0
	last := int64(-1)
	for {
		select {
		case <-done:
			return
		case <-time.After(time.Second):
		}
		blocked, found, dump := repoAllBlocked()
		if goneCounts && found == 0 {
			blocked = true
			dump = "no goroutine of the code under test is left; the awaited event can never happen\n" + dump
		}
		p := progress.Load()
		if blocked && p == last {
			streak++
		} else {
			streak = 0
		}
		last = p
		if streak >= 6 {
			hangExit(what, "deadlock", dump)
		}
		if time.Now().After(deadline) {
			hangExit(what, "busy", dump)
		}
	}
}

// endless ends the process with the verdict "circling" when a stream handler has
// delivered far more messages than its input has bytes: every delivery takes at
// least one byte of input with it, so such a handler is going round in circles and
// will never close its output.  (The count is the monitor's own; no clock is involved.)
func endless(delivered, inputBytes int, what string) {
	if delivered > 2*inputBytes+64 {
		buf := make([]byte, 1<<20)
		n := runtime.Stack(buf, true)
		hangExit(fmt.Sprintf("%s: %d messages delivered for an input of %d bytes", what, delivered, inputBytes), "circling", string(buf[:n]))
	}
}

func hexs(b []byte) string { return fmt.Sprintf("%x", b) }
