// vmon holds the runtime monitors.  One invocation runs one batch of one property
// in this process; the driver (vcheck) spawns it and contains its crashes.
package main

import (
	"encoding/json"
	"fmt"
	"os"
	"regexp"
	"runtime"
	"strings"
	"time"

	"verifharness/child"
)

// A monitor generates its batch's cases and executes them; when c.Replay is set it
// re-executes only the case stored in that file.
type monitor func(c *child.Ctx, replayCase json.RawMessage)

var monitors = map[string]monitor{}

func main() {
	c := child.Parse()
	m, ok := monitors[c.Prop]
	if !ok {
		fmt.Fprintln(os.Stderr, "vmon: no monitor for", c.Prop)
		os.Exit(3)
	}
	var rc json.RawMessage
	if c.Replay != "" {
		b, err := os.ReadFile(c.Replay)
		if err != nil {
			fmt.Fprintln(os.Stderr, "vmon: cannot read replay file:", err)
			os.Exit(3)
		}
		var rf struct {
			Case json.RawMessage `json:"case"`
		}
		if err := json.Unmarshal(b, &rf); err != nil || len(rf.Case) == 0 || string(rf.Case) == "null" {
			fmt.Fprintln(os.Stderr, "vmon: replay file has no case")
			os.Exit(3)
		}
		rc = rf.Case
	}
	selfTest(c)
	m(c, rc)
	c.Finish()
}

// repoFrame matches goroutine stack frames whose source file belongs to the repository.
var repoFrame = regexp.MustCompile(`\n\t/repo/[^\n]*\.go:\d+`)

// hangVerdict is called when a case has not finished within its (generous)
// watchdog.  The verdict is logical, not wall-clock: it is a deadlock only if, in
// two samples one second apart, every goroutine that has a repository frame is
// blocked (chan send/receive, select, sync wait) and none is runnable or running.
// Anything else is reported as busy = inconclusive.
func hangVerdict(what string) {
	blocked := func() (bool, string) {
		buf := make([]byte, 8<<20)
		n := runtime.Stack(buf, true)
		dump := string(buf[:n])
		allBlocked := true
		found := 0
		for _, g := range strings.Split(dump, "\n\n") {
			if !repoFrame.MatchString(g) {
				continue
			}
			found++
			hdr := g
			if i := strings.IndexByte(g, '\n'); i >= 0 {
				hdr = g[:i]
			}
			if !(strings.Contains(hdr, "chan send") || strings.Contains(hdr, "chan receive") || strings.Contains(hdr, "select") || strings.Contains(hdr, "sync.") || strings.Contains(hdr, "semacquire")) {
				allBlocked = false
			}
		}
		return allBlocked && found > 0, dump
	}
	b1, _ := blocked()
	time.Sleep(time.Second)
	b2, dump := blocked()
	fmt.Fprintf(os.Stderr, "watchdog fired: %s\n", what)
	if b1 && b2 {
		fmt.Fprintln(os.Stderr, "HANG-VERDICT: deadlock")
	} else {
		fmt.Fprintln(os.Stderr, "HANG-VERDICT: busy")
	}
	fmt.Fprintln(os.Stderr, dump)
	os.Exit(4)
}

// waitOrHang waits for done; if the generous watchdog fires the process ends with
// a logical hang verdict.
func waitOrHang(done <-chan struct{}, d time.Duration, what string) {
	select {
	case <-done:
	case <-time.After(d):
		hangVerdict(what)
	}
}

func hexs(b []byte) string { return fmt.Sprintf("%x", b) }
