// vmon holds the runtime monitors.  One invocation runs one batch of one property
// in this process; the driver (vcheck) spawns it and contains its crashes.
package main

import (
	"encoding/json"
	"fmt"
	"os"
	"regexp"
	"runtime"
	"strings"
	"sync/atomic"
	"time"

	"verifharness/child"
)

// A monitor generates its batch's cases and executes them; when c.Replay is set it
// re-executes only the case stored in that file.
type monitor func(c *child.Ctx, replayCase json.RawMessage)

var monitors = map[string]monitor{}

// preludes run before anything else in the process has touched the code under test.
var preludes = map[string]func(*child.Ctx){}

func main() {
	c := child.Parse()
	m, ok := monitors[c.Prop]
	if !ok {
		fmt.Fprintln(os.Stderr, "vmon: no monitor for", c.Prop)
		os.Exit(3)
	}
	var rc json.RawMessage
	if c.Replay != "" {
		b, err := os.ReadFile(c.Replay)
		if err != nil {
			fmt.Fprintln(os.Stderr, "vmon: cannot read replay file:", err)
			os.Exit(3)
		}
		var rf struct {
			Case json.RawMessage `json:"case"`
		}
		if err := json.Unmarshal(b, &rf); err != nil || len(rf.Case) == 0 || string(rf.Case) == "null" {
			fmt.Fprintln(os.Stderr, "vmon: replay file has no case")
			os.Exit(3)
		}
		rc = rf.Case
	}
	// in some processes the very first use of the code under test is made by several
	// goroutines at once (anything initialised lazily meets its first callers together)
	if p, ok := preludes[c.Prop]; ok && rc == nil {
		p(c)
	}
	selfTest(c)
	m(c, rc)
	c.Finish()
}

// repoRoot is where the repository under test lives (always /repo for the registered checks).
var repoRoot = func() string {
	if v := os.Getenv("VERIF_REPO"); v != "" {
		return v
	}
	return "/repo"
}()

// repoFrame matches goroutine stack frames whose source file belongs to the repository.
var repoFrame = regexp.MustCompile(`\n\t` + regexp.QuoteMeta(repoRoot) + `/[^\n]*\.go:\d+`)

// progress is bumped by the monitors' own producers, consumers and readers each
// time they complete an operation; together with the goroutine states it tells a
// deadlock from a slow run.
var progress atomic.Int64

func tick() { progress.Add(1) }

// repoAllBlocked reports whether every goroutine that has a frame in the
// repository's source is blocked (chan send/receive, select, sync wait), and how
// many such goroutines there are.
func repoAllBlocked() (bool, int, string) {
	buf := make([]byte, 8<<20)
	n := runtime.Stack(buf, true)
	dump := string(buf[:n])
	allBlocked := true
	found := 0
	for _, g := range strings.Split(dump, "\n\n") {
		if !repoFrame.MatchString(g) {
			continue
		}
		found++
		hdr := g
		if i := strings.IndexByte(g, '\n'); i >= 0 {
			hdr = g[:i]
		}
		if !(strings.Contains(hdr, "chan send") || strings.Contains(hdr, "chan receive") || strings.Contains(hdr, "select") || strings.Contains(hdr, "sync.") || strings.Contains(hdr, "semacquire")) {
			allBlocked = false
		}
	}
	return allBlocked && found > 0, found, dump
}

// realStderr is the process's stderr as it was at start-up (some monitors point
// os.Stderr elsewhere for a while to keep the log small).
var realStderr = os.Stderr

func hangExit(what, verdict, dump string) {
	fmt.Fprintf(realStderr, "watchdog: %s\n", what)
	fmt.Fprintln(realStderr, "HANG-VERDICT: "+verdict)
	fmt.Fprintln(realStderr, dump)
	os.Exit(4)
}

// waitOrHang waits for done.  The verdict on a wait that does not end is logical,
// not wall-clock: it is a deadlock only if in six consecutive samples one second
// apart every goroutine with a repository frame is blocked and the monitors'
// progress counter (and the hook event counter) has not moved - nothing can ever
// make progress.  If the generous wall-clock maximum passes without that, the run
// is reported as busy, which the driver treats as inconclusive.
func waitOrHang(done <-chan struct{}, max time.Duration, what string) {
	deadline := time.Now().Add(max)
	streak := 0
	last := int64(-1)
	for {
		select {
		case <-done:
			return
		case <-time.After(time.Second):
		}
		blocked, _, dump := repoAllBlocked()
		p := progress.Load()
		if blocked && p == last {
			streak++
		} else {
			streak = 0
		}
		last = p
		if streak >= 6 {
			hangExit(what, "deadlock", dump)
		}
		if time.Now().After(deadline) {
			hangExit(what, "busy", dump)
		}
	}
}

func hexs(b []byte) string { return fmt.Sprintf("%x", b) }
