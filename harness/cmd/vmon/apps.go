package main

import (
	"bufio"
	"bytes"
	"encoding/hex"
	"encoding/json"
	"fmt"
	"io"
	"log/slog"
	"os"
	"os/exec"
	"path/filepath"
	"regexp"
	"sort"
	"strings"
	"sync"
	"syscall"
	"time"
	"unsafe"

	"github.com/goblimey/go-ntrip/rtcm/handler"
	"github.com/goblimey/go-ntrip/rtcm/testdata"

	"verifharness/child"
	"verifharness/gen"
	"verifharness/ref"
)

func init() {
	monitors["C10"] = monC10
	monitors["C11"] = monC11
}

// ---- in-process executor (the overlay-added test in the application's package main)

type appCase struct {
	ID          int    `json:"id"`
	App         string `json:"app,omitempty"`
	Input       string `json:"input"`
	Display     bool   `json:"display"`
	Record      bool   `json:"record"`
	Chunk       int    `json:"chunk"`
	ReaderUs    int    `json:"reader_us"`
	EOFWithData bool   `json:"eof_with_last_chunk,omitempty"`
	WriterMode  string `json:"writer_mode"`
	WriterUs    int    `json:"writer_us"`
	Procs       int    `json:"gomaxprocs"`
	LogDir      string `json:"log_dir"`
	StartMs     int64  `json:"start_unix_ms"`
	// for inputs built from known segments: the valid frames by construction (hex)
	Expect    string `json:"expect_frames,omitempty"`
	HasExpect bool   `json:"has_expect,omitempty"`
	// process level
	Process     bool   `json:"process,omitempty"`
	StdinMode   string `json:"stdin_mode,omitempty"`  // file | pipe
	StdoutMode  string `json:"stdout_mode,omitempty"` // fast | slow
	HookProfile string `json:"hook_profile,omitempty"`
	// in-process: the reader now and then returns (0, nil); the writer is an io.Closer
	EmptyPermille int  `json:"empty_reads_permille,omitempty"`
	Closer        bool `json:"writer_is_closer,omitempty"`
	TolMs         uint `json:"eof_tolerance_ms,omitempty"`
	PauseAtByte   int  `json:"source_silent_before_byte,omitempty"`
	PauseMs       int  `json:"source_silent_ms,omitempty"`
	EmptyRun      int  `json:"empty_reads_in_a_row,omitempty"`
	EmptyRunAt    int  `json:"empty_run_at_offset,omitempty"`
	EndsWithError bool `json:"ends_with_a_read_error,omitempty"`
	// the configuration names no log directory: the logs go to the current directory
	DefaultLogDir bool `json:"no_log_directory_configured,omitempty"`
	// writer mode "stalllast": the Write call that brings the total output to this many
	// bytes - the last one - is held up for WriterUs
	StallAtTotal int `json:"writer_stalls_when_total_reaches,omitempty"`
	// the source falls silent for SilenceMs after this many chunks have been written
	SilenceAfterChunks int `json:"silence_after_chunks,omitempty"`
	SilenceMs          int `json:"silence_ms,omitempty"`
	// the pipe the program inherits as its standard input is in non-blocking mode (as
	// when it is started by another Go program or by a supervisor that uses one)
	StdinNonblock bool `json:"stdin_nonblocking,omitempty"`
	// process level: the first write to the pipe has this many bytes, and a pause follows
	FirstChunk int `json:"first_chunk,omitempty"`
	// process level: the sizes of the writes to the pipe, used in turn (overrides Chunk)
	ChunkPattern []int `json:"chunk_pattern,omitempty"`
	// process level: whoever reads the program's standard output stops reading once,
	// for StdoutPauseMs, after it has read StdoutPauseAfter bytes (the pipe fills up and
	// the program's write blocks)
	StdoutPauseMs    int `json:"stdout_reader_pauses_ms,omitempty"`
	StdoutPauseAfter int `json:"stdout_reader_pauses_after_bytes,omitempty"`
}

type appObs struct {
	ID               int               `json:"id"`
	AtReturn         string            `json:"at_return"`
	InFlightAtReturn int64             `json:"writes_in_flight_at_return"`
	Final            string            `json:"final"`
	Quiescent        bool              `json:"quiescent"`
	RecordFiles      map[string]string `json:"record_files"`
	DisplayFiles     map[string]string `json:"display_files"`
}

// runAppTest runs a batch of cases through the in-process executor of one app.
// If the executor dies, the observations made so far are returned together with
// the text of the failure and the case that was running.
func runAppTest(c *child.Ctx, app string, cases []appCase) (map[int]appObs, string, *appCase) {
	dir := filepath.Join(c.WorkDir, fmt.Sprintf("inproc-%s-%d", app, time.Now().UnixNano()))
	os.MkdirAll(dir, 0755)
	casesPath := filepath.Join(dir, "cases.jsonl")
	outPath := filepath.Join(dir, "obs.jsonl")
	f, _ := os.Create(casesPath)
	enc := json.NewEncoder(f)
	for i := range cases {
		if cases[i].LogDir == "" {
			cases[i].LogDir = filepath.Join(dir, fmt.Sprintf("logs%d", cases[i].ID))
		}
		enc.Encode(&cases[i])
	}
	f.Close()
	cmd := exec.Command(filepath.Join(c.BinDir, app+".test"), "-test.run", "^TestVerifExec$", "-test.count=1", "-test.timeout=20m")
	cmd.Dir = dir
	cmd.Env = append(os.Environ(), "VMON_CASES="+casesPath, "VMON_OUT="+outPath, "GORACE=halt_on_error=1 exitcode=66", "GOTRACEBACK=all")
	// the check-time hooks (before every channel operation and writer call of the
	// pipeline and the application) are active in two out of three executor runs
	if prof := []string{"", "y200x2", "y60x1,s4u120"}[(len(cases)+cases[0].ID+c.Batch)%3]; prof != "" {
		cmd.Env = append(cmd.Env, "VHOOK_PROFILE="+prof, fmt.Sprintf("VHOOK_SEED=%d", c.Seed*977+uint64(c.Batch)))
		c.Count("executor_runs_with_hook_profile", 1)
	}
	var log bytes.Buffer
	logPath := filepath.Join(dir, "executor.log")
	lf, _ := os.Create(logPath)
	cmd.Stdout = lf
	cmd.Stderr = lf
	err := cmd.Start()
	hung := ""
	if err == nil {
		// watchdog on progress: the executor rewrites its progress marker before every
		// case and appends an observation after it; if neither changes for a long time
		// the runtime is asked for a goroutine dump and the verdict is logical
		waited := make(chan error, 1)
		go func() { waited <- cmd.Wait() }()
		lastChange := time.Now()
		var lastSize, lastMark int64 = -1, -1
		patience := 75 * time.Second
		for _, k := range cases {
			if d := time.Duration(k.WriterUs) * time.Microsecond; (k.WriterMode == "stallonce" || k.WriterMode == "stalllast") && 75*time.Second+d > patience {
				patience = 75*time.Second + d // a case that is held up on purpose
			}
			if d := time.Duration(k.PauseMs) * time.Millisecond; 75*time.Second+d > patience {
				patience = 75*time.Second + d
			}
		}
	wait:
		for {
			select {
			case err = <-waited:
				break wait
			case <-time.After(time.Second):
			}
			tick()
			var sz, mk int64
			if st, e := os.Stat(outPath); e == nil {
				sz = st.Size()
			}
			if st, e := os.Stat(outPath + ".current"); e == nil {
				mk = st.ModTime().UnixNano()
			}
			if sz != lastSize || mk != lastMark {
				lastSize, lastMark, lastChange = sz, mk, time.Now()
			}
			if time.Since(lastChange) > patience {
				cmd.Process.Signal(syscall.SIGQUIT)
				select {
				case err = <-waited:
				case <-time.After(10 * time.Second):
					cmd.Process.Kill()
					err = <-waited
				}
				hung = "no case finished and none started for 75 s"
				break wait
			}
		}
	}
	lf.Close()
	if b, e := os.ReadFile(logPath); e == nil {
		log.Write(b)
	}
	obs := map[int]appObs{}
	if b, e := os.ReadFile(outPath); e == nil {
		sc := bufio.NewScanner(bytes.NewReader(b))
		sc.Buffer(make([]byte, 1<<20), 256<<20)
		for sc.Scan() {
			var o appObs
			if json.Unmarshal(sc.Bytes(), &o) == nil {
				obs[o.ID] = o
			}
		}
	}
	fail := ""
	var cur *appCase
	if hung != "" {
		// logical verdict from the dump: every goroutine with a frame in the
		// application's or the pipeline's source is parked => nothing can make progress
		dump := log.String()
		if i := strings.LastIndex(dump, "SIGQUIT"); i >= 0 {
			dump = dump[i:]
		}
		parkedAll, found := true, 0
		for _, g := range strings.Split(dump, "\n\n") {
			if !strings.Contains(g, "/apps/") && !strings.Contains(g, "/file_handler/") && !strings.Contains(g, "/rtcm/") {
				continue
			}
			hdr := g
			if j := strings.IndexByte(g, '\n'); j >= 0 {
				hdr = g[:j]
			}
			if !strings.HasPrefix(hdr, "goroutine ") {
				continue
			}
			found++
			ok := false
			for _, st := range []string{"chan send", "chan receive", "select", "sync.", "semacquire"} {
				if strings.Contains(hdr, st) {
					ok = true
				}
			}
			if !ok {
				parkedAll = false
			}
		}
		if parkedAll && found > 0 {
			hung = "HANG-DEADLOCK: " + hung + "; every application and pipeline goroutine is parked on a channel or lock"
		} else {
			hung = "HANG-BUSY: " + hung
		}
		err = fmt.Errorf("%s", hung)
	}
	if err != nil {
		fail = hung + "\n" + log.String()
		if len(fail) > 6000 {
			fail = fail[:3000] + "\n...\n" + fail[len(fail)-3000:]
		}
		if b, e := os.ReadFile(outPath + ".current"); e == nil {
			var k appCase
			if json.Unmarshal(b, &k) == nil {
				cur = &k
			}
		}
	}
	os.RemoveAll(dir)
	return obs, fail, cur
}

// ---- process level

type procResult struct {
	Stdout   []byte
	Stderr   string
	ExitCode int
	Files    map[string][]byte // files found in the log directory after exit
	TimedOut bool
	// the program closed its standard input while it was still running (a write to
	// the pipe failed after this many bytes)
	StdinRefusedAfter int
	StdinRefused      bool
	// bytes written to its input before the scripted silence, and bytes that had come
	// out of it when the silence ended
	InBeforeSilence, OutAtSilenceEnd int
	// when the run had to be ended: the number of input bytes the program's standard
	// input had accepted at least a minute earlier
	AcceptedAMinuteBeforeTheEnd int
	// when the run had to be ended: the program had had its whole input, and the end of
	// it, for more than a minute (a file, or a pipe that was written and closed)
	InputEndedAMinuteBeforeTheEnd bool
}

// runAppProcess runs a real application binary built from the current tree.
func runAppProcess(c *child.Ctx, bin string, args []string, stdin []byte, k appCase, dir string, extraEnv []string) procResult {
	os.MkdirAll(dir, 0755)
	cmd := exec.Command(bin, args...)
	cmd.Dir = dir
	// atexit_sleep_ms=0: by default a race-detector build sleeps one second at exit,
	// which would hide exactly the exit races the process-level checks look for
	cmd.Env = append(os.Environ(), "GORACE=halt_on_error=1 exitcode=66 atexit_sleep_ms=0", "GOTRACEBACK=all")
	if k.Procs > 0 {
		cmd.Env = append(cmd.Env, fmt.Sprintf("GOMAXPROCS=%d", k.Procs))
	}
	if k.HookProfile != "" {
		cmd.Env = append(cmd.Env, "VHOOK_PROFILE="+k.HookProfile, fmt.Sprintf("VHOOK_SEED=%d", k.ID))
	}
	if k.ID%4 == 1 {
		// collect garbage as often as possible: whatever the program only keeps alive by
		// accident (finalizers on wrappers of its standard streams, buffers handed to
		// another goroutine) goes early instead of after megabytes
		cmd.Env = append(cmd.Env, "GOGC=1")
	}
	cmd.Env = append(cmd.Env, extraEnv...)
	var res procResult
	type wroteAt struct {
		at time.Time
		n  int
	}
	var wrote []wroteAt
	var wroteMu sync.Mutex
	var inputEnded time.Time
	var outMu sync.Mutex
	exited := make(chan struct{})
	refused := make(chan struct{})
	var stderr bytes.Buffer
	cmd.Stderr = &stderr
	outR, outW, _ := os.Pipe()
	cmd.Stdout = outW
	if k.StdoutMode == "slow" {
		// a small pipe: the application's writes block until the monitor reads
		syscall.Syscall(syscall.SYS_FCNTL, outW.Fd(), 1031 /* F_SETPIPE_SZ */, 4096)
	}
	var inW, inR, ptyMaster *os.File
	if k.StdinMode == "file" {
		p := filepath.Join(dir, "stdin.bin")
		os.WriteFile(p, stdin, 0644)
		f, _ := os.Open(p)
		cmd.Stdin = f
		defer f.Close()
	} else if k.StdinMode == "devnull" {
		// a character device that is not a terminal: the input is empty
		f, _ := os.Open(os.DevNull)
		cmd.Stdin = f
		defer f.Close()
	} else if k.StdinMode == "pty" {
		// a pseudo-terminal in its default (canonical) mode, as when the program reads a
		// serial console or is started from a terminal with text typed or pasted in: the
		// caller supplies complete lines of plain text; the end of the input is ^D
		m, s, err := openPty()
		if err != nil {
			res.Stderr = "no pseudo-terminal available: " + err.Error()
			res.ExitCode = -2
			return res
		}
		inR, inW, ptyMaster = s, m, m
		cmd.Stdin = s
		defer m.Close()
		go func() { // what the terminal echoes is of no interest, but must not pile up
			b := make([]byte, 4096)
			for {
				if _, e := m.Read(b); e != nil {
					return
				}
			}
		}()
	} else {
		if k.StdinNonblock {
			// os.Pipe's files are marked non-blocking inside Go and every Fd() call - also
			// the one made when the process is started - puts them back into blocking
			// mode; a pipe made by hand and wrapped while still blocking keeps the mode
			// that is set afterwards
			var p [2]int
			if err := syscall.Pipe2(p[:], syscall.O_CLOEXEC); err == nil {
				inR, inW = os.NewFile(uintptr(p[0]), "stdin-read-end"), os.NewFile(uintptr(p[1]), "stdin-write-end")
				syscall.SetNonblock(p[0], true)
			}
		}
		if inR == nil {
			inR, inW, _ = os.Pipe()
		}
		cmd.Stdin = inR
	}
	if err := cmd.Start(); err != nil {
		res.Stderr = err.Error()
		res.ExitCode = -1
		return res
	}
	outW.Close()
	if inR != nil {
		// the program holds the only read end now: if it closes its standard input our
		// writes fail instead of blocking for ever
		inR.Close()
	}
	if inW != nil {
		go func() {
			r := ref.NewRand(uint64(k.ID)*131 + 7)
			data := stdin
			if k.FirstChunk > 0 && k.FirstChunk < len(data) {
				inW.Write(data[:k.FirstChunk])
				data = data[k.FirstChunk:]
				time.Sleep(30 * time.Millisecond) // the program reads these bytes on their own
			}
			for nchunks := 0; len(data) > 0; nchunks++ {
				if k.SilenceMs > 0 && nchunks == k.SilenceAfterChunks && nchunks > 0 {
					res.InBeforeSilence = len(stdin) - len(data)
					sleepTicking(time.Duration(k.SilenceMs) * time.Millisecond)
					outMu.Lock()
					res.OutAtSilenceEnd = len(res.Stdout)
					outMu.Unlock()
				}
				n := k.Chunk
				if len(k.ChunkPattern) > 0 {
					n = k.ChunkPattern[nchunks%len(k.ChunkPattern)]
				}
				if n <= 0 {
					n = 1 + r.Intn(4096)
				}
				if n > len(data) {
					n = len(data)
				}
				if _, werr := inW.Write(data[:n]); werr != nil {
					// a program that has ended (or is ending) is judged by its exit, not here
					select {
					case <-exited:
					case <-time.After(2 * time.Second):
						res.StdinRefused, res.StdinRefusedAfter = true, len(stdin)-len(data)
						close(refused)
					}
					break
				}
				data = data[n:]
				wroteMu.Lock()
				wrote = append(wrote, wroteAt{time.Now(), len(stdin) - len(data)})
				wroteMu.Unlock()
				if k.ReaderUs > 0 && r.Chance(1, 3) {
					time.Sleep(time.Duration(r.Intn(k.ReaderUs)+1) * time.Microsecond)
				}
				if k.ReaderUs < 0 {
					// a fixed gap after every chunk, so that each chunk is read on its own
					time.Sleep(time.Duration(-k.ReaderUs) * time.Microsecond)
				}
				tick()
			}
			if ptyMaster != nil {
				inW.Write([]byte{4}) // ^D at the start of a line: end of input; the terminal stays open
			} else {
				inW.Close()
			}
			wroteMu.Lock()
			inputEnded = time.Now()
			wroteMu.Unlock()
		}()
	} else {
		inputEnded = time.Now() // a file: the end of the input is there from the start
	}
	outDone := make(chan struct{})
	go func() {
		buf := make([]byte, 65536)
		if k.StdoutMode == "slow" {
			buf = make([]byte, 512)
		}
		paused := false
		for {
			n, err := outR.Read(buf)
			outMu.Lock()
			res.Stdout = append(res.Stdout, buf[:n]...)
			total := len(res.Stdout)
			outMu.Unlock()
			tick()
			if k.StdoutPauseMs > 0 && !paused && total >= k.StdoutPauseAfter {
				paused = true
				sleepTicking(time.Duration(k.StdoutPauseMs) * time.Millisecond)
			}
			if k.StdoutMode == "slow" && n > 0 {
				time.Sleep(300 * time.Microsecond)
			}
			if err != nil {
				break
			}
		}
		close(outDone)
	}()
	waitDone := make(chan error, 1)
	go func() { err := cmd.Wait(); close(exited); waitDone <- err }()
	patience := 90*time.Second + time.Duration(k.SilenceMs)*time.Millisecond + time.Duration(k.StdoutPauseMs)*time.Millisecond
	var err error
	finished := false
	select {
	case err = <-waitDone:
		finished = true
	case <-refused:
		// the verdict is already known; give the program a moment to end by itself
		patience = 3 * time.Second
	case <-time.After(patience):
		patience = 0
	}
	if !finished && patience > 0 {
		select {
		case err = <-waitDone:
			finished = true
		case <-time.After(patience):
		}
	}
	switch {
	case finished:
		if err != nil {
			if ee, ok := err.(*exec.ExitError); ok {
				res.ExitCode = ee.ExitCode()
			} else {
				res.ExitCode = -1
			}
		}
	default:
		res.TimedOut = true
		wroteMu.Lock()
		res.InputEndedAMinuteBeforeTheEnd = !inputEnded.IsZero() && time.Since(inputEnded) > time.Minute
		for _, w := range wrote {
			if time.Since(w.at) > time.Minute {
				res.AcceptedAMinuteBeforeTheEnd = w.n
			}
		}
		wroteMu.Unlock()
		cmd.Process.Signal(syscall.SIGQUIT)
		select {
		case <-waitDone:
		case <-time.After(5 * time.Second):
			cmd.Process.Kill()
			<-waitDone
		}
	}
	<-outDone
	outR.Close()
	res.Stderr = stderr.String()
	res.Files = map[string][]byte{}
	filepath.Walk(dir, func(p string, info os.FileInfo, err error) error {
		if err == nil && !info.IsDir() {
			rel, _ := filepath.Rel(dir, p)
			if b, e := os.ReadFile(p); e == nil {
				res.Files[rel] = b
			}
		}
		return nil
	})
	return res
}

// concatFiles concatenates, in name (= date) order, the files whose base name
// matches prefix*suffix: a run that straddles local midnight is still judged correctly.
func concatFiles(files map[string][]byte, prefix, suffix string) ([]byte, int) {
	var names []string
	for n := range files {
		b := filepath.Base(n)
		if strings.HasPrefix(b, prefix) && strings.HasSuffix(b, suffix) {
			names = append(names, n)
		}
	}
	sort.Strings(names)
	var out []byte
	for _, n := range names {
		out = append(out, files[n]...)
	}
	return out, len(names)
}

func concatHexFiles(files map[string]string) []byte {
	var names []string
	for n := range files {
		names = append(names, n)
	}
	sort.Strings(names)
	var out []byte
	for _, n := range names {
		b, _ := hex.DecodeString(files[n])
		out = append(out, b...)
	}
	return out
}

var entryLine = regexp.MustCompile(`(?m)^Frame length \d+ bytes:$`)

// entryLengths returns the frame lengths announced by the entries of a readable log, in order.
func entryLengths(text string) []int {
	var out []int
	for _, l := range entryLine.FindAllString(text, -1) {
		n := 0
		fmt.Sscanf(l, "Frame length %d bytes:", &n)
		out = append(out, n)
	}
	return out
}

// deliveredLengths returns the lengths of the messages sequential framing delivers for the input.
func deliveredLengths(input []byte) []int {
	var out []int
	for _, m := range runSequential(fixedStart, slog.LevelDebug, input) {
		out = append(out, len(m.RawData))
	}
	return out
}

// sameInts compares two sequences and describes the first difference.
func sameInts(got, want []int) string {
	for i := 0; i < len(got) && i < len(want); i++ {
		if got[i] != want[i] {
			return fmt.Sprintf("entry %d describes a %d-byte message, message %d delivered has %d bytes", i, got[i], i, want[i])
		}
	}
	if len(got) != len(want) {
		return fmt.Sprintf("%d entries, %d messages delivered", len(got), len(want))
	}
	return ""
}

// ---- expectations (same build, sequential)

// filterExpected is the concatenation of the valid frames of the input, in order:
// the typed messages of sequential framing, each additionally required to be a
// frame by the independent predicate.
func filterExpected(input []byte) (out []byte, nmsgs int, bad string) {
	msgs := runSequential(fixedStart, slog.LevelDebug, input)
	for i := range msgs {
		if msgs[i].MessageType >= 0 {
			if !ref.IsFrame(msgs[i].RawData) {
				bad = "sequential framing produced a typed message that is not a valid frame (C01)"
			}
			out = append(out, msgs[i].RawData...)
		}
	}
	return out, len(msgs), bad
}

const displayHeading = "RTCM data\n\nNote: times are in UTC.  RINEX format uses GPS time, which is currently (Jan 2021)\n18 seconds ahead of UTC\n\n"

// displayExpected is the complete output of displayrtcm3 for the input.
func displayExpected(start time.Time, input []byte) []byte {
	msgs := runSequential(start, slog.LevelDebug, input)
	var b bytes.Buffer
	b.WriteString(displayHeading)
	for i := range msgs {
		b.WriteString(msgs[i].String() + "\n")
	}
	return b.Bytes()
}

// appInputX is appInput that also returns, for inputs built from known segments,
// the concatenation of their valid frames (the expectation by construction,
// independent of the code under test).
func appInputX(r *ref.SplitMix64, i int) (in []byte, frames []byte, known bool) {
	if i%23 == 11 {
		// a long stretch of text or binary without a start-of-frame byte (its readable
		// form is several times as long), and frames of the greatest lengths
		var s gen.Stream
		leading := r.Chance(1, 3) // nothing but other data for a long while, then the first frame
		if !leading {
			s = append(s, gen.RandFrame(r))
		}
		n := r.Range(13000, 24000)
		if leading {
			n = []int{65535, 65536, 65537, 70000, 100000}[r.Intn(5)]
		}
		if r.Chance(1, 2) {
			// exactly a power of two, one less, one more: where a block of other data is
			// full and the next frame's start byte is the first thing after it
			n = []int{4095, 4096, 4097, 8191, 8192, 16383, 32767, 32768, 65535, 65536, 65537, 131071}[r.Intn(12)]
		}
		if leading && n < 65535 {
			n += 65536
		}
		if r.Chance(1, 2) {
			const sentence = "$GNGGA,092751.000,5321.6802,N,00630.3371,W,1,8,1.03,61.7,M,55.3,M,,*75\r\n"
			txt := make([]byte, n)
			for j := range txt {
				txt[j] = sentence[j%len(sentence)]
			}
			s = append(s, gen.Seg{Kind: "junk", Type: -1, Bytes: txt})
		} else {
			s = append(s, gen.Seg{Kind: "junk", Type: -1, Bytes: gen.NoD3(r.Bytes(n))})
		}
		for _, l := range []int{1023, 1022, 1021, 1020} {
			if r.Chance(1, 2) {
				s = append(s, gen.CleanStream(r, gen.CleanOpts{MinFrames: 1, MaxFrames: 1, ForceLen: l})...)
			}
		}
		s = append(s, gen.RandFrame(r))
		for _, g := range s {
			if g.Kind == "frame" {
				frames = append(frames, g.Bytes...)
			}
		}
		return s.Bytes(), frames, true
	}
	if i%23 == 5 || i%23 == 20 {
		// frames with next to nothing between them: a lone line feed, a carriage return,
		// a NUL, a space, a '$', 0xff, two to four such bytes - at the very start, between
		// frames, after a line of text, at the end
		tiny := [][]byte{{'\n'}, {'\r'}, {'\r', '\n'}, {0}, {' '}, {'$'}, {0xff}, {'\n', '\n'}, {0, 0, 0}, {'\n', '\r', '\n', '\n'}}
		pick := func() []byte {
			if r.Chance(1, 4) {
				return gen.NoD3(r.Bytes(r.Range(1, 4)))
			}
			return tiny[r.Intn(len(tiny))]
		}
		if r.Chance(1, 2) {
			in = append(in, pick()...)
		}
		for j := r.Range(2, 9); j > 0; j-- {
			f := gen.RandFrame(r).Bytes
			if r.Chance(1, 3) {
				t := 1005 + r.Intn(2)
				f = ref.Frame(ref.EncodeBase(gen.RandBase(r, t), t))
			}
			in = append(in, f...)
			frames = append(frames, f...)
			switch r.Intn(4) {
			case 0:
			case 1:
				in = append(in, "$GPGSV,3,1,11,03,03,111,00,04,15,270,00*74\r\n"...)
				in = append(in, pick()...)
			default:
				in = append(in, pick()...)
			}
		}
		return in, frames, true
	}
	if i%23 == 8 {
		// frames that are sent again and again (a base station's 1005/1006, its 1033),
		// some of the copies damaged in their CRC bytes only or in one payload bit: a
		// damaged copy is not a frame, however often the good one has been seen
		var base [][]byte
		for j := r.Range(1, 3); j > 0; j-- {
			f := gen.RandFrame(r).Bytes
			if r.Chance(1, 2) {
				t := 1005 + r.Intn(2)
				f = ref.Frame(ref.EncodeBase(gen.RandBase(r, t), t))
			}
			if len(f) < 9 {
				continue
			}
			base = append(base, f)
		}
		if len(base) == 0 {
			base = append(base, ref.Frame(ref.EncodeBase(gen.RandBase(r, 1005), 1005)))
		}
		for j := r.Range(4, 12); j > 0; j-- {
			f := base[r.Intn(len(base))]
			if r.Chance(1, 3) {
				g := append([]byte(nil), f...)
				n := len(g)
				switch r.Intn(3) {
				case 0:
					g[n-1-r.Intn(3)] ^= 1 << uint(r.Intn(8))
				case 1:
					g[n-3], g[n-1] = g[n-1], g[n-3]
				default:
					g[r.Range(5, n-4)] ^= 1 << uint(r.Intn(8))
				}
				// a damaged copy must not contain a start byte of its own, or what the
				// framing rules make of its tail is not known by construction
				ok := !ref.IsFrame(g)
				for _, b := range g[1:] {
					if b == 0xd3 {
						ok = false
					}
				}
				if ok {
					in = append(in, g...)
					in = append(in, f...) // and the good one again right after it
					frames = append(frames, f...)
					continue
				}
			}
			in = append(in, f...)
			frames = append(frames, f...)
		}
		return in, frames, true
	}
	if i%23 == 14 {
		// the message types a base station really sends besides observations: antenna and
		// receiver descriptors with their counted strings (1007, 1008, 1033), text (1029),
		// ephemerides (1019, 1020, 1042-1046), system parameters (1013), biases (1230),
		// proprietary ones (4072, 4094) - with bodies that stop at every kind of place
		types := []int{1007, 1008, 1033, 1029, 1019, 1020, 1042, 1044, 1045, 1046, 1013, 1230, 1012, 1004, 4072, 4094, 1001, 1009}
		for j := r.Range(3, 10); j > 0; j-- {
			t := types[r.Intn(len(types))]
			n := r.Range(2, 70)
			body := make([]byte, n)
			switch r.Intn(4) {
			case 0: // counted strings (a count byte, that many letters) with a one-byte ID after the first, cut at a boundary between any two of these
				body = []byte{0, 0, byte(r.Intn(256))}
				bounds := []int{3}
				for s := r.Range(1, 6); s > 0; s-- {
					cnt := r.Intn(12)
					body = append(body, byte(cnt))
					bounds = append(bounds, len(body))
					for q := 0; q < cnt; q++ {
						body = append(body, "TRM59800.00 SCIS"[q%16])
					}
					bounds = append(bounds, len(body))
					if len(bounds) == 3 {
						body = append(body, byte(r.Intn(4))) // the setup ID
						bounds = append(bounds, len(body))
					}
				}
				if r.Chance(2, 3) {
					body = body[:bounds[r.Intn(len(bounds))]]
				}
			case 1:
				copy(body, r.Bytes(n))
			case 2:
				for q := range body {
					body[q] = 0xff
				}
			}
			if len(body) < 2 {
				body = append(body, 0, 0)
			}
			body[0], body[1] = byte(t>>4), byte(t<<4)|body[1]&0x0f
			f := ref.Frame(body)
			in = append(in, f...)
			frames = append(frames, f...)
			if r.Chance(1, 3) {
				in = append(in, '\r', '\n')
			}
		}
		return in, frames, true
	}
	if i%23 == 17 {
		// things that are not frames although their last three bytes are the CRC of the
		// rest (a reserved bit set or a zero length field in the leader), among frames;
		// what survives is decided by the same build's framing (which C01 judges)
		var b []byte
		for j := r.Range(2, 5); j > 0; j-- {
			b = append(b, gen.SelfConsistentNonFrame(r).Bytes...)
			b = append(b, gen.RandFrame(r).Bytes...)
		}
		return b, nil, false
	}
	switch i % 7 {
	case 2, 5, 6:
		s := gen.CleanStream(r, gen.CleanOpts{MinFrames: 1, MaxFrames: 8, TruncTail: i%7 != 2})
		if i%7 == 2 {
			for len(s) > 0 && s[len(s)-1].Kind != "frame" {
				s = s[:len(s)-1]
			}
		}
		total := 0
		var kept gen.Stream
		for _, g := range s {
			if total+len(g.Bytes) > 9000 {
				break
			}
			total += len(g.Bytes)
			kept = append(kept, g)
		}
		for _, g := range kept {
			if g.Kind == "frame" {
				frames = append(frames, g.Bytes...)
			}
		}
		return kept.Bytes(), frames, true
	case 4:
		n := r.Range(1, 12)
		for j := 0; j < n; j++ {
			var f []byte
			if r.Chance(1, 4) {
				t := 1005 + r.Intn(2)
				f = ref.Frame(ref.EncodeBase(gen.RandBase(r, t), t))
			} else {
				m := gen.RandMSM(r, gen.MSMOpts{})
				if r.Chance(1, 5) {
					m.FixIllegalTime(r)
				}
				p := ref.EncodeMSM(m)
				if len(p) > 1023 {
					continue
				}
				f = ref.Frame(p)
			}
			in = append(in, f...)
			frames = append(frames, f...)
			if r.Chance(1, 3) {
				in = append(in, gen.Junk(r).Bytes...)
			}
		}
		return in, frames, true
	}
	return appInput(r, i), nil, false
}

// appInput generates an input for the applications.
// magicStarts are the first bytes of common container and compression formats: an
// input that happens to begin like one of them is still a byte stream to be framed.
var magicStarts = [][]byte{{0x1f, 0x8b}, {0x1f, 0x8b, 0x08, 0x00}, []byte("PK\x03\x04"), []byte("BZh9"), {0xfd, '7', 'z', 'X', 'Z', 0x00}, {0x28, 0xb5, 0x2f, 0xfd},
	{0xef, 0xbb, 0xbf}, {0xff, 0xfe}, {0xfe, 0xff}, []byte("RIFF"), []byte("#!rtcm\n"), {0x7f, 'E', 'L', 'F'}, []byte("%PDF-"), {0x00, 0x00, 0x01, 0x00}}

func appInput(r *ref.SplitMix64, i int) []byte {
	if i%29 == 13 {
		// begins like a compressed file, a text file with a byte-order mark, an archive
		in := append([]byte(nil), magicStarts[r.Intn(len(magicStarts))]...)
		for j := r.Range(1, 5); j > 0; j-- {
			in = append(in, gen.RandFrame(r).Bytes...)
		}
		return in
	}
	if i%23 == 11 || i%23 == 17 || i%23 == 14 || i%23 == 5 || i%23 == 8 {
		in, _, _ := appInputX(r, i)
		return in
	}
	switch i % 7 {
	case 0:
		return append([]byte(nil), testdata.MessageBatchWithJunk...)
	case 1:
		return append([]byte(nil), testdata.MessageBatch...)
	case 2:
		// ends with a valid frame: the tail most easily lost
		s := gen.CleanStream(r, gen.CleanOpts{MinFrames: 1, MaxFrames: 6})
		for len(s) > 0 && s[len(s)-1].Kind != "frame" {
			s = s[:len(s)-1]
		}
		return s.Bytes()
	case 3:
		return gen.HostileStream(r, false).Bytes()
	case 4:
		// well-formed decodable messages (so the display has real content)
		var b []byte
		n := r.Range(1, 12)
		for j := 0; j < n; j++ {
			if r.Chance(1, 4) {
				t := 1005 + r.Intn(2)
				b = append(b, ref.Frame(ref.EncodeBase(gen.RandBase(r, t), t))...)
			} else {
				m := gen.RandMSM(r, gen.MSMOpts{})
				p := ref.EncodeMSM(m)
				if len(p) <= 1023 {
					b = append(b, ref.Frame(p)...)
				}
			}
			if r.Chance(1, 3) {
				b = append(b, gen.Junk(r).Bytes...)
			}
		}
		return b
	default:
		s := gen.CleanStream(r, gen.CleanOpts{MinFrames: 1, MaxFrames: 10, TruncTail: true})
		b := s.Bytes()
		if len(b) > 8000 {
			b = b[:8000]
		}
		return b
	}
}

func writerProfile(r *ref.SplitMix64) (string, int) {
	switch r.Intn(5) {
	case 0:
		return "fast", 0
	case 1:
		return "yield", r.Range(10, 200)
	case 2:
		return "sleep", r.Range(200, 1500)
	case 3:
		return "block", 5000 // blocks 5 ms per call
	default:
		return "sleep", r.Range(20, 200)
	}
}

// ---------------------------------------------------------------------------
// C11: when message handling returns, all output has been written

func monC11(c *child.Ctx, replay json.RawMessage) {
	r := ref.NewRand(c.Seed*573259433 + uint64(c.Batch)*593441861 + 11)
	judge := func(k appCase, o appObs, cj []byte) {
		input, _ := hex.DecodeString(k.Input)
		var want []byte
		if k.App == "displayrtcm3" {
			want = displayExpected(time.UnixMilli(k.StartMs).UTC(), input)
		} else {
			want, _, _ = filterExpected(input)
		}
		got, _ := hex.DecodeString(o.AtReturn)
		switch {
		case bytes.Equal(got, want):
			c.Count("complete_at_return", 1)
		case len(got) < len(want) && bytes.Equal(got, want[:len(got)]):
			c.Violate("output-incomplete-at-return", fmt.Sprintf("%s: when HandleMessages returned the writer had completed %d of the %d bytes of output (writer %s/%dus, %d writes in flight); the last %d bytes were not yet written",
				k.App, len(got), len(want), k.WriterMode, k.WriterUs, o.InFlightAtReturn, len(want)-len(got)), cj)
		default:
			at := 0
			for at < len(got) && at < len(want) && got[at] == want[at] {
				at++
			}
			c.Violate("output-differs", fmt.Sprintf("%s: output at return (%d bytes) is not a prefix of the expected output (%d bytes); first difference at offset %d", k.App, len(got), len(want), at), cj)
		}
		c.Count("bytes_expected", int64(len(want)))
	}
	runBatch := func(app string, cases []appCase) {
		for len(cases) > 0 {
			n := len(cases)
			if n > 120 {
				n = 120 // each enabled log leaks a rotator goroutine and a descriptor by design
			}
			batch := cases[:n]
			cases = cases[n:]
			cj0, _ := json.Marshal(batch[0])
			c.Begin(cj0)
			obs, fail, cur := runAppTest(c, app, batch)
			for _, k := range batch {
				o, ok := obs[k.ID]
				if !ok {
					continue
				}
				cj, _ := json.Marshal(k)
				judge(k, o, cj)
				input, _ := hex.DecodeString(k.Input)
				c.Eval(ref.Hash64(cj), len(input) > 0 && k.WriterMode != "fast")
				if c.WantSample() && k.WriterMode != "fast" {
					kk := k
					kk.Input = fmt.Sprintf("(%d bytes)", len(input))
					c.Sample(map[string]interface{}{"case": kk, "bytes_at_return": len(o.AtReturn) / 2, "bytes_final": len(o.Final) / 2})
				}
			}
			if fail != "" {
				var cj []byte
				if cur != nil {
					cj, _ = json.Marshal(cur)
				}
				if strings.HasPrefix(fail, "HANG-BUSY") {
					c.Inconclusive(app + " in-process executor made no progress for 75 s while goroutines were runnable")
					return
				}
				sig := "crash"
				if strings.Contains(fail, "WARNING: DATA RACE") {
					sig = "data-race"
				}
				if strings.HasPrefix(fail, "HANG-DEADLOCK") {
					sig = "deadlock"
				}
				c.Violate(sig, app+" in-process executor died:\n"+fail, cj)
				return
			}
		}
	}
	if replay != nil {
		var k appCase
		json.Unmarshal(replay, &k)
		c.Begin(replay)
		var cases []appCase
		for i := 0; i < 30; i++ {
			kk := k
			kk.ID = i + 1
			kk.LogDir = ""
			cases = append(cases, kk)
		}
		runBatch(k.App, cases)
		return
	}
	n := c.Share(c.Pick(800, 16000))
	// lengths of other data whose readable form (as this build's library renders it) is
	// an exact multiple of 4096 bytes long: output that ends precisely on a block
	// boundary of a writer that works in blocks
	var blockLens []int
	for l := 200; l < 7000; l++ {
		if m := handler.NewNonRTCM(make([]byte, l)); m != nil && (len(m.String())+1)%4096 == 0 {
			blockLens = append(blockLens, l)
		}
	}
	for _, app := range []string{"displayrtcm3", "rtcmfilter"} {
		var cases []appCase
		for i := 0; i < n/2; i++ {
			in := appInput(r, i)
			if len(in) > 20000 && i%23 != 11 {
				in = in[:20000]
			}
			if i%19 == 7 && len(blockLens) > 0 {
				junk := gen.NoD3(r.Bytes(blockLens[r.Intn(len(blockLens))]))
				if r.Chance(1, 2) {
					for j := range junk {
						junk[j] = "$GPGGA,123519,4807.038,N,01131.000,E*47\r\n"[j%41]
					}
				}
				in = append(append(append([]byte(nil), gen.RandFrame(r).Bytes...), junk...), gen.RandFrame(r).Bytes...)
				if r.Chance(1, 3) {
					in = in[:len(in)-len(gen.RandFrame(r).Bytes)%len(in)]
				}
				c.Count("inputs_whose_display_ends_on_a_4096_byte_boundary", 1)
			}
			mode, us := writerProfile(r)
			if mode == "block" && len(in) > 1500 {
				if i%23 == 11 {
					mode, us = "sleep", 300
				} else {
					in = in[:1500]
				}
			}
			k := appCase{ID: i + 1, App: app, Input: hexs(in), Chunk: []int{1, 16, 300, 0}[r.Intn(4)], ReaderUs: []int{0, 0, 50}[r.Intn(3)],
				WriterMode: mode, WriterUs: us, Procs: []int{1, 2, 16}[r.Intn(3)], StartMs: fixedStart.UnixMilli()}
			k.Closer = i%3 == 1
			if k.Closer {
				c.Count("cases_with_a_closable_writer", 1)
			}
			if i%7 == 5 {
				k.EndsWithError = true
				c.Count("cases_ending_with_a_read_error", 1)
			}
			if i%5 == 3 {
				// the source hands over its last block together with io.EOF (a decompressor,
				// an HTTP body), in reads as large as the caller's buffer allows
				k.EOFWithData, k.EndsWithError = true, false
				k.Chunk = []int{0, 0, 4096, 300}[r.Intn(4)]
				c.Count("cases_whose_last_block_comes_with_the_end_of_input", 1)
			}
			if i%6 == 2 && len(in) < 4000 {
				// a configuration for a live feed: end of file is retried for a while, so the
				// source's end is noticed only after the tolerance; the output is still complete
				k.TolMs = uint(r.Range(5, 40))
				c.Count("cases_with_an_eof_tolerance", 1)
			}
			if app == "rtcmfilter" {
				// every configuration of the optional logs
				k.Display, k.Record = i%4 >= 2, i%2 == 1
				if k.Display && len(in) > 3000 && i%23 != 11 {
					k.Input = hexs(in[:3000])
				}
				if i%5 == 2 && (k.Display || k.Record) {
					// no log directory in the configuration: the logs go to the current directory
					k.DefaultLogDir = true
					c.Count("cases_without_a_log_directory_in_the_configuration", 1)
				}
			}
			if i == 9 {
				// the LAST write of the whole output is the one that is held up, for longer
				// than any plausible grace period: the call returns when it has completed
				small := in
				if len(small) > 2500 {
					small = small[:2500]
				}
				var want []byte
				if app == "rtcmfilter" {
					want, _, _ = filterExpected(small)
				} else {
					want = displayExpected(time.UnixMilli(k.StartMs).UTC(), small)
				}
				if len(want) > 0 {
					k.Input = hexs(small)
					k.WriterMode, k.WriterUs, k.StallAtTotal = "stalllast", []int{2600000, 4200000, 6500000}[c.Batch%3], len(want)
					k.Chunk, k.ReaderUs, k.TolMs, k.Closer = 0, 0, 0, false
					c.Count("cases_whose_last_write_is_held_up", 1)
				}
			}
			if i == 3 && c.Batch == 0 || c.Thorough() && i%400 == 3 {
				// one Write that stays blocked for seconds while the input ends
				k.Input = hexs(gen.RandFrame(r).Bytes)
				k.WriterMode, k.WriterUs = "blocktail", r.Range(2300000, 3500000)
				if app == "rtcmfilter" {
					k.WriterMode = "block" // no headings: the only Write is the one that blocks
				}
			} else if i == 5 && c.Batch < 2 || c.Thorough() && i%400 == 5 {
				// one early write is held up for a second and a half while hundreds of
				// messages arrive behind it: all of them are written before the call returns
				var many []byte
				for j := r.Range(300, 500); j > 0; j-- {
					f := gen.RandFrame(r)
					for len(f.Bytes) > 40 {
						f = gen.RandFrame(r)
					}
					many = append(many, f.Bytes...)
				}
				k.Input = hexs(many)
				k.Chunk, k.ReaderUs, k.Display, k.Record, k.TolMs = 0, 0, false, false, 0
				k.WriterMode, k.WriterUs = "stallonce", r.Range(1200000, 1800000)
				c.Count("cases_with_hundreds_of_messages_behind_a_held_up_write", 1)
			} else if i%40 == 7 {
				// "however slow the writer is": a writer that blocks a quarter of a second or
				// more on every call, with a handful of messages
				var small []byte
				for j := r.Range(3, 7); j > 0; j-- {
					small = append(small, gen.RandFrame(r).Bytes...)
				}
				k.Input = hexs(small)
				k.WriterMode, k.WriterUs = "block", r.Range(250000, 450000)
			}
			cases = append(cases, k)
		}
		runBatch(app, cases)
	}
	// process level: the real binaries over files; the output that reaches the pipe
	// before the process exits is all a user ever sees
	np := c.Share(c.Pick(32, 1000))
	for i := 0; i < np; i++ {
		in := appInput(r, i)
		if len(in) > 30000 {
			in = in[:30000]
		}
		app := []string{"displayrtcm3", "rtcmfilter"}[i%2]
		k := appCase{ID: 100000 + i, App: app, Input: hexs(in), Process: true, StdinMode: "file", StdoutMode: []string{"fast", "slow"}[r.Intn(2)], Procs: []int{1, 2, 16}[r.Intn(3)], StartMs: fixedStart.UnixMilli()}
		cj := c.BeginV(k)
		dir := filepath.Join(c.WorkDir, fmt.Sprintf("proc%d", i))
		var res procResult
		var want []byte
		if app == "displayrtcm3" {
			os.MkdirAll(dir, 0755)
			os.WriteFile(filepath.Join(dir, "in.rtcm"), in, 0644)
			res = runAppProcess(c, filepath.Join(c.BinDir, app), []string{filepath.Join(dir, "in.rtcm"), "2023-05-17"}, nil, k, dir, nil)
			want = displayExpected(time.Date(2023, 5, 17, 0, 0, 0, 0, time.UTC), in)
		} else {
			os.MkdirAll(dir, 0755)
			os.WriteFile(filepath.Join(dir, "cfg.json"), []byte(`{"display_messages": false, "record_messages": false, "log_directory": "`+filepath.Join(dir, "msglog")+`"}`), 0644)
			res = runAppProcess(c, filepath.Join(c.BinDir, app), []string{"-c", filepath.Join(dir, "cfg.json")}, in, k, dir, nil)
			want, _, _ = filterExpected(in)
		}
		os.RemoveAll(dir)
		switch {
		case res.TimedOut:
			c.Inconclusive(app + " process did not exit within 90 s")
		case res.ExitCode != 0:
			sig := "crash"
			if strings.Contains(res.Stderr, "WARNING: DATA RACE") {
				sig = "data-race"
			}
			c.Violate(sig, fmt.Sprintf("%s exited with status %d:\n%s", app, res.ExitCode, clipText(res.Stderr)), cj)
		case bytes.Equal(res.Stdout, want):
			c.Count("process_output_complete", 1)
		case len(res.Stdout) < len(want) && bytes.Equal(res.Stdout, want[:len(res.Stdout)]):
			c.Violate("output-incomplete-at-exit", fmt.Sprintf("%s over a finite file wrote %d of the %d bytes of its output before it exited (stdout %s)", app, len(res.Stdout), len(want), k.StdoutMode), cj)
		default:
			c.Violate("output-differs", fmt.Sprintf("%s process output (%d bytes) is not a prefix of the expected output (%d bytes)", app, len(res.Stdout), len(want)), cj)
		}
		c.Eval(ref.Hash64(cj), len(in) > 0)
	}
}

func clipText(s string) string {
	if len(s) > 3000 {
		return s[:1500] + "\n...\n" + s[len(s)-1500:]
	}
	return s
}

// ---------------------------------------------------------------------------
// C10: rtcmfilter emits exactly the valid frames of its input

func monC10(c *child.Ctx, replay json.RawMessage) {
	r := ref.NewRand(c.Seed*613651349 + uint64(c.Batch)*633910099 + 10)
	judge := func(k appCase, o appObs, cj []byte) {
		input, _ := hex.DecodeString(k.Input)
		want, nmsgs, bad := filterExpected(input)
		if bad != "" {
			c.Violate("baseline-not-frames", bad, cj)
			return
		}
		if k.HasExpect {
			// the input was built from known segments: its valid frames are known by
			// construction, independently of the code under test
			want, _ = hex.DecodeString(k.Expect)
			c.Count("outputs_judged_by_construction", 1)
		}
		if !o.Quiescent {
			c.Inconclusive("writer goroutines did not become quiescent")
			return
		}
		got, _ := hex.DecodeString(o.Final)
		if !bytes.Equal(got, want) {
			c.Violate("filter-output-wrong", fmt.Sprintf("rtcmfilter wrote %d bytes; the valid frames of the input are %d bytes (display=%v record=%v): %s", len(got), len(want), k.Display, k.Record, firstDiff(got, want)), cj)
			return
		}
		if k.Record {
			rec := concatHexFiles(o.RecordFiles)
			if !bytes.Equal(rec, want) {
				c.Violate("record-file-wrong", fmt.Sprintf("the daily record file holds %d bytes; the valid frames of the input are %d bytes: %s", len(rec), len(want), firstDiff(rec, want)), cj)
				return
			}
			c.Count("record_files_checked", 1)
		}
		if k.Display {
			text := ""
			var names []string
			for n := range o.DisplayFiles {
				names = append(names, n)
			}
			sort.Strings(names)
			for _, n := range names {
				text += o.DisplayFiles[n]
			}
			entries := len(entryLine.FindAllString(text, -1))
			if entries != nmsgs {
				c.Violate("display-log-entries", fmt.Sprintf("the readable log has %d entries; %d messages were delivered", entries, nmsgs), cj)
				return
			}
			if why := sameInts(entryLengths(text), deliveredLengths(input)); why != "" {
				c.Violate("display-log-entries", "the readable log does not have one entry per delivered message in order: "+why, cj)
				return
			}
			c.Count("display_logs_checked", 1)
		}
		c.Count("filter_outputs_checked", 1)
		c.Count("bytes_expected", int64(len(want)))
	}
	runBatch := func(cases []appCase) {
		for len(cases) > 0 {
			n := len(cases)
			if n > 100 {
				n = 100
			}
			batch := cases[:n]
			cases = cases[n:]
			cj0, _ := json.Marshal(batch[0])
			c.Begin(cj0)
			obs, fail, cur := runAppTest(c, "rtcmfilter", batch)
			for _, k := range batch {
				o, ok := obs[k.ID]
				if !ok {
					continue
				}
				cj, _ := json.Marshal(k)
				judge(k, o, cj)
				input, _ := hex.DecodeString(k.Input)
				_, nm, _ := filterExpected(input)
				c.Eval(ref.Hash64(cj), nm >= 2)
				if c.WantSample() && k.Display && k.Record {
					kk := k
					kk.Input = fmt.Sprintf("(%d bytes)", len(input))
					c.Sample(map[string]interface{}{"case": kk, "bytes_written": len(o.Final) / 2})
				}
			}
			if fail != "" {
				var cj []byte
				if cur != nil {
					cj, _ = json.Marshal(cur)
				}
				if strings.HasPrefix(fail, "HANG-BUSY") {
					c.Inconclusive("rtcmfilter in-process executor made no progress for 75 s while goroutines were runnable")
					return
				}
				sig := "crash"
				if strings.Contains(fail, "WARNING: DATA RACE") {
					sig = "data-race"
				}
				if strings.HasPrefix(fail, "HANG-DEADLOCK") {
					sig = "deadlock"
				}
				c.Violate(sig, "rtcmfilter in-process executor died:\n"+fail, cj)
				return
			}
		}
	}
	if replay != nil {
		var k appCase
		json.Unmarshal(replay, &k)
		c.Begin(replay)
		var cases []appCase
		for i := 0; i < 20; i++ {
			kk := k
			kk.ID = i + 1
			kk.LogDir = ""
			cases = append(cases, kk)
		}
		if !k.Process {
			runBatch(cases)
		}
		return
	}
	n := c.Share(c.Pick(600, 16000))
	var cases []appCase
	for i := 0; i < n; i++ {
		in, frames, known := appInputX(r, i)
		if len(in) > 12000 && i%23 != 11 {
			in = in[:12000]
			known = false
		}
		mode, us := writerProfile(r)
		if mode == "block" {
			mode, us = "sleep", 100
		}
		k := appCase{ID: i + 1, App: "rtcmfilter", Input: hexs(in), Expect: hexs(frames), HasExpect: known, Display: i%4 >= 2, Record: i%2 == 1, Chunk: []int{1, 16, 300, 0, 5000}[r.Intn(5)], ReaderUs: []int{0, 0, 50}[r.Intn(3)], EOFWithData: r.Chance(1, 3),
			WriterMode: mode, WriterUs: us, Procs: []int{1, 2, 4, 16}[r.Intn(4)], StartMs: fixedStart.UnixMilli()}
		if k.Display && len(in) > 4000 && i%23 != 11 {
			k.Input = hexs(in[:4000])
			k.HasExpect = false
		}
		if i%5 == 3 {
			k.EmptyPermille = []int{30, 300}[r.Intn(2)]
			c.Count("cases_with_empty_reads", 1)
		}
		if i%11 == 6 && (k.Display || k.Record) {
			k.DefaultLogDir = true
			c.Count("cases_without_a_log_directory_in_the_configuration", 1)
		}
		if i%9 == 4 {
			// the device is unplugged: the input ends with a hard read error; everything
			// that was read before it is still filtered and written
			k.EndsWithError, k.EOFWithData = true, false
			c.Count("cases_ending_with_a_read_error", 1)
		}
		if i%10 == 8 && len(in) > 2 {
			k.EmptyRun, k.EmptyRunAt = []int{99, 100, 101, 250, 1000}[r.Intn(5)], r.Range(0, len(in)-1)
			c.Count("cases_with_many_empty_reads_in_a_row", 1)
		}
		k.Closer = i%4 == 2
		if i == 5 || (c.Thorough() && i%200 == 5) {
			// a live session: a second or more of small frames arriving one by one while
			// the output line is slow (the time a write takes grows with its size)
			var live, lf []byte
			for j := r.Range(150, 250); j > 0; j-- {
				var f gen.Seg
				for {
					f = gen.RandFrame(r)
					if len(f.Bytes) <= 40 {
						break
					}
				}
				live = append(live, f.Bytes...)
				lf = append(lf, f.Bytes...)
				if r.Chance(1, 4) {
					live = append(live, []byte("$GPTXT,live*00\r\n")[:r.Range(1, 16)]...)
				}
			}
			k.Input, k.Expect, k.HasExpect = hexs(live), hexs(lf), true
			k.Chunk, k.ReaderUs, k.EOFWithData = 40, r.Range(9000, 15000), false
			k.WriterMode, k.WriterUs = "perbyte", r.Range(30, 80)
			k.Display = false
			c.Count("live_sessions", 1)
		}
		if i == 9 && c.Batch < len(onceStalls(c)) {
			// one write is held up for seconds while further frames are waiting: nothing
			// may be given up on
			var in2, fr2 []byte
			for j := r.Range(300, 500); j > 0; j-- { // hundreds of frames arrive behind the held-up write
				var f gen.Seg
				for {
					f = gen.RandFrame(r)
					if len(f.Bytes) <= 40 {
						break
					}
				}
				in2 = append(in2, f.Bytes...)
				fr2 = append(fr2, f.Bytes...)
			}
			k.Input, k.Expect, k.HasExpect = hexs(in2), hexs(fr2), true
			k.Chunk, k.ReaderUs, k.EOFWithData = 0, 0, false
			k.WriterMode, k.WriterUs = "stallonce", int(onceStalls(c)[c.Batch].Microseconds())
			c.Count("sessions_with_one_write_held_up", 1)
		}
		if i == 12 && known && len(frames) > 0 {
			// the LAST write of all is the one that is held up, for longer than any plausible
			// grace period at shutdown: the call returns only when it has completed
			k.Input, k.Expect, k.HasExpect = hexs(in), hexs(frames), true
			k.Chunk, k.ReaderUs, k.EmptyPermille = 0, 0, 0
			k.WriterMode, k.WriterUs, k.StallAtTotal = "stalllast", []int{2600000, 4200000, 6500000}[c.Batch%3], len(frames)
			c.Count("sessions_whose_last_write_is_held_up", 1)
		}
		if ob := c.Batch - 1; i == 13 && ob >= 0 && ob < len(onceStalls(c)) {
			// the source falls silent once, for seconds, in the middle of a frame (a radio
			// link that drops out): the frame is completed when the rest arrives
			var in3, fr3 []byte
			pauseAt := 0
			nf := r.Range(4, 8)
			for j := 0; j < nf; j++ {
				f := gen.RandFrame(r)
				for len(f.Bytes) > 200 || len(f.Bytes) < 12 {
					f = gen.RandFrame(r)
				}
				if j == nf/2 {
					pauseAt = len(in3) + r.Range(1, len(f.Bytes)-1)
				}
				in3 = append(in3, f.Bytes...)
				fr3 = append(fr3, f.Bytes...)
			}
			k.Input, k.Expect, k.HasExpect = hexs(in3), hexs(fr3), true
			k.Chunk, k.ReaderUs, k.EOFWithData, k.EmptyPermille = 0, 0, false, 0
			k.WriterMode, k.WriterUs = "fast", 0
			k.PauseAtByte, k.PauseMs = pauseAt, int(onceStalls(c)[ob].Milliseconds())
			c.Count("sessions_with_a_silence_inside_a_frame", 1)
		}
		cases = append(cases, k)
	}
	runBatch(cases)

	// process level: the real binary, stdin from a pipe in random chunks or a file
	np := c.Share(c.Pick(60, 2000))
	for i := 0; i < np; i++ {
		in, frames, known := appInputX(r, i)
		if len(in) > 30000 {
			in = in[:30000]
			known = false
		}
		if i == 1 && c.Batch == 0 || c.Thorough() && i%100 == 1 {
			// a long session through one process: megabytes of frames and other data
			in, frames, known = nil, nil, true
			for len(in) < 3000000 {
				f := gen.RandFrame(r)
				in = append(in, f.Bytes...)
				frames = append(frames, f.Bytes...)
				if r.Chance(1, 5) {
					in = append(in, gen.Junk(r).Bytes...)
				}
			}
			c.Count("long_process_sessions", 1)
		}
		k := appCase{ID: 200000 + i, App: "rtcmfilter", Input: hexs(in), Expect: hexs(frames), HasExpect: known, Process: true, Display: i%4 >= 2, Record: i%2 == 1,
			StdinMode: []string{"file", "pipe"}[r.Intn(2)], StdoutMode: []string{"fast", "slow"}[r.Intn(2)], Chunk: []int{0, 1, 64}[r.Intn(3)], ReaderUs: []int{0, 200}[r.Intn(2)],
			Procs: []int{1, 2, 16}[r.Intn(3)], HookProfile: []string{"", "y200x2", "s10u200"}[r.Intn(3)]}
		if len(in) > 1000000 {
			k.Chunk, k.ReaderUs, k.Display, k.HookProfile = 0, 0, false, ""
		}
		if k.Chunk == 1 && len(in) > 3000 {
			in = in[:3000]
			k.Input = hexs(in)
			k.HasExpect = false
		}
		cj := c.BeginV(k)
		if len(in) > 1000000 {
			kk := k
			kk.Input, kk.Expect = fmt.Sprintf("(%d bytes: frames and other data from seed)", len(in)), ""
			cj = c.BeginV(kk)
		}
		dir := filepath.Join(c.WorkDir, fmt.Sprintf("proc%d", i))
		os.MkdirAll(dir, 0755)
		logDir := filepath.Join(dir, "msglog")
		os.WriteFile(filepath.Join(dir, "cfg.json"), []byte(fmt.Sprintf(`{"display_messages": %v, "record_messages": %v, "log_directory": %q}`, k.Display, k.Record, logDir)), 0644)
		res := runAppProcess(c, filepath.Join(c.BinDir, "rtcmfilter"), []string{"-c", filepath.Join(dir, "cfg.json")}, in, k, dir, nil)
		os.RemoveAll(dir)
		want, nmsgs, _ := filterExpected(in)
		if k.HasExpect {
			want = frames
			c.Count("outputs_judged_by_construction", 1)
		}
		switch {
		case res.TimedOut:
			c.Inconclusive("rtcmfilter process did not exit within 90 s")
		case res.ExitCode != 0:
			sig := "crash"
			if strings.Contains(res.Stderr, "WARNING: DATA RACE") {
				sig = "data-race"
			}
			c.Violate(sig, fmt.Sprintf("rtcmfilter exited with status %d:\n%s", res.ExitCode, clipText(res.Stderr)), cj)
		case !bytes.Equal(res.Stdout, want):
			c.Violate("filter-output-wrong", fmt.Sprintf("rtcmfilter process wrote %d bytes to stdout; the valid frames of the input are %d bytes: %s", len(res.Stdout), len(want), firstDiff(res.Stdout, want)), cj)
		default:
			c.Count("process_outputs_checked", 1)
			if k.Record {
				rec, _ := concatFiles(res.Files, "rtcmfilter.", ".rtcm")
				if !bytes.Equal(rec, want) {
					c.Violate("record-file-wrong", fmt.Sprintf("after the process ended the daily record file holds %d bytes; the valid frames of the input are %d bytes: %s", len(rec), len(want), firstDiff(rec, want)), cj)
				} else {
					c.Count("record_files_checked", 1)
				}
			}
			if k.Display {
				txt, _ := concatFiles(res.Files, "rtcm.", ".txt")
				if entries := len(entryLine.FindAllString(string(txt), -1)); entries != nmsgs {
					c.Violate("display-log-entries", fmt.Sprintf("after the process ended the readable log has %d entries; %d messages were delivered", entries, nmsgs), cj)
				} else if why := sameInts(entryLengths(string(txt)), deliveredLengths(in)); why != "" {
					c.Violate("display-log-entries", "after the process ended the readable log does not have one entry per delivered message in order: "+why, cj)
				} else {
					c.Count("display_logs_checked", 1)
				}
			}
		}
		c.Eval(ref.Hash64(cj), nmsgs >= 2)
	}
}

func firstDiff(got, want []byte) string {
	at := 0
	for at < len(got) && at < len(want) && got[at] == want[at] {
		at++
	}
	switch {
	case at == len(got) && at < len(want):
		return fmt.Sprintf("output is a strict prefix; %d bytes missing at the end", len(want)-len(got))
	case at == len(want) && at < len(got):
		return fmt.Sprintf("%d extra bytes at the end", len(got)-len(want))
	}
	return fmt.Sprintf("first difference at offset %d", at)
}

var _ = io.EOF
var _ = handler.Analyse

// openPty opens a new pseudo-terminal pair (Linux: /dev/ptmx, TIOCSPTLCK, TIOCGPTN).
func openPty() (master, slave *os.File, err error) {
	m, err := os.OpenFile("/dev/ptmx", os.O_RDWR|syscall.O_NOCTTY, 0)
	if err != nil {
		return nil, nil, err
	}
	var unlock int32
	if _, _, e := syscall.Syscall(syscall.SYS_IOCTL, m.Fd(), syscall.TIOCSPTLCK, uintptr(unsafe.Pointer(&unlock))); e != 0 {
		m.Close()
		return nil, nil, e
	}
	var n uint32
	if _, _, e := syscall.Syscall(syscall.SYS_IOCTL, m.Fd(), syscall.TIOCGPTN, uintptr(unsafe.Pointer(&n))); e != 0 {
		m.Close()
		return nil, nil, e
	}
	s, err := os.OpenFile(fmt.Sprintf("/dev/pts/%d", n), os.O_RDWR|syscall.O_NOCTTY, 0)
	if err != nil {
		m.Close()
		return nil, nil, err
	}
	return m, s, nil
}
