package main

import (
	"bytes"
	"fmt"
	"os"

	"github.com/goblimey/go-ntrip/rtcm/testdata"

	"verifharness/child"
	"verifharness/ref"
)

// capturedFrames are complete frames captured from real receivers (u-blox ZED-F9P
// data shipped in the repository's test data).  They anchor the reference code.
func capturedFrames() [][]byte {
	var out [][]byte
	add := func(b []byte) {
		// split a batch into frames using only the length field
		for len(b) >= 6 {
			if b[0] != 0xD3 {
				b = b[1:]
				continue
			}
			n := int(b[1]&3)<<8 | int(b[2])
			if n == 0 || len(b) < n+6 {
				b = b[1:]
				continue
			}
			f := b[:n+6]
			if ref.IsFrame(f) {
				out = append(out, append([]byte(nil), f...))
				b = b[n+6:]
			} else {
				b = b[1:]
			}
		}
	}
	add(testdata.MessageFrameType1005)
	add(testdata.MessageFrameType1006)
	add(testdata.MessageFrameType1077)
	add(testdata.MessageFrameType1074_1)
	add(testdata.MessageFrameType1074_2)
	add(testdata.MessageBatch)
	add(testdata.MessageBatchWith1077)
	add(testdata.MessageFrame1077)
	add(testdata.MessageBatchWithJunk)
	return out
}

// selfTest validates the reference artefacts before any verdict is trusted: the
// bitwise CRC must reproduce the CRC of every captured frame and the catalogue
// check value; re-framing a captured payload must reproduce the frame; every
// single-bit corruption of a captured frame must fail IsFrame; the bit writer and
// the math/big extractor must round-trip.
func selfTest(c *child.Ctx) {
	fail := func(s string) {
		fmt.Fprintln(os.Stderr, "SELFTEST FAILED:", s)
		os.Exit(5)
	}
	if ref.CRC24Q([]byte("123456789")) != 0xCDE703 {
		fail("CRC-24Q check value")
	}
	frames := capturedFrames()
	if len(frames) < 5 {
		fail(fmt.Sprintf("only %d captured frames found in rtcm/testdata", len(frames)))
	}
	for _, f := range frames {
		if !bytes.Equal(ref.Frame(f[3:len(f)-3]), f) {
			fail("re-framing a captured payload does not reproduce the captured frame")
		}
	}
	f := frames[0]
	for bit := 0; bit < len(f)*8; bit++ {
		g := append([]byte(nil), f...)
		g[bit/8] ^= 1 << uint(7-bit%8)
		if ref.IsFrame(g) {
			fail("IsFrame accepted a single-bit corruption of a captured frame")
		}
	}
	r := ref.NewRand(12345)
	for i := 0; i < 2000; i++ {
		var w ref.BitWriter
		type fld struct {
			v int64
			n uint
			s bool
		}
		var fs []fld
		for k := 0; k < 6; k++ {
			n := uint(r.Range(1, 64))
			s := r.Chance(1, 2) && n >= 2
			raw := r.Uint64()
			if n < 64 {
				raw &= (uint64(1) << n) - 1
			}
			v := int64(raw)
			if s {
				// interpret as two's complement of width n
				if n < 64 && raw&(uint64(1)<<(n-1)) != 0 {
					v = int64(raw) - int64(uint64(1)<<n)
				}
				w.PutSigned(v, n)
			} else {
				w.Put(raw, n)
			}
			fs = append(fs, fld{v, n, s})
		}
		buf := w.Bytes()
		pos := uint(0)
		for _, x := range fs {
			if x.s {
				got := ref.BitsBigSigned(buf, pos, x.n)
				if !got.IsInt64() || got.Int64() != x.v {
					fail("bit writer / big extractor signed round trip")
				}
			} else {
				got := ref.BitsBig(buf, pos, x.n)
				if got.Uint64() != uint64(x.v) {
					fail("bit writer / big extractor unsigned round trip")
				}
			}
			pos += x.n
		}
	}
	c.Count("selftest_captured_frames", int64(len(frames)))
}
