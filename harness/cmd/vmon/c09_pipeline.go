package main

import (
	"bufio"
	"bytes"
	"encoding/json"
	"errors"
	"fmt"
	"io"
	"log"
	"log/slog"
	"regexp"
	"runtime"
	"strings"
	"time"

	"github.com/goblimey/go-ntrip/apps/appcore"
	"github.com/goblimey/go-ntrip/jsonconfig"
	"github.com/goblimey/go-ntrip/rtcm/handler"
	"github.com/goblimey/go-ntrip/rtcm/testdata"
	"github.com/goblimey/go-ntrip/verifhook"

	"verifharness/child"
	"verifharness/gen"
	"verifharness/ref"
)

func init() { monitors["C09"] = monC09 }

type consumerCfg struct {
	Nil     bool `json:"nil,omitempty"`
	Cap     int  `json:"cap"`
	Profile int  `json:"profile"` // 0 fast, 1 yields, 2 slow 50us-2ms, 3 bursty
	// the consumer is held up once, for StallMs, after it has received StallAtMsg messages
	StallAtMsg int `json:"stall_after_messages,omitempty"`
	StallMs    int `json:"stall_ms,omitempty"`
}

type pipeCase struct {
	Input     string        `json:"input"`
	More      []string      `json:"more_inputs,omitempty"` // further sources processed through the SAME AppCore, one after the other
	Chunk     int           `json:"chunk_max"`             // reader delivers 1..Chunk bytes per call
	ReaderPro int           `json:"reader_profile"`
	Procs     int           `json:"gomaxprocs"`
	Consumers []consumerCfg `json:"consumers"`
	Hook      string        `json:"hook_profile"`
	Seed      uint64        `json:"sched_seed"`
	// transient interruptions (only with a non-zero tolerance): the reader reports one
	// end-of-file at each of these byte offsets of the first source, pausing first
	TolMs   uint  `json:"tolerance_ms,omitempty"`
	EOFAt   []int `json:"transient_eof_at,omitempty"`
	PauseMs []int `json:"pause_before_eof_ms,omitempty"`
	// the reader returns its final chunk together with io.EOF (allowed by io.Reader)
	EOFWithData bool `json:"eof_with_last_chunk,omitempty"`
	// the reader now and then returns (0, nil): an empty chunk (allowed by io.Reader)
	EmptyPermille int `json:"empty_reads_permille,omitempty"`
	// the source falls silent for SilenceMs before it supplies the byte at each of
	// these offsets of the first source (no end-of-file is reported: the read blocks)
	SilenceAt []int `json:"silence_before_offsets,omitempty"`
	SilenceMs int   `json:"silence_ms,omitempty"`
	// every other transient interruption is an i/o timeout error instead of end-of-file
	Timeouts bool `json:"interruptions_include_io_timeouts,omitempty"`
	// at offset EmptyRunAt of the first source the reader returns (0, nil) EmptyRun
	// times in a row (a serial library that reports "nothing yet" that way)
	EmptyRun   int `json:"empty_reads_in_a_row,omitempty"`
	EmptyRunAt int `json:"empty_run_at_offset,omitempty"`
	// the last source ends with a hard read error instead of end-of-file
	EndsWithError bool `json:"ends_with_a_read_error,omitempty"`
	// the pause after a first end-of-file (wait_time_on_EOF_millis; 0 = 1 ms).  It may
	// be longer than the tolerance: a single interruption is still resumed from
	WaitMs uint `json:"wait_ms,omitempty"`
	// the configuration carries a system log (what is logged changes nothing)
	WithLog bool `json:"system_log,omitempty"`
	// a read timeout in the same configuration (it is applied when the input is opened;
	// it says nothing about how an end-of-file result is to be treated)
	ReadTimeoutMs uint `json:"read_timeout_ms,omitempty"`
}

// chunkReader hands out the input in chunks with pauses, then reports io.EOF.
type chunkReader struct {
	data    []byte
	max     int
	profile int
	r       *ref.SplitMix64
	off     int
	eofAt   []int
	pauseMs []int

	eofWithData   bool
	emptyPermille int
	lastEmpty     bool
	silenceAt     []int
	silence       time.Duration
	// the longest time between two end-of-file results returned by consecutive reads
	lastEOF   time.Time
	maxEOFGap time.Duration
	// every other transient interruption is reported as an i/o timeout instead of EOF
	timeouts       bool
	nInterruptions int
	emptyRun       int
	emptyRunAt     int
	endErr         error
}

func (cr *chunkReader) noteEOF() {
	now := time.Now()
	if !cr.lastEOF.IsZero() {
		if g := now.Sub(cr.lastEOF); g > cr.maxEOFGap {
			cr.maxEOFGap = g
		}
	}
	cr.lastEOF = now
}

func (cr *chunkReader) Read(p []byte) (int, error) {
	tick()
	perturb(cr.r, cr.profile)
	if len(cr.data) == 0 {
		if cr.endErr != nil {
			return 0, cr.endErr
		}
		return 0, io.EOF
	}
	if cr.emptyRun > 0 && cr.off >= cr.emptyRunAt {
		cr.emptyRun--
		return 0, nil
	}
	if cr.emptyPermille > 0 && !cr.lastEmpty && cr.r.Intn(1000) < cr.emptyPermille {
		cr.lastEmpty = true
		return 0, nil
	}
	cr.lastEmpty = false
	n := 1 + cr.r.Intn(cr.max)
	for len(cr.silenceAt) > 0 && cr.silenceAt[0] < cr.off {
		cr.silenceAt = cr.silenceAt[1:]
	}
	if len(cr.silenceAt) > 0 {
		if cr.silenceAt[0] == cr.off {
			sleepTicking(cr.silence)
			cr.silenceAt = cr.silenceAt[1:]
		}
		if len(cr.silenceAt) > 0 && cr.off+n > cr.silenceAt[0] {
			n = cr.silenceAt[0] - cr.off
		}
	}
	if len(cr.eofAt) > 0 {
		if cr.off >= cr.eofAt[0] {
			// a transient end of file: the next read supplies data again
			if len(cr.pauseMs) > 0 {
				time.Sleep(time.Duration(cr.pauseMs[0]) * time.Millisecond)
				cr.pauseMs = cr.pauseMs[1:]
			}
			cr.eofAt = cr.eofAt[1:]
			cr.noteEOF()
			cr.nInterruptions++
			if cr.timeouts && cr.nInterruptions%2 == 1 {
				// the source's own way of saying "nothing yet"
				return 0, errors.New("read /dev/ttyUSB0: i/o timeout")
			}
			return 0, io.EOF
		}
		if cr.off+n > cr.eofAt[0] {
			n = cr.eofAt[0] - cr.off
		}
	}
	if n > len(p) {
		n = len(p)
	}
	if n > len(cr.data) {
		n = len(cr.data)
	}
	copy(p, cr.data[:n])
	cr.data = cr.data[n:]
	cr.off += n
	cr.lastEOF = time.Time{}
	if cr.eofWithData && len(cr.data) == 0 {
		return n, io.EOF
	}
	return n, nil
}

func consumerDelay(r *ref.SplitMix64, profile int) {
	switch profile {
	case 0:
	case 1:
		if r.Chance(1, 2) {
			runtime.Gosched()
		}
	case 2:
		time.Sleep(time.Duration(r.Range(50, 2000)) * time.Microsecond)
	case 3:
		if r.Chance(1, 8) {
			time.Sleep(time.Duration(r.Range(500, 3000)) * time.Microsecond)
		}
	}
}

var helperFrame = regexp.MustCompile(`\n\t` + regexp.QuoteMeta(repoRoot) + `/(file_handler/file_handler|rtcm/handler/handler|rtcm/pushback/byte_channel|apps/appcore/app_core)\.go:\d+`)

// helperGoroutines returns the stack blocks of goroutines (other than the caller)
// that are executing the pipeline's helper code, and whether each is blocked.
func helperGoroutines() (blocks []string, allBlocked bool) {
	buf := make([]byte, 4<<20)
	n := runtime.Stack(buf, true)
	allBlocked = true
	for i, g := range strings.Split(string(buf[:n]), "\n\n") {
		if i == 0 {
			continue // the calling goroutine
		}
		if !helperFrame.MatchString(g) {
			continue
		}
		blocks = append(blocks, g)
		hdr := g
		if j := strings.IndexByte(g, '\n'); j >= 0 {
			hdr = g[:j]
		}
		if !(strings.Contains(hdr, "chan send") || strings.Contains(hdr, "chan receive") || strings.Contains(hdr, "select") || strings.Contains(hdr, "semacquire") || strings.Contains(hdr, "sync.")) {
			allBlocked = false
		}
	}
	return
}

type recvd struct {
	Type int
	Raw  []byte // the slice as received (shares whatever the pipeline shares)
	Copy []byte // private copy taken at the moment of receipt
}

func execC09(c *child.Ctx, k pipeCase, cj []byte, traces, pairs map[uint64]struct{}) int {
	inputs := [][]byte{unhex(k.Input)}
	for _, m := range k.More {
		inputs = append(inputs, unhex(m))
	}
	if k.Procs > 0 {
		runtime.GOMAXPROCS(k.Procs)
	}
	// sequential framing of the same bytes: each source is framed on its own, as
	// the file handler creates a fresh RTCM handler per source
	var baseline []handler.Message
	for _, in := range inputs {
		baseline = append(baseline, runSequential(fixedStart, slog.LevelDebug, in)...)
	}

	channels := make([]chan handler.Message, len(k.Consumers))
	results := make([][]recvd, len(k.Consumers))
	consDone := make([]chan struct{}, len(k.Consumers))
	for i, cc := range k.Consumers {
		if cc.Nil {
			continue
		}
		channels[i] = make(chan handler.Message, cc.Cap)
		consDone[i] = make(chan struct{})
		go func(i int, cc consumerCfg) {
			r := ref.NewRand(k.Seed*31 + uint64(i))
			for m := range channels[i] {
				tick()
				results[i] = append(results[i], recvd{Type: m.MessageType, Raw: m.RawData, Copy: append([]byte(nil), m.RawData...)})
				consumerDelay(r, cc.Profile)
				if cc.StallMs > 0 && len(results[i]) == cc.StallAtMsg {
					sleepTicking(time.Duration(cc.StallMs) * time.Millisecond)
				}
			}
			close(consDone[i])
		}(i, cc)
	}
	cfg := &jsonconfig.Config{} // zero tolerance: stop at the first end of file
	if k.TolMs > 0 {
		cfg = &jsonconfig.Config{WaitTimeOnEOFMilliseconds: 1, TimeoutOnEOFMilliSeconds: k.TolMs}
		if k.WaitMs > 0 {
			cfg.WaitTimeOnEOFMilliseconds = k.WaitMs
		}
	}
	if k.WithLog {
		cfg.SystemLog = log.New(io.Discard, "c09 ", log.LstdFlags)
	}
	cfg.ReadTimeoutMilliSeconds = k.ReadTimeoutMs
	core := appcore.New(cfg, channels)

	verifhook.Begin(k.Seed, k.Hook)
	leaked := ""
	blockedStreak := 0
	var firstReader *chunkReader
	for si, input := range inputs {
		cr := &chunkReader{data: input, max: k.Chunk, profile: k.ReaderPro, r: ref.NewRand(k.Seed*17 + 5 + uint64(si)), eofWithData: k.EOFWithData, emptyPermille: k.EmptyPermille}
		if si == 0 {
			cr.emptyRun, cr.emptyRunAt = k.EmptyRun, k.EmptyRunAt
		}
		if si == len(inputs)-1 && k.EndsWithError {
			cr.endErr = errors.New("read /dev/ttyUSB0: input/output error")
		}
		if si == 0 && k.SilenceMs > 0 {
			cr.silenceAt = append([]int(nil), k.SilenceAt...)
			cr.silence = time.Duration(k.SilenceMs) * time.Millisecond
		}
		if si == 0 && k.TolMs > 0 {
			cr.timeouts = k.Timeouts
			cr.eofAt = append([]int(nil), k.EOFAt...)
			cr.pauseMs = append([]int(nil), k.PauseMs...)
		}
		if si > 0 && k.TolMs > 0 && len(input) > 0 {
			// a later source through the same AppCore begins with a quiet spell: its very
			// first read reports end of file (or a timeout), then the data comes
			cr.timeouts = si%2 == 0
			cr.eofAt = []int{0}
			cr.pauseMs = []int{0}
		}
		if si == 0 {
			firstReader = cr
		}
		rd := bufio.NewReader(cr)
		returned := make(chan struct{})
		ret := -1
		go func() {
			ret = core.HandleMessagesUntilEOF(fixedStart, rd)
			close(returned)
		}()
		extraWait := time.Duration((len(k.SilenceAt)+1)*k.SilenceMs) * time.Millisecond
		for _, cc := range k.Consumers {
			extraWait += time.Duration(cc.StallMs) * time.Millisecond
		}
		waitOrHang(returned, caseWatchdog+extraWait, "HandleMessagesUntilEOF did not return after the source was exhausted")
		if ret != 0 {
			c.Violate("wrong-return", fmt.Sprintf("HandleMessagesUntilEOF returned %d for source %d", ret, si), cj)
		}

		// all helper goroutines must finish: sample the goroutine states
		leaked = ""
		blockedStreak = 0
		for s := 0; s < 400; s++ {
			blocks, allBlocked := helperGoroutines()
			if len(blocks) == 0 {
				leaked = ""
				blockedStreak = 0
				break
			}
			leaked = strings.Join(blocks, "\n\n")
			if allBlocked {
				blockedStreak++
			} else {
				blockedStreak = 0
			}
			if blockedStreak >= 40 { // blocked in every sample for >= 200 ms: nothing can wake it
				break
			}
			time.Sleep(5 * time.Millisecond)
		}
		if leaked != "" {
			break
		}
	}
	sum := verifhook.End()
	if leaked != "" {
		if blockedStreak >= 40 {
			c.Violate("helper-goroutine-left-blocked", "after HandleMessagesUntilEOF returned a helper goroutine stays blocked:\n"+leaked, cj)
		} else {
			c.Inconclusive("a helper goroutine was still runnable 2 s after return")
		}
	}

	// the caller owns the consumer channels: close them, let the consumers drain
	for i := range channels {
		if channels[i] != nil {
			close(channels[i])
		}
	}
	for i := range consDone {
		if consDone[i] != nil {
			waitOrHang(consDone[i], caseWatchdog, "monitor consumer did not finish")
		}
	}
	nmsgs := 0
	for i, cc := range k.Consumers {
		if cc.Nil {
			continue
		}
		got := results[i]
		nmsgs += len(got)
		n := len(got)
		if len(baseline) < n {
			n = len(baseline)
		}
		bad := ""
		for j := 0; j < n; j++ {
			if got[j].Type != baseline[j].MessageType || !bytes.Equal(got[j].Copy, baseline[j].RawData) {
				bad = fmt.Sprintf("consumer %d, message %d: got (type %d, %d bytes %s), sequential framing gives (type %d, %d bytes %s)", i, j,
					got[j].Type, len(got[j].Copy), clip(hexs(got[j].Copy)), baseline[j].MessageType, len(baseline[j].RawData), clip(hexs(baseline[j].RawData)))
				break
			}
			if !bytes.Equal(got[j].Raw, got[j].Copy) {
				bad = fmt.Sprintf("consumer %d, message %d: the raw bytes changed after delivery (was %s, now %s)", i, j, clip(hexs(got[j].Copy)), clip(hexs(got[j].Raw)))
				break
			}
		}
		if bad == "" && len(got) != len(baseline) {
			bad = fmt.Sprintf("consumer %d received %d messages, sequential framing of the same bytes gives %d", i, len(got), len(baseline))
		}
		if bad != "" {
			// a double end-of-file is within the tolerance only if the machine got from the
			// first to the second in time; if it did not (measured by the reader itself),
			// the handler was entitled to give up and the run says nothing
			if k.TolMs > 0 && firstReader != nil && firstReader.maxEOFGap > time.Duration(k.TolMs)*time.Millisecond/2 {
				c.Count("interruption_runs_discarded_machine_stalled", 1)
				return -1
			}
			c.Violate("consumer-sequence-differs", bad, cj)
		}
	}
	c.Count("messages_received_by_consumers", int64(nmsgs))
	c.Count("sources_processed", int64(len(inputs)))
	c.Count("hook_events", int64(sum.Events))
	if traces != nil {
		traces[sum.TraceHash] = struct{}{}
		for _, p := range sum.Pairs {
			pairs[p] = struct{}{}
		}
	}
	return len(baseline)
}

func monC09(c *child.Ctx, replay json.RawMessage) {
	if replay != nil {
		var k pipeCase
		json.Unmarshal(replay, &k)
		c.Begin(replay)
		for i := 0; i < 200 && c.NViolations() == 0; i++ {
			k.Seed += uint64(i)
			execC09(c, k, replay, nil, nil)
		}
		c.Eval(1, true)
		return
	}
	r := ref.NewRand(c.Seed*413158511 + uint64(c.Batch)*433494437 + 9)
	traces := map[uint64]struct{}{}
	pairs := map[uint64]struct{}{}
	procs := []int{1, 2, 3, 4, 8, 16}
	hooks := []string{"", "y400x2", "y150x1,s30u150", "s8u400", "y50x3"}
	caps := []int{0, 1, 4, 64}
	n := c.Share(c.Pick(1200, 30000))
	for i := 0; i < n; i++ {
		var input []byte
		switch i % 6 {
		case 0:
			input = append([]byte(nil), testdata.MessageBatchWithJunk...)
		case 1:
			input = append([]byte(nil), testdata.MessageBatch...)
		default:
			for len(input) < r.Range(200, 6000) {
				if r.Chance(1, 3) {
					input = append(input, gen.HostileStream(r, false).Bytes()...)
				} else {
					input = append(input, gen.CleanStream(r, gen.CleanOpts{MinFrames: 2, MaxFrames: 8, TruncTail: false}).Bytes()...)
				}
			}
			if len(input) > 12000 {
				input = input[:12000]
			}
		}
		if i%25 == 3 {
			input = nil // a source that never yields a byte: the call must still return
		}
		nc := r.Range(1, 4)
		k := pipeCase{EOFWithData: r.Chance(1, 4), Input: hexs(input), Chunk: []int{1, 2, 7, 64, 500, 5000}[r.Intn(6)], ReaderPro: r.Intn(4), Procs: procs[r.Intn(len(procs))],
			Hook: hooks[r.Intn(len(hooks))], Seed: r.Uint64() >> 1}
		real := 0
		slow := false
		for j := 0; j < nc; j++ {
			cc := consumerCfg{Cap: caps[r.Intn(len(caps))], Profile: r.Intn(4), Nil: r.Chance(1, 6)}
			if !cc.Nil {
				real++
				if cc.Profile >= 2 {
					slow = true
				}
			}
			k.Consumers = append(k.Consumers, cc)
		}
		if i%31 == 13 {
			// nobody is listening: a list of one nil entry, of two, an empty list - the
			// call still reads its source to the end and returns
			k.Consumers = [][]consumerCfg{{{Nil: true}}, {{Nil: true}, {Nil: true}}, {}}[(i/31)%3]
			real, slow = 0, false
			c.Count("runs_without_any_live_consumer", 1)
		} else if real == 0 {
			k.Consumers[0].Nil = false
			real = 1
		}
		if slow && len(input) > 4000 {
			// keep slow runs short
			input = input[:4000]
			k.Input = hexs(input)
		}
		if r.Chance(1, 3) {
			// the production loop reconnects and feeds a new source through the same AppCore
			for extra := r.Range(1, 2); extra > 0; extra-- {
				more := gen.CleanStream(r, gen.CleanOpts{MinFrames: 1, MaxFrames: 5, TruncTail: true}).Bytes()
				if extra == 1 && r.Chance(1, 4) {
					more = []byte("no frames in this source")
				}
				if r.Chance(1, 8) {
					more = nil // an empty source between others
				}
				if len(more) > 3000 {
					more = more[:3000]
				}
				k.More = append(k.More, hexs(more))
			}
		}
		if i%8 == 5 && !slow && len(input) > 4 {
			// a live source: bursts separated by single transient end-of-file results
			// (each within the tolerance), some of them far apart in time
			k.TolMs = 60
			n := r.Range(2, 4)
			at := 0
			for e := 0; e < n && at < len(input)-2; e++ {
				at = r.Range(at+1, len(input)-1)
				k.EOFAt = append(k.EOFAt, at)
				if e > 0 && r.Chance(2, 3) {
					k.PauseMs = append(k.PauseMs, r.Range(70, 110)) // longer than the tolerance since the previous interruption
				} else {
					k.PauseMs = append(k.PauseMs, 0)
				}
			}
		}
		if k.TolMs > 0 && len(k.More) > 0 {
			c.Count("runs_with_later_sources_that_start_quiet", 1)
		}
		if k.TolMs > 0 && len(k.EOFAt) > 0 && (i/8)%3 == 1 {
			// a pause after the first end-of-file that is longer than the tolerance
			k.WaitMs = k.TolMs + uint(r.Range(5, 45))
			c.Count("runs_with_a_pause_longer_than_the_tolerance", 1)
		}
		if i%3 == 2 {
			k.ReadTimeoutMs = []uint{1, 200, 3000}[r.Intn(3)]
			c.Count("runs_with_a_read_timeout_configured", 1)
		}
		if i%4 == 1 {
			k.WithLog = true
			c.Count("runs_with_a_system_log", 1)
		}
		if i%5 == 2 {
			k.EmptyPermille = []int{20, 200, 500}[r.Intn(3)]
			c.Count("runs_with_empty_reads", 1)
		}
		if sb := c.Batch - 1; i == 0 && sb >= 0 && sb < len(timedStalls(c)) {
			// a source that falls silent in the middle of text, in the middle of frames and
			// between them, for longer than any plausible flush or idle timer
			st := gen.Stream{gen.RandFrame(r), gen.Seg{Kind: "junk", Type: -1, Bytes: []byte("$GPGGA,123519,4807.038,N,01131.000,E,1,08,0.9,545.4,M,46.9,M,,*47\r\n")}, gen.RandFrame(r),
				gen.Seg{Kind: "junk", Type: -1, Bytes: gen.NoD3(r.Bytes(r.Range(2, 40)))}, gen.RandFrame(r)}
			k.Input, k.More, k.TolMs, k.EOFAt, k.PauseMs = hexs(st.Bytes()), nil, 0, nil, nil
			input = st.Bytes()
			off := 0
			for _, g := range st {
				k.SilenceAt = append(k.SilenceAt, off+len(g.Bytes)/2)
				off += len(g.Bytes)
				k.SilenceAt = append(k.SilenceAt, off-1)
			}
			k.SilenceMs = int(timedStalls(c)[sb].Milliseconds())
			k.Chunk = 64
			c.Count("runs_with_silent_source", 1)
		}
		if i == 1 && c.Batch < len(onceStalls(c)) {
			// one consumer is held up once, for seconds, while the source keeps sending;
			// the other consumers, and this one afterwards, still get everything
			for j := range k.Consumers {
				if !k.Consumers[j].Nil {
					k.Consumers[j].StallAtMsg = r.Range(1, 3)
					k.Consumers[j].StallMs = int(onceStalls(c)[c.Batch].Milliseconds())
					k.Consumers[j].Cap = []int{0, 1}[r.Intn(2)]
					break
				}
			}
			c.Count("runs_with_a_consumer_held_up_once", 1)
		} else if i%8 == 6 && len(input) > 200 && k.SilenceMs == 0 {
			// a transient double end-of-file right after a consumer was held up for longer
			// than the tolerance: the hold-up is not silence of the source
			k.TolMs, k.More, k.EOFAt, k.PauseMs = 200, nil, nil, nil
			k.Consumers = []consumerCfg{{Cap: 0, Profile: 0, StallAtMsg: r.Range(1, 3), StallMs: r.Range(260, 330)}}
			base := runSequential(fixedStart, slog.LevelDebug, input)
			// ONE interruption (a double end-of-file), placed one byte into one of the
			// messages that follow the one the consumer is holding: when the pipeline has
			// backed up behind the consumer, the byte in flight is the first byte of some
			// message, how many messages further on depends on the buffering in between.
			// Nothing may interrupt the source before that point, or the hold-up is over
			// before the pipeline has backed up.
			target := k.Consumers[0].StallAtMsg - 1 + (i/8)%8
			off := 0
			for mi := range base {
				off += len(base[mi].RawData)
				if mi == target && off+1 < len(input) {
					k.EOFAt = []int{off + 1, off + 1}
					k.PauseMs = []int{0, 0}
				}
			}
			k.Chunk = 5000
			c.Count("runs_with_interruption_after_a_held_up_consumer", 1)
		}
		if i%12 == 7 && len(input) > 2 {
			k.EmptyRun, k.EmptyRunAt = []int{99, 100, 101, 250, 1000}[r.Intn(5)], r.Range(0, len(input)-1)
			c.Count("runs_with_many_empty_reads_in_a_row", 1)
		}
		if i%10 == 4 {
			// the device is unplugged: a hard read error ends the last source; what was
			// received is delivered and the call returns
			k.EndsWithError = true
			c.Count("runs_ending_with_a_read_error", 1)
		}
		if k.TolMs > 0 && i%3 == 0 && i%8 != 6 && len(input) > 0 {
			// a serial line that delivers NUL bytes while it settles
			input = append(make([]byte, r.Range(1, 9)), input...)
			k.Input = hexs(input)
			for j := range k.EOFAt {
				k.EOFAt[j] += 0 // offsets still lie inside the data
			}
			c.Count("live_feeds_beginning_with_nul_bytes", 1)
		}
		if k.TolMs > 0 && i%16 >= 8 {
			k.Timeouts = true
			c.Count("runs_with_io_timeout_interruptions", 1)
		}
		if i%40 == 9 {
			// a long consumer list, most entries nil, the live ones far down the list
			// and not always ready
			var long []consumerCfg
			for j := r.Range(33, 70); j > 0; j-- {
				long = append(long, consumerCfg{Nil: true})
			}
			for _, at := range []int{0, len(long) - 1, 32 + r.Intn(len(long)-32), 31} {
				long[at] = consumerCfg{Cap: []int{0, 1}[r.Intn(2)], Profile: 2 + r.Intn(2)}
			}
			k.Consumers = long
			if len(input) > 3000 {
				input = input[:3000]
				k.Input = hexs(input)
			}
			c.Count("runs_with_a_long_consumer_list", 1)
		}
		cj := c.BeginV(k)
		nbase := execC09(c, k, cj, traces, pairs)
		for try := 0; nbase < 0 && try < 3; try++ {
			nbase = execC09(c, k, cj, traces, pairs)
		}
		if nbase < 0 {
			c.Inconclusive("the machine stalled between two end-of-file results in four runs of one case")
			c.EvalN(1)
			continue
		}
		perturbed := k.Hook != "" || k.ReaderPro != 0 || slow
		c.Eval(ref.Hash64(cj), real >= 2 && nbase >= 10 && perturbed)
		if c.WantSample() && real >= 2 && perturbed {
			kk := k
			kk.Input = fmt.Sprintf("(%d bytes)", len(input))
			c.Sample(kk)
		}
	}
	c.Count("distinct_interleavings_observed", int64(len(traces)))
	c.Count("max_distinct_adjacent_site_pairs", int64(len(pairs)))
	c.Count("max_hook_sites_in_build", int64(verifhook.NumSites()))
}
