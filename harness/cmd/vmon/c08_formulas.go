package main

import (
	"encoding/json"
	"fmt"
	"log/slog"
	"math"
	"math/big"
	"sort"
	"strings"
	"sync"

	msm4msg "github.com/goblimey/go-ntrip/rtcm/type_msm4/message"
	msm4sat "github.com/goblimey/go-ntrip/rtcm/type_msm4/satellite"
	msm4sig "github.com/goblimey/go-ntrip/rtcm/type_msm4/signal"
	msm7msg "github.com/goblimey/go-ntrip/rtcm/type_msm7/message"
	msm7sat "github.com/goblimey/go-ntrip/rtcm/type_msm7/satellite"
	msm7sig "github.com/goblimey/go-ntrip/rtcm/type_msm7/signal"

	"verifharness/child"
	"verifharness/gen"
	"verifharness/ref"
)

func init() { monitors["C08"] = monC08 }

// Carrier frequencies (Hz) per constellation and signal id, pinned here from the
// constants the library documents (GPS L1/L2/L5, Galileo E1/E6/E5b/E5a+b/E5a,
// GLONASS G1/G2 base frequencies, BeiDou B1/B3/B2).  The property does not fix the
// physical values; it requires the reported quantities to be consistent with the
// documented wavelength, so a changed constant is caught.
var c08Freq = map[string]map[uint]float64{
	"GPS": {2: 1.57542e9, 3: 1.57542e9, 4: 1.57542e9, 8: 1.2276e9, 9: 1.2276e9, 10: 1.2276e9, 15: 1.2276e9, 16: 1.2276e9, 17: 1.2276e9,
		22: 1.17645e9, 23: 1.17645e9, 24: 1.17645e9, 30: 1.57542e9, 31: 1.57542e9, 32: 1.57542e9},
	"Galileo": {2: 1.57542e9, 3: 1.57542e9, 4: 1.57542e9, 5: 1.57542e9, 6: 1.57542e9, 8: 1.27875e9, 9: 1.27875e9, 10: 1.27875e9, 11: 1.27875e9, 12: 1.27875e9,
		14: 1.20714e9, 15: 1.20714e9, 16: 1.20714e9, 18: 1.191795e9, 19: 1.191795e9, 20: 1.191795e9, 22: 1.17645e9, 23: 1.17645e9, 24: 1.17645e9},
	"Glonass": {2: 1.602e9, 3: 1.602e9, 8: 1.246e9, 9: 1.246e9},
	"Beidou":  {2: 1.561098e9, 3: 1.561098e9, 4: 1.561098e9, 8: 1.26852e9, 9: 1.26852e9, 10: 1.26852e9, 14: 1.17645e9, 15: 1.17645e9, 16: 1.17645e9},
}

const c08Prec = 200

func bf(v float64) *big.Float { return new(big.Float).SetPrec(c08Prec).SetFloat64(v) }
func bi(v int64) *big.Float   { return new(big.Float).SetPrec(c08Prec).SetInt64(v) }

var (
	bigC   = bi(299792458)                                                // speed of light, m/s
	bigCms = new(big.Float).SetPrec(c08Prec).Quo(bi(299792458), bi(1000)) // metres per light millisecond
	relTol = 1e-12
)

// sumMs returns whole + frac/1024 + fine * 2^-shift, exactly.
func sumMs(whole, frac uint, fine int64, shift uint) *big.Float {
	r := bi(int64(whole))
	f := new(big.Float).SetPrec(c08Prec).Quo(bi(int64(frac)), bi(1024))
	r.Add(r, f)
	d := new(big.Float).SetPrec(c08Prec).Quo(bi(fine), new(big.Float).SetPrec(c08Prec).SetInt(new(big.Int).Lsh(big.NewInt(1), shift)))
	r.Add(r, d)
	return r
}

// closeTo reports whether got equals want to within relative 1e-12 (absolute 1e-12 near zero).
func closeTo(got float64, want *big.Float) bool {
	if math.IsNaN(got) || math.IsInf(got, 0) {
		return false
	}
	w, _ := want.Float64()
	diff := new(big.Float).SetPrec(c08Prec).Sub(bf(got), want)
	diff.Abs(diff)
	d, _ := diff.Float64()
	scale := math.Abs(w)
	if scale < 1 {
		scale = 1
	}
	return d <= relTol*scale
}

// textHas3 reports whether text contains want printed with three decimals
// (tolerating a rounding-boundary difference of one unit in the last place).
func textHas3(text string, want *big.Float) bool {
	w, _ := want.Float64()
	for _, v := range []float64{w, w + 0.0005, w - 0.0005} {
		if strings.Contains(text, fmt.Sprintf("%.3f", v)) {
			return true
		}
	}
	return false
}

type cellCase struct {
	Type   int     `json:"type"`
	Sat    ref.Sat `json:"sat"`
	Sig    ref.Sig `json:"sig"`
	SigID  uint    `json:"sig_id"`
	Direct bool    `json:"direct"`
}

// checkCell4 compares an MSM4 signal cell's results with the formulas.
func checkCell4(c *child.Ctx, k cellCase, cell *msm4sig.Cell, lambda float64, cj []byte) {
	sat, sig := k.Sat, k.Sig
	invalidRough := sat.Whole == 255
	fineR := int64(sig.RangeDelta)
	if sig.RangeDelta == -16384 {
		fineR = 0 // invalid fine value: fall back to the rough value alone
	}
	fineP := int64(sig.PhaseDelta)
	if sig.PhaseDelta == -2097152 {
		fineP = 0
	}
	rangeMs := sumMs(sat.Whole, sat.Frac, fineR, 24)
	phaseMs := sumMs(sat.Whole, sat.Frac, fineP, 29)
	gotRange := cell.RangeInMetres()
	text := cell.String()
	if invalidRough {
		if gotRange != 0 || cell.GetAggregateRange() != 0 || cell.GetAggregatePhaseRange() != 0 {
			c.Violate("invalid-rough-not-invalid", fmt.Sprintf("MSM4 cell with invalid rough range reports range %v", gotRange), cj)
		}
		if lambda != 0 && cell.PhaseRange() != 0 {
			c.Violate("invalid-rough-not-invalid", fmt.Sprintf("MSM4 cell with invalid rough range reports phase range %v", cell.PhaseRange()), cj)
		}
		if !strings.Contains(text, "invalid") {
			c.Violate("invalid-rough-not-invalid", "MSM4 cell with invalid rough range is not displayed as invalid: "+text, cj)
		}
		c.Count("invalid_rough_cells", 1)
		return
	}
	if rangeMs.Sign() >= 0 {
		want := new(big.Float).SetPrec(c08Prec).Mul(rangeMs, bigCms)
		if !closeTo(gotRange, want) {
			c.Violate("range-formula", fmt.Sprintf("MSM4 RangeInMetres = %.9f, formula gives %s", gotRange, want.Text('f', 9)), cj)
		}
		if !textHas3(text, want) {
			c.Violate("range-display", fmt.Sprintf("MSM4 cell display %q does not show the range %s", text, want.Text('f', 3)), cj)
		}
		c.Count("ranges_compared", 1)
	} else {
		c.Count("negative_true_values_skipped", 1)
	}
	if lambda != 0 && phaseMs.Sign() >= 0 {
		want := new(big.Float).SetPrec(c08Prec).Mul(phaseMs, bigCms)
		want.Quo(want, bf(lambda))
		got := cell.PhaseRange()
		if !closeTo(got, want) {
			c.Violate("phase-formula", fmt.Sprintf("MSM4 PhaseRange = %.6f cycles, formula gives %s", got, want.Text('f', 6)), cj)
		}
		c.Count("phase_ranges_compared", 1)
	}
}

func checkCell7(c *child.Ctx, k cellCase, cell *msm7sig.Cell, lambda float64, cj []byte) {
	sat, sig := k.Sat, k.Sig
	invalidRough := sat.Whole == 255
	fineR := int64(sig.RangeDelta)
	if sig.RangeDelta == -524288 {
		fineR = 0
	}
	fineP := int64(sig.PhaseDelta)
	if sig.PhaseDelta == -8388608 {
		fineP = 0
	}
	rangeMs := sumMs(sat.Whole, sat.Frac, fineR, 29)
	phaseMs := sumMs(sat.Whole, sat.Frac, fineP, 31)
	text := ""
	if lambda != 0 || true {
		text = cell.String()
	}
	if invalidRough {
		if cell.RangeInMetres() != 0 || cell.GetAggregateRange() != 0 || cell.GetAggregatePhaseRange() != 0 {
			c.Violate("invalid-rough-not-invalid", fmt.Sprintf("MSM7 cell with invalid rough range reports range %v", cell.RangeInMetres()), cj)
		}
		if lambda != 0 && cell.PhaseRange() != 0 {
			c.Violate("invalid-rough-not-invalid", fmt.Sprintf("MSM7 cell with invalid rough range reports phase range %v", cell.PhaseRange()), cj)
		}
		if !strings.Contains(text, "invalid") {
			c.Violate("invalid-rough-not-invalid", "MSM7 cell with invalid rough range is not displayed as invalid: "+text, cj)
		}
		c.Count("invalid_rough_cells", 1)
	} else {
		if rangeMs.Sign() >= 0 {
			want := new(big.Float).SetPrec(c08Prec).Mul(rangeMs, bigCms)
			got := cell.RangeInMetres()
			if !closeTo(got, want) {
				c.Violate("range-formula", fmt.Sprintf("MSM7 RangeInMetres = %.9f, formula gives %s", got, want.Text('f', 9)), cj)
			}
			if !textHas3(text, want) {
				c.Violate("range-display", fmt.Sprintf("MSM7 cell display %q does not show the range %s", text, want.Text('f', 3)), cj)
			}
			c.Count("ranges_compared", 1)
		} else {
			c.Count("negative_true_values_skipped", 1)
		}
		if lambda != 0 && phaseMs.Sign() >= 0 {
			want := new(big.Float).SetPrec(c08Prec).Mul(phaseMs, bigCms)
			want.Quo(want, bf(lambda))
			got := cell.PhaseRange()
			if !closeTo(got, want) {
				c.Violate("phase-formula", fmt.Sprintf("MSM7 PhaseRange = %.6f cycles, formula gives %s", got, want.Text('f', 6)), cj)
			}
			c.Count("phase_ranges_compared", 1)
		}
	}
	// the brief (non-debug) display has one column per quantity: each column says
	// "invalid" or "no wavelength" for exactly the quantity that is, and the value otherwise
	if !strings.Contains(text, "{") {
		cols := strings.Split(text, ", ")
		if len(cols) >= 4 {
			first := strings.Fields(cols[0])
			colRange := ""
			if len(first) >= 3 {
				colRange = first[2]
			}
			colPhase, colDoppler, colRate := strings.TrimSpace(cols[1]), strings.TrimSpace(cols[2]), strings.TrimSpace(cols[3])
			wantWord := func(invalid bool, needsLambda bool) string {
				switch {
				case invalid:
					return "invalid"
				case needsLambda && lambda == 0:
					return "no wavelength"
				}
				return ""
			}
			for _, col := range []struct {
				name, got, want string
			}{{"range", colRange, wantWord(invalidRough, false)}, {"phase range", colPhase, wantWord(invalidRough, true)},
				{"Doppler", colDoppler, wantWord(sat.Rate == -8192, true)}, {"range rate", colRate, wantWord(sat.Rate == -8192, true)}} {
				isWord := col.got == "invalid" || col.got == "no wavelength"
				if col.want != "" && col.got != col.want || col.want == "" && isWord {
					c.Violate("range-display", fmt.Sprintf("MSM7 brief display %q: the %s column reads %q; it should read %q (empty = a number)", text, col.name, col.got, col.want), cj)
					break
				}
			}
			if !invalidRough && lambda != 0 && phaseMs.Sign() >= 0 {
				want := new(big.Float).SetPrec(c08Prec).Mul(phaseMs, bigCms)
				want.Quo(want, bf(lambda))
				if !textHas3(colPhase, want) {
					c.Violate("range-display", fmt.Sprintf("MSM7 brief display %q does not show the phase range %s", text, want.Text('f', 3)), cj)
				}
			}
			c.Count("brief_display_columns_checked", 1)
		}
	}
	// range rate: rough + fine/10000 m/s; Doppler = -rate/lambda
	if sat.Rate == -8192 {
		if cell.PhaseRangeRate() != 0 || cell.GetAggregatePhaseRangeRate() != 0 {
			c.Violate("invalid-rate-not-invalid", fmt.Sprintf("MSM7 cell with invalid rough rate reports %v m/s", cell.PhaseRangeRate()), cj)
		}
		if lambda != 0 && !strings.Contains(text, "invalid") {
			c.Violate("invalid-rate-not-invalid", "MSM7 cell with invalid rough rate is not displayed as invalid: "+text, cj)
		}
		c.Count("invalid_rate_cells", 1)
		return
	}
	fineRate := int64(sig.RateDelta)
	if sig.RateDelta == -16384 {
		fineRate = 0
	}
	rate := new(big.Float).SetPrec(c08Prec).Quo(bi(fineRate), bi(10000))
	rate.Add(rate, bi(int64(sat.Rate)))
	if rate.Sign() >= 0 {
		got := cell.PhaseRangeRate()
		if !closeTo(got, rate) {
			c.Violate("rate-formula", fmt.Sprintf("MSM7 PhaseRangeRate = %.6f m/s, formula gives %s", got, rate.Text('f', 6)), cj)
		}
		if lambda != 0 {
			want := new(big.Float).SetPrec(c08Prec).Quo(rate, bf(lambda))
			want.Neg(want)
			gd := cell.PhaseRangeRateDoppler()
			if !closeTo(gd, want) {
				c.Violate("doppler-formula", fmt.Sprintf("MSM7 PhaseRangeRateDoppler = %.6f Hz, formula gives %s", gd, want.Text('f', 6)), cj)
			}
		}
		c.Count("rates_compared", 1)
	} else {
		c.Count("negative_true_values_skipped", 1)
	}
}

// execC08 decodes a one-satellite, one-signal message carrying the case's cell (or
// constructs the cell directly) and checks every derived quantity.
func execC08(c *child.Ctx, k cellCase, cj []byte) {
	cons := ref.ConstellationOf(k.Type)
	freq := c08Freq[cons][k.SigID]
	lambdaWant := 0.0
	if freq != 0 {
		lambdaWant = 299792458.0 / freq
	}
	msm7 := ref.IsMSM7(k.Type)
	defer func() {
		if r := recover(); r != nil {
			c.Violate("panic", fmt.Sprintf("panic while evaluating a cell: %v", r), cj)
		}
	}()
	if k.Direct {
		if msm7 {
			sat := msm7sat.New(5, k.Sat.Whole, k.Sat.Frac, k.Sat.Ext, k.Sat.Rate, slog.LevelDebug)
			cell := msm7sig.New(k.SigID, sat, k.Sig.RangeDelta, k.Sig.PhaseDelta, k.Sig.Lock, k.Sig.Half, k.Sig.CNR, k.Sig.RateDelta, lambdaWant, slog.LevelDebug)
			checkCell7(c, k, cell, lambdaWant, cj)
			s := sat.String()
			if (k.Sat.Whole == 255) != strings.Contains(s, "invalid") && k.Sat.Rate != -8192 {
				c.Violate("satellite-display", "MSM7 satellite cell display does not follow the invalid rule: "+s, cj)
			}
		} else {
			sat := msm4sat.New(5, k.Sat.Whole, k.Sat.Frac, slog.LevelDebug)
			cell := msm4sig.New(k.SigID, sat, k.Sig.RangeDelta, k.Sig.PhaseDelta, k.Sig.Lock, k.Sig.Half, k.Sig.CNR, lambdaWant, slog.LevelDebug)
			checkCell4(c, k, cell, lambdaWant, cj)
			s := sat.String()
			if (k.Sat.Whole == 255) != strings.Contains(s, "invalid") {
				c.Violate("satellite-display", "MSM4 satellite cell display does not follow the invalid rule: "+s, cj)
			}
		}
		return
	}
	m := &ref.MSM{Type: k.Type, StationID: 1, Timestamp: 1000, SatMask: uint64(1) << 40, SigMask: uint32(1) << (32 - k.SigID), CellMask: []bool{true},
		Sats: []ref.Sat{k.Sat}, Sigs: []ref.Sig{k.Sig}, CellsSent: -1}
	// the values do not depend on the multiple-message flag or on zero bytes after the cells
	m.Multiple = k.Sig.CNR%3 == 1
	m.PadBytes = []int{0, 0, 1, 3, 4, 9}[k.Sig.CNR%6]
	frame := ref.Frame(ref.EncodeMSM(m))
	// the values do not depend on how much is logged either: Info, Debug, a trace
	// level below Debug, Warn, Error
	lvl := []slog.Level{slog.LevelInfo, slog.LevelDebug, slog.LevelInfo, slog.LevelDebug - 4, slog.LevelWarn, slog.LevelDebug, slog.LevelError, slog.LevelDebug - 8}[k.Sig.Lock%8]
	if msm7 {
		dm, err := msm7msg.GetMessage(frame, lvl)
		if err != nil || len(dm.Signals) != 1 || len(dm.Signals[0]) != 1 {
			c.Count("decode_failures_left_to_C04", 1)
			return
		}
		cell := &dm.Signals[0][0]
		if freq != 0 && math.Abs(cell.Wavelength-lambdaWant) > 1e-12*lambdaWant {
			c.Violate("wavelength", fmt.Sprintf("%s signal %d: Wavelength %.12g, c/f = %.12g", cons, k.SigID, cell.Wavelength, lambdaWant), cj)
			return
		}
		checkCell7(c, k, cell, cell.Wavelength, cj)
		_ = dm.String()
	} else {
		dm, err := msm4msg.GetMessage(frame, lvl)
		if err != nil || len(dm.Signals) != 1 || len(dm.Signals[0]) != 1 {
			c.Count("decode_failures_left_to_C04", 1)
			return
		}
		cell := &dm.Signals[0][0]
		if freq != 0 && math.Abs(cell.Wavelength-lambdaWant) > 1e-12*lambdaWant {
			c.Violate("wavelength", fmt.Sprintf("%s signal %d: Wavelength %.12g, c/f = %.12g", cons, k.SigID, cell.Wavelength, lambdaWant), cj)
			return
		}
		checkCell4(c, k, cell, cell.Wavelength, cj)
		_ = dm.String()
	}
}

// multiCase is a message with several satellites and signals (full cell mask); every
// cell is checked against the formulas when the message has been decoded and again
// after the message has been displayed.
type multiCase struct {
	Type         int         `json:"type"`
	Sats         []ref.Sat   `json:"sats"`
	SigIDs       []uint      `json:"sig_ids"`
	Cells        [][]ref.Sig `json:"cells"`            // [satellite][signal]
	Absent       [][]bool    `json:"absent,omitempty"` // cell mask bit clear for [satellite][signal]
	AfterDisplay bool        `json:"checked_after_display,omitempty"`
}

func execC08Multi(c *child.Ctx, k multiCase) {
	cj, _ := json.Marshal(k)
	defer func() {
		if r := recover(); r != nil {
			c.Violate("panic", fmt.Sprintf("panic while evaluating the cells of a message: %v", r), cj)
		}
	}()
	m := &ref.MSM{Type: k.Type, StationID: 2, Timestamp: 2000, CellsSent: -1}
	m.Multiple = len(k.Sats)%2 == 1
	m.PadBytes = []int{0, 2, 3, 5, 12}[(len(k.Sats)+len(k.SigIDs))%5]
	for i := range k.Sats {
		m.SatMask |= uint64(1) << uint(63-3*i-1)
	}
	for _, id := range k.SigIDs {
		m.SigMask |= uint32(1) << (32 - id)
	}
	m.Sats = k.Sats
	absent := func(i, j int) bool { return k.Absent != nil && k.Absent[i][j] }
	for i := range k.Sats {
		for j := range k.SigIDs {
			m.CellMask = append(m.CellMask, !absent(i, j))
			if !absent(i, j) {
				m.Sigs = append(m.Sigs, k.Cells[i][j])
			}
		}
	}
	frame := ref.Frame(ref.EncodeMSM(m))
	cons := ref.ConstellationOf(k.Type)
	// the decoder keeps, per satellite, only the cells that are present, in signal order
	pass := func(check func(i, j int, kc cellCase, cj []byte)) {
		for i := range k.Sats {
			col := 0
			for j, id := range k.SigIDs {
				if absent(i, j) {
					continue
				}
				kk := k
				kc := cellCase{Type: k.Type, Sat: k.Sats[i], Sig: k.Cells[i][j], SigID: id}
				cjj, _ := json.Marshal(kk)
				check(i, col, kc, cjj)
				col++
			}
		}
	}
	rowLen := func(i int) int {
		n := 0
		for j := range k.SigIDs {
			if !absent(i, j) {
				n++
			}
		}
		return n
	}
	_ = cons
	if ref.IsMSM7(k.Type) {
		dm, err := msm7msg.GetMessage(frame, slog.LevelInfo)
		if err != nil || len(dm.Signals) != len(k.Sats) {
			c.Count("decode_failures_left_to_C04", 1)
			return
		}
		for i, row := range dm.Signals {
			if len(row) != rowLen(i) {
				cjm, _ := json.Marshal(k)
				c.Violate("cell-missing", fmt.Sprintf("MSM7 type %d decoded without an error, but satellite %d has %d signal cells where its row of the cell mask has %d (signal ids %v)", k.Type, i, len(row), rowLen(i), k.SigIDs), cjm)
				return
			}
		}
		pass(func(i, j int, kc cellCase, cjj []byte) {
			checkCell7(c, kc, &dm.Signals[i][j], dm.Signals[i][j].Wavelength, cjj)
		})
		_ = dm.String()
		k.AfterDisplay = true
		pass(func(i, j int, kc cellCase, cjj []byte) {
			checkCell7(c, kc, &dm.Signals[i][j], dm.Signals[i][j].Wavelength, cjj)
		})
	} else {
		dm, err := msm4msg.GetMessage(frame, slog.LevelInfo)
		if err != nil || len(dm.Signals) != len(k.Sats) {
			c.Count("decode_failures_left_to_C04", 1)
			return
		}
		for i, row := range dm.Signals {
			if len(row) != rowLen(i) {
				// decoded without an error, but a satellite has fewer or more cells than its
				// row of the cell mask: whatever is reported for the missing signal, and
				// for the cells after it, is not the standard's value
				cjm, _ := json.Marshal(k)
				c.Violate("cell-missing", fmt.Sprintf("MSM4 type %d decoded without an error, but satellite %d has %d signal cells where its row of the cell mask has %d (signal ids %v)", k.Type, i, len(row), rowLen(i), k.SigIDs), cjm)
				return
			}
		}
		pass(func(i, j int, kc cellCase, cjj []byte) {
			checkCell4(c, kc, &dm.Signals[i][j], dm.Signals[i][j].Wavelength, cjj)
		})
		_ = dm.String()
		k.AfterDisplay = true
		pass(func(i, j int, kc cellCase, cjj []byte) {
			checkCell4(c, kc, &dm.Signals[i][j], dm.Signals[i][j].Wavelength, cjj)
		})
	}
	c.Count("cells_rechecked_after_display", int64(len(k.Sats)*len(k.SigIDs)))
}

// equivalence: an MSM4 cell and the MSM7 cell encoding the same quantity agree.
func execC08Equiv(c *child.Ctx, k cellCase, cj []byte) {
	defer func() {
		if r := recover(); r != nil {
			c.Violate("panic", fmt.Sprintf("panic while comparing MSM4/MSM7 cells: %v", r), cj)
		}
	}()
	lambda := 0.19029367279836488
	s4 := msm4sat.New(7, k.Sat.Whole, k.Sat.Frac, slog.LevelInfo)
	c4 := msm4sig.New(k.SigID, s4, k.Sig.RangeDelta, k.Sig.PhaseDelta, 0, false, 0, lambda, slog.LevelInfo)
	s7 := msm7sat.New(7, k.Sat.Whole, k.Sat.Frac, 0, 0, slog.LevelInfo)
	c7 := msm7sig.New(k.SigID, s7, k.Sig.RangeDelta*32, k.Sig.PhaseDelta*4, 0, false, 0, 0, lambda, slog.LevelInfo)
	r4, r7 := c4.RangeInMetres(), c7.RangeInMetres()
	p4, p7 := c4.PhaseRange(), c7.PhaseRange()
	if sumMs(k.Sat.Whole, k.Sat.Frac, int64(k.Sig.RangeDelta), 24).Sign() >= 0 || k.Sat.Whole == 255 {
		if math.Abs(r4-r7) > relTol*math.Max(1, math.Abs(r4)) {
			c.Violate("msm4-msm7-disagree", fmt.Sprintf("same range encoded as MSM4 and MSM7: %.9f vs %.9f m", r4, r7), cj)
		}
	}
	if sumMs(k.Sat.Whole, k.Sat.Frac, int64(k.Sig.PhaseDelta), 29).Sign() >= 0 || k.Sat.Whole == 255 {
		if math.Abs(p4-p7) > relTol*math.Max(1, math.Abs(p4)) {
			c.Violate("msm4-msm7-disagree", fmt.Sprintf("same phase range encoded as MSM4 and MSM7: %.6f vs %.6f cycles", p4, p7), cj)
		}
	}
	c.Count("msm4_msm7_pairs_compared", 1)
}

func monC08(c *child.Ctx, replay json.RawMessage) {
	if replay != nil && hasKey(replay, "sats") {
		var mk multiCase
		json.Unmarshal(replay, &mk)
		mk.AfterDisplay = false
		c.Begin(replay)
		execC08Multi(c, mk)
		c.Eval(1, true)
		return
	}
	if replay != nil {
		var k cellCase
		json.Unmarshal(replay, &k)
		c.Begin(replay)
		execC08(c, k, replay)
		if !ref.IsMSM7(k.Type) {
			execC08Equiv(c, k, replay)
		}
		c.Eval(1, true)
		return
	}
	r := ref.NewRand(c.Seed*334214459 + uint64(c.Batch)*353868013 + 8)
	timed := []int{1074, 1077, 1084, 1087, 1094, 1097, 1124, 1127}
	pickFine := func(bits uint) int {
		min := -(1 << (bits - 1))
		max := 1<<(bits-1) - 1
		switch r.Intn(10) {
		case 0:
			return min
		case 1:
			return min + 1
		case 2:
			return -1
		case 3:
			return 0
		case 4:
			return 1
		case 5:
			return max
		case 6, 7:
			// plus or minus a power of two, and its neighbours: among them the other
			// format's "invalid" markers (-2^14, -2^19, -2^21), which are ordinary
			// values in this field
			v := 1 << uint(r.Intn(int(bits)-1))
			if r.Chance(1, 2) {
				v = -v
			}
			v += r.Intn(3) - 1
			if v < min {
				v = min
			}
			if v > max {
				v = max
			}
			return v
		}
		return r.Range(min, max)
	}
	mk := func(t int) cellCase {
		k := cellCase{Type: t}
		msm7 := ref.IsMSM7(t)
		k.Sat.Whole = uint(r.Intn(256))
		switch r.Intn(8) {
		case 0:
			k.Sat.Whole = 255
		case 1:
			k.Sat.Whole = 0
		case 2:
			k.Sat.Whole = 254
		}
		k.Sat.Frac = []uint{0, 1, 511, 512, 1023, uint(r.Intn(1024)), uint(r.Intn(1024)), uint(r.Intn(1024))}[r.Intn(8)]
		if msm7 {
			k.Sat.Ext = uint(r.Intn(16))
			k.Sat.Rate = []int{-8192, -8191, 8191, 0, 1, -1, r.Range(-8192, 8191), r.Range(-8192, 8191), r.Range(0, 8191)}[r.Intn(9)]
			k.Sig.RangeDelta = pickFine(20)
			k.Sig.PhaseDelta = pickFine(24)
			k.Sig.RateDelta = pickFine(15)
			k.Sig.Lock = uint(r.Intn(1024))
			k.Sig.CNR = uint(r.Intn(1024))
		} else {
			k.Sig.RangeDelta = pickFine(15)
			k.Sig.PhaseDelta = pickFine(22)
			k.Sig.Lock = uint(r.Intn(16))
			k.Sig.CNR = uint(r.Intn(64))
		}
		k.Sig.Half = r.Chance(1, 2)
		// signal ids: mostly ones with a documented frequency
		cons := ref.ConstellationOf(t)
		if r.Chance(4, 5) {
			ids := make([]uint, 0)
			for id := range c08Freq[cons] {
				ids = append(ids, id)
			}
			// map order is random: pick deterministically
			best := ids[0]
			target := uint(r.Range(1, 32))
			for _, id := range ids {
				if absDiff(id, target) < absDiff(best, target) || (absDiff(id, target) == absDiff(best, target) && id < best) {
					best = id
				}
			}
			k.SigID = best
		} else {
			k.SigID = uint(r.Range(1, 32))
		}
		return k
	}
	n := c.Share(c.Pick(1000000, 20000000))
	for i := 0; i < n; i++ {
		k := mk(timed[i%len(timed)])
		k.Direct = i%4 == 3
		var cj []byte
		if i%64 == 0 {
			cj = c.BeginV(k) // formulas cannot take the process down; the witness is refreshed periodically
		} else {
			cj, _ = json.Marshal(k)
		}
		execC08(c, k, cj)
		if !ref.IsMSM7(k.Type) && i%2 == 0 {
			execC08Equiv(c, k, cj)
		}
		nontriv := k.Sat.Whole != 0 || k.Sat.Frac != 0
		c.Eval(ref.Hash64(cj), nontriv)
		if c.WantSample() && nontriv && k.Sat.Whole != 255 && i > 10 {
			c.Sample(k)
		}
	}
	// whole messages: 2-5 satellites x 1-3 signals, some satellites with the invalid
	// rough range; all cells checked after decoding and again after display
	var sideBySide []multiCase
	nm := c.Share(c.Pick(40000, 800000))
	for i := 0; i < nm; i++ {
		t := timed[i%len(timed)]
		mc := multiCase{Type: t}
		ns, ng := r.Range(2, 5), r.Range(1, 3)
		if i%5 == 3 {
			ns, ng = r.Range(1, 3), r.Range(4, 9) // five and more signals from one satellite
		}
		seen := map[uint]bool{}
		for len(mc.SigIDs) < ng {
			id := mk(t).SigID
			if !seen[id] {
				seen[id] = true
				mc.SigIDs = append(mc.SigIDs, id)
			}
		}
		sort.Slice(mc.SigIDs, func(a, b int) bool { return mc.SigIDs[a] < mc.SigIDs[b] })
		for si := 0; si < ns; si++ {
			kc := mk(t)
			mc.Sats = append(mc.Sats, kc.Sat)
			var row []ref.Sig
			for g := 0; g < ng; g++ {
				row = append(row, mk(t).Sig)
			}
			mc.Cells = append(mc.Cells, row)
		}
		if i%3 == 1 {
			// a satellite without any cell in the middle, other cells missing here and there
			mc.Absent = make([][]bool, ns)
			for si := range mc.Absent {
				mc.Absent[si] = make([]bool, ng)
				for g := range mc.Absent[si] {
					mc.Absent[si][g] = si == ns/2 && ns > 2 || r.Chance(1, 5)
				}
			}
			// the first and the last satellite keep a cell
			mc.Absent[ns-1][0] = false
			mc.Absent[0][ng-1] = false
			c.Count("messages_with_satellites_without_cells", 1)
		}
		if i%64 == 0 {
			c.BeginV(mc)
		}
		execC08Multi(c, mc)
		c.EvalN(1)
		if i%7 == 0 && len(sideBySide) < 4000 {
			sideBySide = append(sideBySide, mc)
		}
	}
	// the same messages again, four goroutines at a time each with its own messages:
	// what a signal's range is does not depend on what is being decoded next door
	for lo := 0; lo+4 <= len(sideBySide); lo += 4 {
		start := make(chan struct{})
		var wg sync.WaitGroup
		for g := 0; g < 4; g++ {
			wg.Add(1)
			go func(mc multiCase) {
				defer wg.Done()
				<-start
				for rep := 0; rep < 15; rep++ {
					execC08Multi(c, mc)
				}
			}(sideBySide[lo+g])
		}
		close(start)
		wg.Wait()
		c.Count("messages_evaluated_side_by_side", 4)
	}
	// complete sweep of the whole-millisecond field with boundary fractions (direct construction)
	if c.Batch == 0 {
		for _, t := range []int{1074, 1077} {
			for whole := 0; whole < 256; whole++ {
				for _, frac := range []uint{0, 1, 511, 512, 1023} {
					k := mk(t)
					k.Sat.Whole, k.Sat.Frac, k.Direct = uint(whole), frac, true
					cj, _ := json.Marshal(k)
					execC08(c, k, cj)
					c.Eval(ref.Hash64(cj), true)
				}
			}
		}
		c.Count("whole_ms_values_swept", 256)
		// wavelength of every documented (constellation, signal id) and absence elsewhere
		for _, t := range timed {
			for id := uint(1); id <= 32; id++ {
				k := mk(t)
				k.SigID, k.Direct = id, false
				cj, _ := json.Marshal(k)
				execC08(c, k, cj)
				c.Eval(ref.Hash64(cj), true)
			}
		}
		c.Count("constellation_signal_pairs_swept", int64(len(timed)*32))
	}
	_ = gen.BoundaryLens
}

func absDiff(a, b uint) uint {
	if a > b {
		return a - b
	}
	return b - a
}
