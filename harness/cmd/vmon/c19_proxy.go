package main

import (
	"bytes"
	"context"
	"encoding/hex"
	"encoding/json"
	"fmt"
	"io"
	"log/slog"
	"net"
	"net/http"
	"os"
	"os/exec"
	"path/filepath"
	"strings"
	"sync"
	"sync/atomic"
	"syscall"
	"time"

	circularQueue "github.com/goblimey/go-ntrip/apps/proxy/circular_queue"
	"github.com/goblimey/go-ntrip/apps/proxy/reportfeed"
	"github.com/goblimey/go-ntrip/rtcm/handler"
	"github.com/goblimey/go-tools/dailylogger"

	"verifharness/child"
	"verifharness/gen"
	"verifharness/ref"
)

func init() { monitors["C19"] = monC19 }

type proxyCase struct {
	ID       int      `json:"id"`
	Kind     string   `json:"kind"`                     // session | status
	Conns    []string `json:"client_streams,omitempty"` // hex, one per sequential connection
	Server   []string `json:"server_streams,omitempty"` // hex
	Chunk    int      `json:"chunk"`
	GapUs    int      `json:"gap_us"`
	Two      bool     `json:"two_concurrent,omitempty"`
	LogOff   bool     `json:"operator_switches_message_log_off,omitempty"`
	NMEAOnly bool     `json:"nmea_sentence_per_chunk,omitempty"`
	// the first connection's client data is frames with request text in between, each
	// piece written on its own (with a pause), the text also in the middle of a frame
	OwnWrites bool   `json:"request_text_written_on_its_own,omitempty"`
	WriteAt   []int  `json:"client_writes_begin_at,omitempty"`
	Seed      uint64 `json:"seed"`
	// stall sessions: the upstream stops reading for StallMs during an upload of StallBytes
	StallMs    int `json:"upstream_stall_ms,omitempty"`
	StallBytes int `json:"upload_bytes,omitempty"`
}

// The fixed template of apps/proxy/reportfeed/reportpage.go, pinned here as the
// literal text between its five dynamic parts.
var reportMarkers = []string{
	"<h3>Last Client Buffer</h3>\n<span id='clienttimestamp'>",
	"</span>\n<pre>\n<code>\n<div class=\"preformatted\" id='clientbuffer'>\n",
	"\n</div>\n</code>\n</pre>\n<h3>Last Server Buffer</h3>\n<span id='servertimestamp'>",
	"</span>\n<pre>\n<code>\n<div class=\"preformatted\" id='serverbuffer'>\n",
	"\n</div>\n</code>\n<code>\n<div class=\"preformatted\" id='messages'>\n",
	"\n</div>\n</code>\n</pre>\n",
}

// splitReport cuts a status page into its five traffic-derived parts.  Each fixed
// piece of the template is located in order (the last one from the end), so text
// that imitates the template inside a part ends up inside some part and is judged there.
func splitReport(body string) []string {
	pos := strings.Index(body, reportMarkers[0])
	if pos < 0 {
		return nil
	}
	pos += len(reportMarkers[0])
	var parts []string
	for i := 1; i < len(reportMarkers); i++ {
		var j int
		if i == len(reportMarkers)-1 {
			j = strings.LastIndex(body[pos:], reportMarkers[i])
		} else {
			j = strings.Index(body[pos:], reportMarkers[i])
		}
		if j < 0 {
			return nil
		}
		parts = append(parts, body[pos:pos+j])
		pos += j + len(reportMarkers[i])
	}
	return parts
}

// checkReport examines a status report body.  It returns the raw bytes of the
// messages listed in it (parsed back from their hex dumps).
func checkReport(body string) (listed [][]byte, problem string, inconclusive string) {
	parts := splitReport(body)
	if parts == nil {
		return nil, "", "the status page no longer has the pinned layout"
	}
	m := append([]string{""}, parts...)
	names := []string{"client heading", "client buffer dump", "server heading", "server buffer dump", "message list"}
	for i, part := range m[1:] {
		if j := strings.IndexAny(part, "<>"); j >= 0 {
			from := j - 60
			if from < 0 {
				from = 0
			}
			to := j + 60
			if to > len(part) {
				to = len(part)
			}
			return nil, fmt.Sprintf("the %s of the status report contains a raw %q: ...%s...", names[i], part[j], part[from:to]), ""
		}
	}
	// parse the message list: each entry starts with "Frame length N bytes:" followed by a hex dump
	lines := strings.Split(m[5], "\n")
	var cur []byte
	want := -1
	for _, ln := range lines {
		if strings.HasPrefix(ln, "Frame length ") && strings.HasSuffix(ln, " bytes:") {
			if want >= 0 {
				listed = append(listed, cur)
			}
			cur = nil
			fmt.Sscanf(ln, "Frame length %d bytes:", &want)
			continue
		}
		if want >= 0 && len(cur) < want && len(ln) >= 10 && isHex(ln[:8]) && ln[8] == ' ' && ln[9] == ' ' {
			// hex.Dump line: 8 hex digits of offset, two spaces, 8 bytes, space, 8 bytes, two spaces, |ascii|
			hexPart := ln[10:]
			if k := strings.Index(hexPart, "  |"); k >= 0 {
				hexPart = hexPart[:k]
			}
			for _, tok := range strings.Fields(hexPart) {
				if len(tok) == 2 && isHex(tok) {
					b, _ := hex.DecodeString(tok)
					cur = append(cur, b...)
				}
			}
		}
	}
	if want >= 0 {
		listed = append(listed, cur)
	}
	return listed, "", ""
}

func isHex(s string) bool {
	for i := 0; i < len(s); i++ {
		c := s[i]
		if !(c >= '0' && c <= '9' || c >= 'a' && c <= 'f') {
			return false
		}
	}
	return len(s) > 0
}

// listedAreRelayed checks that the listed messages are a contiguous run, in order,
// of the messages that sequential framing finds in the bytes the client has sent.
func listedAreRelayed(listed [][]byte, baseline []handler.Message) string {
	if len(listed) == 0 {
		return ""
	}
	if len(listed) > 20 {
		return fmt.Sprintf("the report lists %d messages, more than the 20 it keeps", len(listed))
	}
	for start := 0; start+len(listed) <= len(baseline); start++ {
		ok := true
		for j := range listed {
			if !bytes.Equal(listed[j], baseline[start+j].RawData) {
				ok = false
				break
			}
		}
		if ok {
			return ""
		}
	}
	return fmt.Sprintf("the report lists %d messages that are not a contiguous run of the %d messages relayed so far (first listed: %s)", len(listed), len(baseline), clip(hexs(listed[0])))
}

// twoFreePorts binds both ports before releasing either, so the two are never the
// same port.  (Released one after the other, the kernel handed out the same number
// twice about once in 14 000 starts: the proxy then serves its client port there, the
// status server cannot bind, and the harness's own status requests are relayed
// upstream as if they were client traffic - a false alarm of C19 seen once in a
// thorough run, DESIGN section 8.)
func twoFreePorts() (int, int) {
	l1, err := net.Listen("tcp", "127.0.0.1:0")
	if err != nil {
		return 0, 0
	}
	defer l1.Close()
	l2, err := net.Listen("tcp", "127.0.0.1:0")
	if err != nil {
		return 0, 0
	}
	defer l2.Close()
	return l1.Addr().(*net.TCPAddr).Port, l2.Addr().(*net.TCPAddr).Port
}

type proxyProc struct {
	cmd       *exec.Cmd
	dir       string
	proxyPort int
	ctlPort   int
	upstream  net.Listener
	stderr    string
	exited    chan struct{}
}

func startProxy(c *child.Ctx, id int) (*proxyProc, error) {
	return startProxyX(c, id, false)
}

// startProxyX: with smallWindow the upstream server advertises a small receive
// window, so that an upstream that stops reading soon blocks the proxy's writes.
func startProxyX(c *child.Ctx, id int, smallWindow bool) (*proxyProc, error) {
	// The two ports the proxy is told to listen on are found by binding and releasing
	// them, so another process can take one in between (many checks run side by side).
	// A start is accepted only when the process that answers on the proxy port dials
	// OUR upstream listener and our process is still alive afterwards; otherwise the
	// attempt is discarded and repeated with other ports.
	var p *proxyProc
	var err error
	for attempt := 0; attempt < 8; attempt++ {
		p, err = startProxyOnce(c, id, smallWindow)
		if err == nil {
			return p, nil
		}
		if p != nil {
			detail := p.stderrTail()
			p.stop()
			p = nil
			if !strings.Contains(detail, "address already in use") && !strings.Contains(err.Error(), "not ours") {
				return nil, fmt.Errorf("%v: %s", err, clipText(detail))
			}
		}
		time.Sleep(time.Duration(50*(attempt+1)) * time.Millisecond)
	}
	return nil, err
}

func startProxyOnce(c *child.Ctx, id int, smallWindow bool) (*proxyProc, error) {
	p := &proxyProc{dir: filepath.Join(c.WorkDir, fmt.Sprintf("proxy%d", id)), exited: make(chan struct{})}
	os.RemoveAll(p.dir)
	os.MkdirAll(p.dir, 0755)
	lc := net.ListenConfig{}
	if smallWindow {
		lc.Control = func(network, address string, rc syscall.RawConn) error {
			return rc.Control(func(fd uintptr) { syscall.SetsockoptInt(int(fd), syscall.SOL_SOCKET, syscall.SO_RCVBUF, 8192) })
		}
	}
	up, err := lc.Listen(context.Background(), "tcp", "127.0.0.1:0")
	if err != nil {
		return nil, err
	}
	p.upstream = up
	p.proxyPort, p.ctlPort = twoFreePorts()
	// record_messages stays true: with it false the proxy of the pinned commit does not
	// start at all (nil message log dereferenced in main) - a configuration matter
	// outside C19, which quantifies over traffic and schedules (DESIGN section 10)
	cfg := fmt.Sprintf(`{"remote_host": "127.0.0.1:%d", "proxy_host": "127.0.0.1", "proxy_port": %d, "control_host": "127.0.0.1", "control_port": %d, "record_messages": true, "message_log_directory": %q}`,
		up.Addr().(*net.TCPAddr).Port, p.proxyPort, p.ctlPort, filepath.Join(p.dir, "logs"))
	os.WriteFile(filepath.Join(p.dir, "cfg.json"), []byte(cfg), 0644)
	p.cmd = exec.Command(filepath.Join(c.BinDir, "proxy"), "-c", filepath.Join(p.dir, "cfg.json"))
	p.cmd.Dir = p.dir
	p.cmd.Env = append(os.Environ(), "GORACE=halt_on_error=1 exitcode=66 atexit_sleep_ms=0", "GOTRACEBACK=all")
	if id%4 == 1 {
		p.cmd.Env = append(p.cmd.Env, "GOGC=1")
	}
	p.stderr = filepath.Join(p.dir, "stderr.txt")
	ef, _ := os.Create(p.stderr)
	p.cmd.Stderr = ef
	p.cmd.Stdout = ef
	if err := p.cmd.Start(); err != nil {
		up.Close()
		return nil, err
	}
	go func() { p.cmd.Wait(); ef.Close(); close(p.exited) }()
	// wait until the proxy accepts connections (or dies)
	for i := 0; i < 600; i++ {
		select {
		case <-p.exited:
			return p, fmt.Errorf("proxy exited during start-up")
		default:
		}
		conn, err := net.DialTimeout("tcp", fmt.Sprintf("127.0.0.1:%d", p.proxyPort), 200*time.Millisecond)
		if err == nil {
			// this probe connection makes the proxy dial upstream too: drain and close both
			uc, uerr := acceptWithin(p.upstream, 5*time.Second)
			conn.Close()
			if uerr != nil {
				return p, fmt.Errorf("what answers on port %d is not ours (no upstream connection followed)", p.proxyPort)
			}
			uc.Close()
			// the control port must answer too, and our process must have survived binding both
			answered := false
			ctlStart := time.Now()
			for j := 0; j < 100 && time.Since(ctlStart) < 40*time.Second; j++ {
				cl := http.Client{Timeout: 5 * time.Second}
				if resp, err := cl.Get(fmt.Sprintf("http://127.0.0.1:%d/status/report", p.ctlPort)); err == nil {
					resp.Body.Close()
					answered = true
					break
				}
				if !p.alive() {
					break
				}
				time.Sleep(20 * time.Millisecond)
			}
			if !answered && p.alive() {
				// start-up only: no verdict depends on this clock.  A status server that
				// never answers means the port went to someone else: discard the attempt.
				return p, fmt.Errorf("what answers on control port %d is not ours (no status report)", p.ctlPort)
			}
			time.Sleep(30 * time.Millisecond)
			if !p.alive() {
				return p, fmt.Errorf("proxy exited during start-up")
			}
			return p, nil
		}
		time.Sleep(20 * time.Millisecond)
	}
	return p, fmt.Errorf("proxy did not start listening")
}

func acceptWithin(l net.Listener, d time.Duration) (net.Conn, error) {
	type res struct {
		c   net.Conn
		err error
	}
	ch := make(chan res, 1)
	go func() { c, err := l.Accept(); ch <- res{c, err} }()
	select {
	case r := <-ch:
		return r.c, r.err
	case <-time.After(d):
		return nil, fmt.Errorf("no upstream connection within %v", d)
	}
}

func (p *proxyProc) alive() bool {
	select {
	case <-p.exited:
		return false
	default:
		return true
	}
}

func (p *proxyProc) stop() string {
	if p.alive() {
		p.cmd.Process.Signal(syscall.SIGTERM)
		select {
		case <-p.exited:
		case <-time.After(3 * time.Second):
			p.cmd.Process.Kill()
			<-p.exited
		}
	}
	p.upstream.Close()
	b, _ := os.ReadFile(p.stderr)
	os.RemoveAll(p.dir)
	return string(b)
}

func (p *proxyProc) stderrTail() string {
	b, _ := os.ReadFile(p.stderr)
	s := string(b)
	// the interesting part is the panic / race report, not the traffic traces
	for _, marker := range []string{"panic:", "fatal error:", "WARNING: DATA RACE"} {
		if i := strings.Index(s, marker); i >= 0 {
			s = s[i:]
			break
		}
	}
	return clipText(s)
}

func (p *proxyProc) fullStderr() string {
	b, _ := os.ReadFile(p.stderr)
	return string(b)
}

// clientGoroutineBlockedInside looks at a goroutine dump of the proxy for the
// goroutine that relays client data and says whether it is parked on something
// internal to the proxy (a channel send to the parser, a mutex) rather than on
// network input.
func clientGoroutineBlockedInside(dump string) string {
	i := strings.LastIndex(dump, "SIGQUIT")
	if i >= 0 {
		dump = dump[i:]
	}
	for _, g := range strings.Split(dump, "\n\n") {
		if !strings.Contains(g, "handleClientMessages") {
			continue
		}
		hdr := g
		if j := strings.IndexByte(g, '\n'); j >= 0 {
			hdr = g[:j]
		}
		for _, st := range []string{"chan send", "sync.Mutex.Lock", "sync.RWMutex", "semacquire"} {
			if strings.Contains(hdr, st) {
				return strings.TrimSpace(hdr)
			}
		}
	}
	return ""
}

// clientGoroutineWaitingForInput: a goroutine that relays client data is parked in a
// network READ - it has taken everything the client sent so far.
func clientGoroutineWaitingForInput(dump string) bool {
	i := strings.LastIndex(dump, "SIGQUIT")
	if i >= 0 {
		dump = dump[i:]
	}
	for _, g := range strings.Split(dump, "\n\n") {
		if !strings.Contains(g, "handleClientMessages") {
			continue
		}
		hdr := g
		if j := strings.IndexByte(g, '\n'); j >= 0 {
			hdr = g[:j]
		}
		if strings.Contains(hdr, "IO wait") && strings.Contains(g, ").Read(") && !strings.Contains(g, ").Write(") {
			return true
		}
	}
	return false
}

// proxyAllBlocked applies the logical deadlock criterion to a goroutine dump of the
// proxy: every goroutine with a frame in the repository's source is parked (channel
// operation, select, mutex, or waiting for the network) - none is running or runnable.
func proxyAllBlocked(dump string) bool {
	i := strings.LastIndex(dump, "SIGQUIT")
	if i >= 0 {
		dump = dump[i:]
	}
	found := 0
	for _, g := range strings.Split(dump, "\n\n") {
		if !strings.Contains(g, "/apps/proxy/") && !strings.Contains(g, "/rtcm/") {
			continue
		}
		hdr := g
		if j := strings.IndexByte(g, '\n'); j >= 0 {
			hdr = g[:j]
		}
		if !strings.HasPrefix(hdr, "goroutine ") {
			continue
		}
		found++
		parked := false
		for _, st := range []string{"chan send", "chan receive", "select", "sync.", "semacquire", "IO wait"} {
			if strings.Contains(hdr, st) {
				parked = true
			}
		}
		if !parked {
			return false
		}
	}
	return found > 0
}

// serverGoroutineIdle says whether the goroutine that relays server data is parked
// waiting for network input (it has consumed everything the server sent).
func serverGoroutineIdle(dump string) bool {
	i := strings.LastIndex(dump, "SIGQUIT")
	if i >= 0 {
		dump = dump[i:]
	}
	for _, g := range strings.Split(dump, "\n\n") {
		if !strings.Contains(g, "handleServerMessages") {
			continue
		}
		hdr := g
		if j := strings.IndexByte(g, '\n'); j >= 0 {
			hdr = g[:j]
		}
		if strings.Contains(hdr, "IO wait") {
			return true
		}
	}
	return false
}

func (p *proxyProc) report() (string, error) {
	cl := http.Client{Timeout: 20 * time.Second}
	resp, err := cl.Get(fmt.Sprintf("http://127.0.0.1:%d/status/report", p.ctlPort))
	if err != nil {
		return "", err
	}
	defer resp.Body.Close()
	b, err := io.ReadAll(resp.Body)
	return string(b), err
}

func writeChunks(w io.Writer, data []byte, chunk, gapUs int, r *ref.SplitMix64) error {
	for len(data) > 0 {
		n := chunk
		if n <= 0 {
			n = 1 + r.Intn(4096)
		}
		if n > len(data) {
			n = len(data)
		}
		if _, err := w.Write(data[:n]); err != nil {
			return err
		}
		data = data[n:]
		tick()
		if gapUs > 0 && r.Chance(1, 2) {
			time.Sleep(time.Duration(r.Intn(gapUs)+1) * time.Microsecond)
		}
	}
	return nil
}

// readN reads until n bytes have arrived or the connection ends.  It gives up only
// when nothing has arrived for d AFTER the sender has finished sending (sent is
// closed by the sending goroutine): a slow machine never turns into a verdict.
func readN(conn net.Conn, n int, d time.Duration, sent <-chan struct{}) []byte {
	var got []byte
	buf := make([]byte, 65536)
	deadline := time.Now().Add(d)
	senderDone := false
	for len(got) < n {
		if !senderDone {
			select {
			case <-sent:
				senderDone = true
			default:
			}
			deadline = time.Now().Add(d) // the clock only runs once everything has been sent
		}
		conn.SetReadDeadline(time.Now().Add(500 * time.Millisecond))
		k, err := conn.Read(buf)
		got = append(got, buf[:k]...)
		if k > 0 {
			tick()
			deadline = time.Now().Add(d) // progress
		}
		if err != nil {
			if ne, ok := err.(net.Error); ok && ne.Timeout() {
				if time.Now().After(deadline) {
					break
				}
				continue
			}
			break
		}
	}
	return got
}

func execC19Session(c *child.Ctx, k proxyCase, cj []byte) {
	p, err := startProxy(c, k.ID)
	if err != nil {
		detail := ""
		if p != nil {
			detail = p.stderrTail()
			p.stop()
		}
		c.Inconclusive("proxy could not be started: " + err.Error() + " " + clipText(detail))
		return
	}
	defer p.stop()
	if k.LogOff {
		// the operator switches the message log off through the documented control
		// request before the traffic starts
		for try := 0; try < 50; try++ {
			if resp, err := http.Get(fmt.Sprintf("http://127.0.0.1:%d/status/loglevel/0", p.ctlPort)); err == nil {
				resp.Body.Close()
				c.Count("sessions_with_message_log_switched_off", 1)
				break
			}
			time.Sleep(20 * time.Millisecond)
		}
	}
	var allClient []byte
	for ci := range k.Conns {
		clientBytes := unhex(k.Conns[ci])
		serverBytes := []byte{}
		if ci < len(k.Server) {
			serverBytes = unhex(k.Server[ci])
		}
		conn, err := net.DialTimeout("tcp", fmt.Sprintf("127.0.0.1:%d", p.proxyPort), 5*time.Second)
		if err != nil {
			if !p.alive() {
				c.Violate("proxy-died", "the proxy process ended: "+p.stderrTail(), cj)
			} else {
				c.Inconclusive("cannot connect to the proxy: " + err.Error())
			}
			return
		}
		up, err := acceptWithin(p.upstream, 20*time.Second)
		if err != nil {
			conn.Close()
			if !p.alive() {
				c.Violate("proxy-died", "the proxy process ended: "+p.stderrTail(), cj)
			} else {
				c.Inconclusive("the proxy did not connect upstream: " + err.Error())
			}
			return
		}
		var wg sync.WaitGroup
		var upGot, clGot []byte
		wg.Add(4)
		clientSent, serverSent := make(chan struct{}), make(chan struct{})
		go func() {
			defer wg.Done()
			if k.OwnWrites && ci == 0 {
				// pieces: [frames][half a frame][request text][the other half][frames] ...
				prev := 0
				for _, at := range append(append([]int(nil), k.WriteAt...), len(clientBytes)) {
					if at > prev && at <= len(clientBytes) {
						conn.Write(clientBytes[prev:at])
						prev = at
						tick()
						time.Sleep(4 * time.Millisecond) // the proxy reads each piece on its own
					}
				}
			} else if k.NMEAOnly && ci == 0 {
				// one complete sentence per write, with a pause, so that the proxy reads each on its own
				rest := clientBytes
				for len(rest) > 0 {
					n := bytes.Index(rest, []byte("\r\n"))
					if n < 0 {
						n = len(rest) - 2
					}
					conn.Write(rest[:n+2])
					rest = rest[n+2:]
					tick()
					time.Sleep(4 * time.Millisecond)
				}
			} else {
				writeChunks(conn, clientBytes, k.Chunk, k.GapUs, ref.NewRand(k.Seed+1))
			}
			close(clientSent)
		}()
		go func() {
			defer wg.Done()
			writeChunks(up, serverBytes, k.Chunk, k.GapUs, ref.NewRand(k.Seed+2))
			close(serverSent)
		}()
		go func() { defer wg.Done(); upGot = readN(up, len(clientBytes), 20*time.Second, clientSent) }()
		go func() { defer wg.Done(); clGot = readN(conn, len(serverBytes), 20*time.Second, serverSent) }()
		// poll the status page continuously while traffic flows
		var reports []string
		var repMu sync.Mutex
		stopPoll := make(chan struct{})
		pollDone := make(chan struct{})
		go func() {
			defer close(pollDone)
			pr := ref.NewRand(k.Seed + 3)
			for n := 0; n < 80; n++ {
				select {
				case <-stopPoll:
					return
				default:
				}
				if b, err := p.report(); err == nil {
					repMu.Lock()
					if len(reports) < 40 || pr.Chance(1, 10) {
						reports = append(reports, b)
					}
					repMu.Unlock()
					c.Count("reports_fetched_during_traffic", 1)
				}
				time.Sleep(time.Duration(pr.Range(200, 8000)) * time.Microsecond)
			}
		}()
		wg.Wait()
		close(stopPoll)
		<-pollDone
		allClient = append(allClient, clientBytes...)
		if b, err := p.report(); err == nil {
			reports = append(reports, b)
		}
		// a little extra data arriving after the poll does not matter: membership is a safety check
		if !bytes.Equal(upGot, clientBytes) {
			if !p.alive() {
				c.Violate("proxy-died", fmt.Sprintf("the proxy process ended during the session after relaying %d of %d client bytes: %s", len(upGot), len(clientBytes), p.stderrTail()), cj)
				conn.Close()
				up.Close()
				return
			}
			if len(upGot) < len(clientBytes) && bytes.Equal(upGot, clientBytes[:len(upGot)]) {
				// Everything was sent and nothing has arrived for 20 s.  Give it another 30 s
				// (a runnable goroutine is not starved for 50 s), then ask the runtime what it
				// is doing.
				more := readN(up, len(clientBytes)-len(upGot), 30*time.Second, clientSent)
				if len(more) > 0 {
					c.Inconclusive("relay made progress only after a silence of more than 20 s")
					conn.Close()
					up.Close()
					return
				}
				p.cmd.Process.Signal(syscall.SIGQUIT)
				<-p.exited
				dump := p.stderrTail()
				why := clientGoroutineBlockedInside(p.fullStderr())
				switch {
				case why != "" && proxyAllBlocked(p.fullStderr()):
					c.Violate("relay-stopped", fmt.Sprintf("the proxy stopped relaying after %d of %d client bytes; every proxy goroutine is parked and its client-side goroutine is blocked inside the proxy (%s), not waiting for the network:\n%s", len(upGot), len(clientBytes), why, dump), cj)
				case why != "":
					// not a deadlock: some goroutine is still running, but for 50 s it has
					// not let a single byte through while the client side waits on it
					c.Violate("relay-stopped", fmt.Sprintf("the proxy relayed nothing for 50 s after %d of %d client bytes although everything had been sent; its client-side goroutine is blocked inside the proxy (%s) while another goroutine keeps running:\n%s", len(upGot), len(clientBytes), why, dump), cj)
				default:
					c.Inconclusive("relay incomplete after 50 s without a logical explanation")
				}
				conn.Close()
				up.Close()
				return
			}
			c.Violate("relay-altered", fmt.Sprintf("the upstream server received %d bytes, the client sent %d: %s", len(upGot), len(clientBytes), firstDiff(upGot, clientBytes)), cj)
			conn.Close()
			up.Close()
			return
		}
		if !bytes.Equal(clGot, serverBytes) {
			if !p.alive() {
				c.Violate("proxy-died", "the proxy process ended during the session: "+p.stderrTail(), cj)
			} else if len(clGot) < len(serverBytes) && bytes.Equal(clGot, serverBytes[:len(clGot)]) {
				// the server has sent everything and the client has waited 20 s: where are the bytes?
				p.cmd.Process.Signal(syscall.SIGQUIT)
				<-p.exited
				if serverGoroutineIdle(p.fullStderr()) {
					c.Violate("relay-withheld", fmt.Sprintf("the server sent %d bytes, the client received only %d; the proxy's server-side goroutine is waiting for more input, so the missing bytes are held back inside the proxy (last server chunk sizes: total %d)", len(serverBytes), len(clGot), len(serverBytes)), cj)
				} else {
					c.Inconclusive("server-to-client relay incomplete after 20 s without a logical explanation")
				}
			} else {
				c.Violate("relay-altered", fmt.Sprintf("the client received %d bytes, the server sent %d: %s", len(clGot), len(serverBytes), firstDiff(clGot, serverBytes)), cj)
			}
			conn.Close()
			up.Close()
			return
		}
		c.Count("bytes_relayed_client_to_server", int64(len(clientBytes)))
		c.Count("bytes_relayed_server_to_client", int64(len(serverBytes)))
		// the reports
		baseline := runSequential(fixedStart, slog.LevelInfo, allClient)
		for _, body := range reports {
			listed, problem, inc := checkReport(body)
			if inc != "" {
				c.Inconclusive(inc)
				continue
			}
			if problem != "" {
				c.Violate("report-not-escaped", problem, cj)
				conn.Close()
				up.Close()
				return
			}
			if why := listedAreRelayed(listed, baseline); why != "" {
				c.Violate("report-lists-unrelayed", why, cj)
				conn.Close()
				up.Close()
				return
			}
			// independently of any framing: what the report lists as one message is a
			// contiguous piece of what the client sent
			for _, l := range listed {
				if !bytes.Contains(allClient, l) {
					c.Violate("report-lists-unrelayed", fmt.Sprintf("the report lists a message of %d bytes that occurs nowhere in the relayed client stream: %s", len(l), clip(hexs(l))), cj)
					conn.Close()
					up.Close()
					return
				}
			}
			c.Count("reports_checked", 1)
			c.Count("messages_listed_in_reports", int64(len(listed)))
		}
		conn.Close()
		up.Close()
		if !p.alive() {
			c.Violate("proxy-died", "the proxy process ended after a session: "+p.stderrTail(), cj)
			return
		}
	}
	if k.Two && c.NViolations() == 0 {
		relayTwo(c, p, k, cj)
	}
	// the proxy must still be alive and must not have reported a race
	time.Sleep(20 * time.Millisecond)
	if !p.alive() {
		tail := p.stderrTail()
		sig := "proxy-died"
		if strings.Contains(tail, "WARNING: DATA RACE") {
			sig = "data-race"
		}
		c.Violate(sig, "the proxy process ended: "+tail, cj)
	}
}

// relayTwo runs two connections through the proxy at the same time.  The proxy
// dials upstream synchronously for each accepted client, so dialling one after the
// other fixes which upstream connection belongs to which client.  Each direction of
// each connection must be relayed byte for byte; the parsed traffic of the two
// clients interleaves, so the report is only checked for escaping.
func relayTwo(c *child.Ctx, p *proxyProc, k proxyCase, cj []byte) {
	r := ref.NewRand(k.Seed + 77)
	type pair struct {
		cl, up         net.Conn
		cBytes, sBytes []byte
		upGot, clGot   []byte
	}
	var ps [2]*pair
	for i := range ps {
		cl, err := net.DialTimeout("tcp", fmt.Sprintf("127.0.0.1:%d", p.proxyPort), 5*time.Second)
		if err != nil {
			c.Inconclusive("cannot connect a second client: " + err.Error())
			return
		}
		up, err := acceptWithin(p.upstream, 20*time.Second)
		if err != nil {
			cl.Close()
			c.Inconclusive("the proxy did not connect upstream for a concurrent client")
			return
		}
		ps[i] = &pair{cl: cl, up: up, cBytes: proxyStream(r, r.Range(2000, 16000)), sBytes: proxyStream(r, r.Range(500, 8000))}
	}
	var wg sync.WaitGroup
	for i := range ps {
		q := ps[i]
		cs, ss := make(chan struct{}), make(chan struct{})
		wg.Add(4)
		go func() {
			defer wg.Done()
			writeChunks(q.cl, q.cBytes, k.Chunk, k.GapUs, ref.NewRand(k.Seed+uint64(i)*5+11))
			close(cs)
		}()
		go func() {
			defer wg.Done()
			writeChunks(q.up, q.sBytes, k.Chunk, k.GapUs, ref.NewRand(k.Seed+uint64(i)*5+12))
			close(ss)
		}()
		go func() { defer wg.Done(); q.upGot = readN(q.up, len(q.cBytes), 20*time.Second, cs) }()
		go func() { defer wg.Done(); q.clGot = readN(q.cl, len(q.sBytes), 20*time.Second, ss) }()
	}
	wg.Wait()
	body, rerr := p.report()
	for i, q := range ps {
		q.cl.Close()
		q.up.Close()
		if !p.alive() {
			c.Violate("proxy-died", "the proxy process ended while two clients were connected: "+p.stderrTail(), cj)
			return
		}
		if !bytes.Equal(q.upGot, q.cBytes) {
			if len(q.upGot) < len(q.cBytes) && bytes.Equal(q.upGot, q.cBytes[:len(q.upGot)]) {
				c.Inconclusive("relay of a concurrent connection incomplete after 20 s of silence")
				return
			}
			c.Violate("relay-altered", fmt.Sprintf("with two clients connected, upstream connection %d received %d bytes, its client sent %d: %s", i, len(q.upGot), len(q.cBytes), firstDiff(q.upGot, q.cBytes)), cj)
			return
		}
		if !bytes.Equal(q.clGot, q.sBytes) {
			if len(q.clGot) < len(q.sBytes) && bytes.Equal(q.clGot, q.sBytes[:len(q.clGot)]) {
				c.Inconclusive("relay of a concurrent connection incomplete after 20 s of silence")
				return
			}
			c.Violate("relay-altered", fmt.Sprintf("with two clients connected, client %d received %d bytes, its server sent %d: %s", i, len(q.clGot), len(q.sBytes), firstDiff(q.clGot, q.sBytes)), cj)
			return
		}
	}
	if rerr == nil {
		if _, problem, _ := checkReport(body); problem != "" {
			c.Violate("report-not-escaped", problem, cj)
			return
		}
	}
	c.Count("concurrent_connection_pairs_relayed", 1)
}

// htmlBait builds traffic that reads as HTML when dumped.
func htmlBait(r *ref.SplitMix64) []byte {
	texts := []string{"<script>alert(1)</script>", "</div><img src=x onerror=alert(1)>", "<b>bold</b>", "a<b>c", "<<<>>>",
		// text that already reads like escaped markup, next to markup that is not
		"&lt;<script>alert(1)</script>", "&amp;<b>x</b>", "&gt;</div><img src=x>", "&lt;&gt;&amp;<i>i</i>", "&#60;<u>"}
	t := []byte(texts[r.Intn(len(texts))])
	switch r.Intn(4) {
	case 3: // a complete NMEA 0183 sentence with a correct checksum carrying the text
		return nmeaSentence(string(t))
	case 0: // as non-RTCM data
		return t
	case 1: // inside a valid frame of an undecodable type
		p := append([]byte{byte(1230 >> 4), byte((1230 << 4) & 0xF0)}, t...)
		return ref.Frame(p)
	default: // inside a valid 1005-typed frame (too short or not: both are displayed)
		p := append([]byte{byte(1005 >> 4), byte((1005 << 4) & 0xF0)}, t...)
		for len(p) < 19 {
			p = append(p, '>')
		}
		return ref.Frame(p)
	}
}

// nmeaSentence wraps text into a complete NMEA 0183 sentence with a correct checksum.
func nmeaSentence(text string) []byte {
	body := "GPTXT,01,01,02," + text
	cs := byte(0)
	for i := 0; i < len(body); i++ {
		cs ^= body[i]
	}
	return []byte(fmt.Sprintf("$%s*%02X\r\n", body, cs))
}

// ntripRequest is what an NTRIP client or server sends first: a request line and
// headers, among them its credentials.
func ntripRequest(r *ref.SplitMix64) []byte {
	cred := []string{"dXNlcjpzZWNyZXQ=", "Ym9iOmh1bnRlcjI=", "YTpi", "c3RhdGlvbjAwMTpwYXNzd29yZC13aXRoLWEtbG9uZy10YWls"}[r.Intn(4)]
	// the mountpoint and the query are the client's to choose: percent-encoded, entity
	// text, doubly encoded - none of it may come out of the status page as markup
	mount := []string{"MOUNT1", "BASE7", "%3Cimg%20src=x%20onerror=alert(1)%3E", "BASE7?x=%3Cscript%3Ealert(1)%3C/script%3E", "a%26lt%3Bb%26gt%3B", "&lt;b&gt;bold&lt;/b&gt;",
		"%253Cb%253E", "M%3e%3c/pre%3e%3ch1%3e", "\\u003cb\\u003e", "+%3Cb%3E+"}[r.Intn(10)]
	switch r.Intn(4) {
	case 3:
		return []byte("GET /" + mount + " HTTP/1.0\r\nUser-Agent: NTRIP %3Cb%3Eclient%3C/b%3E/2.0\r\nAuthorization: Basic " + cred + "\r\n\r\n")
	case 0:
		return []byte("GET /MOUNT1 HTTP/1.1\r\nHost: caster.example:2101\r\nNtrip-Version: Ntrip/2.0\r\nUser-Agent: NTRIP go-ntrip/1.0\r\nAuthorization: Basic " + cred + "\r\nConnection: close\r\n\r\n")
	case 1:
		return []byte("POST /" + mount + " HTTP/1.1\r\nHost: caster.example:2101\r\nAuthorization: Basic " + cred + "\r\nNtrip-Version: Ntrip/2.0\r\nTransfer-Encoding: chunked\r\n\r\n")
	}
	return []byte("SOURCE " + cred + " /" + mount + "\r\nSource-Agent: NTRIP test\r\nAuthorization: Basic " + cred + "\r\n\r\n")
}

// casterAnswer is the first thing a caster sends: acceptance or a refusal.
func casterAnswer(r *ref.SplitMix64) []byte {
	return []byte([]string{
		"ICY 200 OK\r\n\r\n",
		"HTTP/1.1 200 OK\r\nNtrip-Version: Ntrip/2.0\r\nContent-Type: gnss/data\r\nTransfer-Encoding: chunked\r\n\r\n",
		"HTTP/1.1 401 Unauthorized\r\nNtrip-Version: Ntrip/2.0\r\nWWW-Authenticate: Basic realm=\"BASE7\"\r\nConnection: close\r\n\r\n",
		"HTTP/1.1 404 Not Found\r\nServer: NTRIP Caster 2.0\r\nConnection: close\r\n\r\n<html><body>no such <b>mountpoint</b></body></html>\r\n",
		"SOURCETABLE 200 OK\r\nServer: NTRIP Caster\r\nContent-Type: text/plain\r\n\r\nSTR;BASE7;Town;RTCM 3.2;1005(10),1077(1);2;GPS+GLO;SNIP;GBR;51.0;-1.0;1;0;sNTRIP;none;B;N;0;\r\nENDSOURCETABLE\r\n",
		"ERROR - Bad Password\r\n",
	}[r.Intn(6)])
}

func proxyStream(r *ref.SplitMix64, size int) []byte {
	var b []byte
	for len(b) < size {
		switch r.Intn(8) {
		case 0, 1:
			b = append(b, htmlBait(r)...)
		case 2:
			b = append(b, gen.HostileStream(r, false).Bytes()...)
		case 3:
			// CRC-valid frames with malformed content: short MSM, oversize masks
			t := ref.MSMTypes[r.Intn(len(ref.MSMTypes))]
			b = append(b, ref.Frame(shapedPayload(r, t, r.Range(1, 60), r.Intn(6)))...)
		case 4:
			b = append(b, r.Bytes(r.Range(1, 400))...)
		case 5:
			b = append(b, ntripRequest(r)...)
		default:
			b = append(b, gen.CleanStream(r, gen.CleanOpts{MinFrames: 1, MaxFrames: 6}).Bytes()...)
		}
	}
	return b
}

// in-process: ReportFeed.Status over queues filled from traffic
func execC19Status(c *child.Ctx, k proxyCase, cj []byte) {
	r := ref.NewRand(k.Seed)
	dir := filepath.Join(c.WorkDir, fmt.Sprintf("rf%d", k.ID))
	os.MkdirAll(dir, 0755)
	defer os.RemoveAll(dir)
	q := circularQueue.NewCircularQueue(20)
	var lg *dailylogger.Writer
	rf := reportfeed.New(lg, q)
	traffic := proxyStream(r, r.Range(200, 4000))
	msgs := runSequential(fixedStart, slog.LevelInfo, traffic)
	for i := range msgs {
		q.Add(msgs[i])
	}
	cb := append([]byte(nil), traffic...)
	if len(cb) > 2048 {
		cb = cb[len(cb)-2048:]
	}
	sb := proxyStream(r, 300)
	if len(sb) > 2048 {
		sb = sb[:2048]
	}
	rf.RecordClientBuffer(&cb, 7, len(cb))
	rf.RecordServerBuffer(&sb, 7, len(sb))
	var body string
	func() {
		defer func() {
			if rr := recover(); rr != nil {
				c.Violate("panic", fmt.Sprintf("ReportFeed.Status panicked: %v", rr), cj)
			}
		}()
		// silence the "client buffer"/"server buffer" notes Status writes to stderr
		body = string(rf.Status())
	}()
	if body == "" {
		return
	}
	listed, problem, inc := checkReport(body)
	if inc != "" {
		c.Inconclusive(inc)
		return
	}
	if problem != "" {
		c.Violate("report-not-escaped", problem, cj)
		return
	}
	if why := listedAreRelayed(listed, msgs); why != "" {
		c.Violate("report-lists-unrelayed", why, cj)
		return
	}
	n := len(msgs)
	if n > 20 {
		n = 20
	}
	if len(listed) != n {
		c.Violate("report-lists-unrelayed", fmt.Sprintf("the report lists %d messages, the queue holds the last %d", len(listed), n), cj)
		return
	}
	c.Count("status_calls_checked", 1)
}

// execC19Concurrent: the queue is fed while the status report is produced and the
// buffers are recorded, as happens in the proxy while traffic flows and an operator
// reloads the page.  Every report is checked; a deadlock is detected logically.
func execC19Concurrent(c *child.Ctx, k proxyCase, cj []byte) {
	r := ref.NewRand(k.Seed)
	q := circularQueue.NewCircularQueue(20)
	var lg *dailylogger.Writer
	rf := reportfeed.New(lg, q)
	traffic := proxyStream(r, 6000)
	msgs := runSequential(fixedStart, slog.LevelInfo, traffic)
	if len(msgs) == 0 {
		return
	}
	done := make(chan struct{})
	var wg sync.WaitGroup
	stop := make(chan struct{})
	wg.Add(1)
	go func() { // the parser side: adds messages
		defer wg.Done()
		for round := 0; round < 8; round++ {
			for i := range msgs {
				q.Add(msgs[i])
				tick()
			}
		}
		close(stop)
	}()
	for g := 0; g < 2; g++ {
		wg.Add(1)
		go func(g int) { // operators reloading the status page
			defer wg.Done()
			for {
				select {
				case <-stop:
					return
				default:
				}
				body := string(rf.Status())
				tick()
				listed, problem, _ := checkReport(body)
				if problem != "" {
					c.Violate("report-not-escaped", problem, cj)
					return
				}
				if why := listedAreRelayedCyclic(listed, msgs); why != "" {
					c.Violate("report-lists-unrelayed", why, cj)
					return
				}
				c.Count("concurrent_status_calls_checked", 1)
			}
		}(g)
	}
	wg.Add(1)
	go func() { // the relay side: records buffers
		defer wg.Done()
		rr := ref.NewRand(k.Seed + 9)
		for {
			select {
			case <-stop:
				return
			default:
			}
			b := proxyStream(rr, 200)
			if len(b) > 2048 {
				b = b[:2048]
			}
			rf.RecordClientBuffer(&b, 1, len(b))
			b2 := append([]byte(nil), b...)
			rf.RecordServerBuffer(&b2, 1, len(b2))
			tick()
		}
	}()
	go func() { wg.Wait(); close(done) }()
	waitOrHang(done, caseWatchdog, "queue, report feed and status page running concurrently did not finish")
}

// listedAreRelayedCyclic is listedAreRelayed for a queue that is fed the same
// message sequence round after round.
func listedAreRelayedCyclic(listed [][]byte, msgs []handler.Message) string {
	if len(listed) == 0 {
		return ""
	}
	if len(listed) > 20 {
		return fmt.Sprintf("the report lists %d messages, more than the 20 it keeps", len(listed))
	}
	n := len(msgs)
	for start := 0; start < n; start++ {
		ok := true
		for j := range listed {
			if !bytes.Equal(listed[j], msgs[(start+j)%n].RawData) {
				ok = false
				break
			}
		}
		if ok {
			return ""
		}
	}
	return fmt.Sprintf("the report lists %d messages that are not a contiguous run of the messages added (first listed: %s)", len(listed), clip(hexs(listed[0])))
}

// execC19Stall: the upstream server stops reading for a while in the middle of a
// large upload (a caster under load) and then carries on: it must still receive
// every byte in order - a proxy whose write is held up has to wait, not skip.
func execC19Stall(c *child.Ctx, k proxyCase, cj []byte) {
	p, err := startProxyX(c, k.ID, true)
	if err != nil {
		if p != nil {
			p.stop()
		}
		c.Inconclusive("proxy could not be started: " + err.Error())
		return
	}
	defer p.stop()
	data := proxyStream(ref.NewRand(k.Seed), k.StallBytes)
	conn, err := net.DialTimeout("tcp", fmt.Sprintf("127.0.0.1:%d", p.proxyPort), 5*time.Second)
	if err != nil {
		c.Inconclusive("cannot connect to the proxy: " + err.Error())
		return
	}
	defer conn.Close()
	up, err := acceptWithin(p.upstream, 20*time.Second)
	if err != nil {
		c.Inconclusive("the proxy did not connect upstream: " + err.Error())
		return
	}
	defer up.Close()
	sent := make(chan struct{})
	var sentBytes int64
	go func() {
		rest := data
		for len(rest) > 0 {
			n := 16384
			if n > len(rest) {
				n = len(rest)
			}
			if _, err := conn.Write(rest[:n]); err != nil {
				break
			}
			atomic.AddInt64(&sentBytes, int64(n))
			rest = rest[n:]
			tick()
		}
		close(sent)
	}()
	// the upstream reads a little, then nothing for the stall, then everything
	first := make([]byte, 3000)
	nfirst, _ := io.ReadFull(up, first)
	got := append([]byte(nil), first[:nfirst]...)
	// wait until the kernel has taken all it will take from the proxy for this
	// connection (the send queue towards the upstream stops growing): from then on a
	// proxy that still has data is held up inside its write.  Then stay silent.
	upPort := up.LocalAddr().(*net.TCPAddr).Port
	var lastQ, stable int64 = -1, 0
	for i := 0; i < 600 && stable < 8; i++ {
		q := sendQueueTowards(upPort)
		if q == lastQ && q > 0 {
			stable++
		} else {
			stable = 0
		}
		lastQ = q
		sleepTicking(100 * time.Millisecond)
	}
	queued := lastQ
	// the operator looks at the status page while the upload is held up
	stopPoll := make(chan struct{})
	pollDone := make(chan struct{})
	go func() {
		defer close(pollDone)
		for {
			select {
			case <-stopPoll:
				return
			case <-time.After(150 * time.Millisecond):
			}
			if _, err := p.report(); err == nil {
				c.Count("reports_fetched_while_the_upload_was_held_up", 1)
			}
		}
	}()
	sleepTicking(time.Duration(k.StallMs) * time.Millisecond)
	close(stopPoll)
	<-pollDone
	heldBack := int64(len(data)) - int64(nfirst) - queued
	got = append(got, readN(up, len(data)-nfirst, 30*time.Second, sent)...)
	if !p.alive() {
		c.Violate("proxy-died", "the proxy process ended during an upload with a stalled upstream: "+p.stderrTail(), cj)
		return
	}
	if !bytes.Equal(got, data) {
		c.Violate("client-to-server-differs", fmt.Sprintf("the upstream server stopped reading for %d ms during an upload of %d bytes (%d of them queued in the kernel towards it, %d still to be written by the proxy): it received %d bytes: %s",
			k.StallMs, len(data), queued, heldBack, len(got), firstDiff(got, data)), cj)
		return
	}
	c.Count("upstream_stall_sessions", 1)
	if heldBack > 0 {
		c.Count("upstream_stall_sessions_with_the_upload_held_up", 1)
	}
}

// execC19StalledNeighbour: two calls through the proxy at the same time.  The server
// of the first stops reading in the middle of a large upload, so that the proxy is
// held up inside its write for that call.  The second call is none of its business:
// what its client sends reaches its server, and what its server sends reaches its
// client, while the first is still stuck.
func execC19StalledNeighbour(c *child.Ctx, k proxyCase, cj []byte) {
	p, err := startProxyX(c, k.ID, true)
	if err != nil {
		if p != nil {
			p.stop()
		}
		c.Inconclusive("proxy could not be started: " + err.Error())
		return
	}
	defer p.stop()
	r := ref.NewRand(k.Seed)
	big := proxyStream(r, k.StallBytes)
	connA, err := net.DialTimeout("tcp", fmt.Sprintf("127.0.0.1:%d", p.proxyPort), 5*time.Second)
	if err != nil {
		c.Inconclusive("cannot connect to the proxy: " + err.Error())
		return
	}
	defer connA.Close()
	upA, err := acceptWithin(p.upstream, 20*time.Second)
	if err != nil {
		c.Inconclusive("the proxy did not connect upstream: " + err.Error())
		return
	}
	defer upA.Close()
	go func() {
		rest := big
		for len(rest) > 0 {
			n := 16384
			if n > len(rest) {
				n = len(rest)
			}
			if _, err := connA.Write(rest[:n]); err != nil {
				return
			}
			rest = rest[n:]
			tick()
		}
	}()
	first := make([]byte, 3000)
	io.ReadFull(upA, first)
	upPort := upA.LocalAddr().(*net.TCPAddr).Port
	var lastQ, stable int64 = -1, 0
	for i := 0; i < 600 && stable < 8; i++ {
		q := sendQueueTowards(upPort)
		if q == lastQ && q > 0 {
			stable++
		} else {
			stable = 0
		}
		lastQ = q
		sleepTicking(100 * time.Millisecond)
	}
	// the second call
	connB, err := net.DialTimeout("tcp", fmt.Sprintf("127.0.0.1:%d", p.proxyPort), 5*time.Second)
	if err != nil {
		c.Inconclusive("cannot connect a second client: " + err.Error())
		return
	}
	defer connB.Close()
	upB, err := acceptWithin(p.upstream, 20*time.Second)
	if err != nil {
		c.Inconclusive("the proxy did not connect upstream for the second call while the first was held up")
		return
	}
	defer upB.Close()
	cB, sB := proxyStream(r, r.Range(2000, 9000)), proxyStream(r, r.Range(500, 4000))
	cs, ss := make(chan struct{}), make(chan struct{})
	go func() { writeChunks(connB, cB, 0, 0, ref.NewRand(k.Seed+5)); close(cs) }()
	go func() { writeChunks(upB, sB, 0, 0, ref.NewRand(k.Seed+6)); close(ss) }()
	var upGot, clGot []byte
	var wg sync.WaitGroup
	wg.Add(2)
	go func() { defer wg.Done(); upGot = readN(upB, len(cB), 20*time.Second, cs) }()
	go func() { defer wg.Done(); clGot = readN(connB, len(sB), 20*time.Second, ss) }()
	wg.Wait()
	if !p.alive() {
		c.Violate("proxy-died", "the proxy process ended while one call was held up and another was relayed: "+p.stderrTail(), cj)
		return
	}
	if !bytes.Equal(upGot, cB) || !bytes.Equal(clGot, sB) {
		prefix := len(upGot) <= len(cB) && bytes.Equal(upGot, cB[:len(upGot)]) && len(clGot) <= len(sB) && bytes.Equal(clGot, sB[:len(clGot)])
		if !prefix {
			c.Violate("relay-altered", fmt.Sprintf("second call, while the first was held up by its server: server received %d of %d bytes (%s), client received %d of %d (%s)", len(upGot), len(cB), firstDiff(upGot, cB), len(clGot), len(sB), firstDiff(clGot, sB)), cj)
			return
		}
		// incomplete after 20 s of silence: is the second call's goroutine waiting inside
		// the proxy (a lock, a channel) rather than for the network?
		p.cmd.Process.Signal(syscall.SIGQUIT)
		<-p.exited
		if where := clientGoroutineBlockedInside(p.fullStderr()); where != "" {
			c.Violate("relay-withheld", fmt.Sprintf("while the server of one call did not read (its upload of %d bytes held up inside the proxy), a second call was given %d bytes by its client and its server received only %d in 20 s; a goroutine relaying client data is parked inside the proxy: %s", len(big), len(cB), len(upGot), where), cj)
		} else {
			c.Inconclusive("second call incomplete after 20 s without a logical explanation")
		}
		return
	}
	c.Count("calls_relayed_while_another_call_was_held_up_by_its_server", 1)
}

// execC19IdleServer: a caster that hangs up on connections that stay silent for 1.5 s
// (casters do), and two calls through the proxy with a pause of 3 s or 5 s between them.
// Whatever the proxy prepared during the pause, what the second client sends reaches
// the server.
func execC19IdleServer(c *child.Ctx, k proxyCase, cj []byte) {
	p, err := startProxyX(c, k.ID, false)
	if err != nil {
		if p != nil {
			p.stop()
		}
		c.Inconclusive("proxy could not be started: " + err.Error())
		return
	}
	defer p.stop()
	r := ref.NewRand(k.Seed)
	var mu sync.Mutex
	var received [][]byte
	idleClosed := 0
	var lastIdleAccept time.Time // when the latest connection that was later dropped as idle had been accepted
	go func() {
		for {
			conn, err := p.upstream.Accept()
			if err != nil {
				return
			}
			go func(conn net.Conn) {
				defer conn.Close()
				acceptedAt := time.Now()
				mu.Lock()
				idx := len(received)
				received = append(received, nil)
				mu.Unlock()
				buf := make([]byte, 4096)
				first := true
				for {
					if first {
						conn.SetReadDeadline(time.Now().Add(1500 * time.Millisecond))
					} else {
						conn.SetReadDeadline(time.Now().Add(30 * time.Second))
					}
					n, err := conn.Read(buf)
					if n > 0 {
						first = false
						mu.Lock()
						received[idx] = append(received[idx], buf[:n]...)
						mu.Unlock()
						tick()
					}
					if err != nil {
						if first {
							mu.Lock()
							idleClosed++
							if acceptedAt.After(lastIdleAccept) {
								lastIdleAccept = acceptedAt
							}
							mu.Unlock()
						}
						return
					}
				}
			}(conn)
		}
	}()
	got := func(want []byte) bool {
		mu.Lock()
		defer mu.Unlock()
		for _, b := range received {
			if bytes.Equal(b, want) {
				return true
			}
		}
		return false
	}
	call := func(data []byte) (net.Conn, bool) {
		conn, err := net.DialTimeout("tcp", fmt.Sprintf("127.0.0.1:%d", p.proxyPort), 5*time.Second)
		if err != nil {
			return nil, false
		}
		conn.Write(data)
		for i := 0; i < 200; i++ { // up to 20 s
			if got(data) {
				return conn, true
			}
			sleepTicking(100 * time.Millisecond)
		}
		return conn, false
	}
	d1, d2 := proxyStream(r, r.Range(200, 2000)), proxyStream(r, r.Range(50, 2000))
	c1, ok := call(d1)
	if c1 != nil {
		c1.Close()
	}
	if !ok {
		c.Inconclusive("the first of two calls was not relayed within 20 s")
		return
	}
	sleepTicking(time.Duration(k.StallMs) * time.Millisecond)
	secondCallBegan := time.Now()
	c2, ok := call(d2)
	if c2 != nil {
		defer c2.Close()
	}
	if !p.alive() {
		c.Violate("proxy-died", "the proxy process ended between two calls: "+p.stderrTail(), cj)
		return
	}
	if !ok {
		p.cmd.Process.Signal(syscall.SIGQUIT)
		<-p.exited
		mu.Lock()
		idle := idleClosed
		// (only if the proxy made exactly one upstream connection per call: with more, the
		// dropped one need not be the second call's)
		late := lastIdleAccept.After(secondCallBegan) && len(received) == 2
		mu.Unlock()
		if late {
			// the server dropped, as idle, a connection that the proxy made FOR the second
			// call: the proxy took more than 1.5 s from dialling to its first byte - the
			// machine, not the proxy's logic
			c.Inconclusive("the proxy needed more than 1.5 s between dialling the server and relaying the first byte of the second call")
			return
		}
		if dump := p.fullStderr(); proxyAllBlocked(dump) || clientGoroutineWaitingForInput(dump) {
			c.Violate("client-to-server-differs", fmt.Sprintf("second call, %d ms after the first: the client sent %d bytes and in 20 s the server received them on none of its connections; the proxy's goroutine for the client's data has taken them all and is waiting for more, so they never will arrive (the server had hung up on %d connection(s) that stayed silent for 1.5 s, all of them made before the second call began)", k.StallMs, len(d2), idle), cj)
		} else {
			c.Inconclusive("second call not relayed within 20 s without a logical explanation")
		}
		return
	}
	c.Count("second_calls_after_a_pause_with_a_server_that_drops_idle_connections", 1)
}

// execC19HalfClose: the caster answers and then shuts down its sending side only (it
// has nothing more to say) while it keeps reading; everything the client sends
// afterwards must still reach it.
func execC19HalfClose(c *child.Ctx, k proxyCase, cj []byte) {
	p, err := startProxy(c, k.ID)
	if err != nil {
		if p != nil {
			p.stop()
		}
		c.Inconclusive("proxy could not be started: " + err.Error())
		return
	}
	defer p.stop()
	r := ref.NewRand(k.Seed)
	conn, err := net.DialTimeout("tcp", fmt.Sprintf("127.0.0.1:%d", p.proxyPort), 5*time.Second)
	if err != nil {
		c.Inconclusive("cannot connect to the proxy: " + err.Error())
		return
	}
	defer conn.Close()
	up, err := acceptWithin(p.upstream, 20*time.Second)
	if err != nil {
		c.Inconclusive("the proxy did not connect upstream: " + err.Error())
		return
	}
	defer up.Close()
	first := append(ntripRequest(r), proxyStream(r, r.Range(100, 2000))...)
	answer := casterAnswer(r)
	rest := proxyStream(r, r.Range(2000, 20000))
	if k.StallBytes > 0 {
		// a large upload that the client finishes and hangs up on while the server is
		// slow to read: the server still gets all of it
		rest = proxyStream(r, k.StallBytes)
	}
	sent1 := make(chan struct{})
	go func() { writeChunks(conn, first, k.Chunk, k.GapUs, ref.NewRand(k.Seed+1)); close(sent1) }()
	got := readN(up, len(first), 20*time.Second, sent1)
	up.Write(answer)
	if tc, ok := up.(*net.TCPConn); ok {
		tc.CloseWrite()
	}
	// the client sees the answer (and then the end of the server's side)
	ansSent := make(chan struct{})
	close(ansSent)
	gotAns := readN(conn, len(answer), 20*time.Second, ansSent)
	time.Sleep(time.Duration(r.Range(0, 50)) * time.Millisecond)
	sent2 := make(chan struct{})
	go func() {
		writeChunks(conn, rest, k.Chunk, k.GapUs, ref.NewRand(k.Seed+2))
		if k.StallBytes > 0 {
			conn.Close() // the client hangs up as soon as it has written everything
		}
		close(sent2)
	}()
	if k.StallBytes > 0 {
		<-sent2
		// the server gets round to reading only when the proxy has finished with the call
		// (its socket towards the server is no longer in the established state), or after
		// fifteen seconds if the proxy is waiting for the server
		port := up.LocalAddr().(*net.TCPAddr).Port
		for i := 0; i < 150 && socketEstablishedTowards(port); i++ {
			sleepTicking(100 * time.Millisecond)
		}
		sleepTicking(100 * time.Millisecond)
	}
	got = append(got, readN(up, len(rest), 20*time.Second, sent2)...)
	if !p.alive() {
		c.Violate("proxy-died", "the proxy process ended after the server shut down its sending side: "+p.stderrTail(), cj)
		return
	}
	if !bytes.Equal(gotAns, answer) {
		c.Violate("server-to-client-differs", fmt.Sprintf("the server's answer (%d bytes) reached the client as %d bytes: %s", len(answer), len(gotAns), firstDiff(gotAns, answer)), cj)
		return
	}
	want := append(append([]byte(nil), first...), rest...)
	if !bytes.Equal(got, want) {
		c.Violate("client-to-server-differs", fmt.Sprintf("after the server had answered and shut down its sending side (it kept reading), it received %d of the %d bytes the client sent: %s", len(got), len(want), firstDiff(got, want)), cj)
		return
	}
	c.Count("sessions_with_server_half_close", 1)
}

// execC19Bulk: a client uploads megabytes of small frames as fast as it can while the
// status page is read again and again: the upstream gets every byte, and every
// report lists a contiguous run of the messages that were relayed.
func execC19Bulk(c *child.Ctx, k proxyCase, cj []byte) {
	p, err := startProxy(c, k.ID)
	if err != nil {
		if p != nil {
			p.stop()
		}
		c.Inconclusive("proxy could not be started: " + err.Error())
		return
	}
	defer p.stop()
	r := ref.NewRand(k.Seed)
	var data []byte
	for len(data) < k.StallBytes {
		var f gen.Seg
		for {
			f = gen.RandFrame(r)
			if len(f.Bytes) <= 40 {
				break
			}
		}
		data = append(data, f.Bytes...)
	}
	baseline := runSequential(fixedStart, slog.LevelInfo, data)
	conn, err := net.DialTimeout("tcp", fmt.Sprintf("127.0.0.1:%d", p.proxyPort), 5*time.Second)
	if err != nil {
		c.Inconclusive("cannot connect to the proxy: " + err.Error())
		return
	}
	defer conn.Close()
	up, err := acceptWithin(p.upstream, 20*time.Second)
	if err != nil {
		c.Inconclusive("the proxy did not connect upstream: " + err.Error())
		return
	}
	defer up.Close()
	sent := make(chan struct{})
	go func() {
		writeChunks(conn, data, 16384, 0, ref.NewRand(k.Seed+1))
		close(sent)
	}()
	var got []byte
	gotDone := make(chan struct{})
	go func() { got = readN(up, len(data), 30*time.Second, sent); close(gotDone) }()
	var reports []string
	polling := true
	for polling {
		select {
		case <-gotDone:
			polling = false
		default:
		}
		if b, err := p.report(); err == nil && len(reports) < 400 {
			reports = append(reports, b)
		}
		time.Sleep(5 * time.Millisecond)
		tick()
	}
	if !p.alive() {
		c.Violate("proxy-died", "the proxy process ended during a bulk upload: "+p.stderrTail(), cj)
		return
	}
	if !bytes.Equal(got, data) {
		c.Violate("client-to-server-differs", fmt.Sprintf("bulk upload of %d bytes: the upstream server received %d bytes: %s", len(data), len(got), firstDiff(got, data)), cj)
		return
	}
	for _, body := range reports {
		listed, problem, _ := checkReport(body)
		if problem != "" {
			c.Violate("report-not-escaped", "during a bulk upload: "+problem, cj)
			return
		}
		if why := listedAreRelayedFast(listed, baseline, data); why != "" {
			c.Violate("report-lists-unrelayed-message", "during a bulk upload of "+fmt.Sprint(len(data))+" bytes of small frames: "+why, cj)
			return
		}
		c.Count("reports_checked", 1)
	}
	c.Count("bulk_uploads", 1)
	c.Count("reports_fetched_during_bulk_upload", int64(len(reports)))
}

// listedAreRelayedFast: as listedAreRelayed for a long baseline - the listed messages,
// concatenated, must occur in the relayed bytes at a message boundary sequence.
func listedAreRelayedFast(listed [][]byte, baseline []handler.Message, data []byte) string {
	if len(listed) == 0 {
		return ""
	}
	if len(listed) > 20 {
		return fmt.Sprintf("the report lists %d messages, more than the 20 it keeps", len(listed))
	}
	var cat []byte
	for _, l := range listed {
		cat = append(cat, l...)
	}
	at := bytes.Index(data, cat)
	if at < 0 {
		return fmt.Sprintf("the report lists %d messages whose bytes, taken together, occur nowhere in the relayed stream (first listed: %s)", len(listed), clip(hexs(listed[0])))
	}
	// and the individual messages are the ones the framing delivers there
	off := 0
	for i := range baseline {
		if off == at {
			for j := range listed {
				if i+j >= len(baseline) || !bytes.Equal(baseline[i+j].RawData, listed[j]) {
					return fmt.Sprintf("the report lists %d messages that are not a run of the relayed messages (listed message %d: %s)", len(listed), j, clip(hexs(listed[j])))
				}
			}
			return ""
		}
		if off > at {
			break
		}
		off += len(baseline[i].RawData)
	}
	// the same byte string may occur earlier by coincidence: fall back to the full search
	return listedAreRelayed(listed, baseline)
}

// socketEstablishedTowards: is there a local socket that its owner has not closed yet
// (established, or close-wait) whose peer is 127.0.0.1:port (from /proc/net/tcp)?
func socketEstablishedTowards(port int) bool {
	b, err := os.ReadFile("/proc/net/tcp")
	if err != nil {
		return false
	}
	want := fmt.Sprintf("0100007F:%04X", port)
	for _, ln := range strings.Split(string(b), "\n") {
		f := strings.Fields(ln)
		// 01 = established, 08 = close-wait (the peer has shut down its sending side)
		if len(f) >= 4 && f[2] == want && (f[3] == "01" || f[3] == "08") {
			return true
		}
	}
	return false
}

// sendQueueTowards returns the number of bytes queued in the kernel on the local
// socket whose peer is 127.0.0.1:port (from /proc/net/tcp), or -1.
func sendQueueTowards(port int) int64 {
	b, err := os.ReadFile("/proc/net/tcp")
	if err != nil {
		return -1
	}
	want := fmt.Sprintf("0100007F:%04X", port)
	for _, ln := range strings.Split(string(b), "\n") {
		f := strings.Fields(ln)
		if len(f) < 5 || f[2] != want {
			continue
		}
		var tx, rx int64
		if _, err := fmt.Sscanf(f[4], "%x:%x", &tx, &rx); err == nil {
			return tx
		}
	}
	return -1
}

func monC19(c *child.Ctx, replay json.RawMessage) {
	if replay != nil {
		var k proxyCase
		json.Unmarshal(replay, &k)
		c.Begin(replay)
		if k.Kind == "stall" {
			execC19Stall(c, k, replay)
		} else if k.Kind == "idleserver" {
			execC19IdleServer(c, k, replay)
		} else if k.Kind == "neighbour" {
			execC19StalledNeighbour(c, k, replay)
		} else if k.Kind == "bulk" {
			execC19Bulk(c, k, replay)
		} else if k.Kind == "halfclose" {
			execC19HalfClose(c, k, replay)
		} else if k.Kind == "status" {
			execC19Status(c, k, replay)
		} else if k.Kind == "concurrent" {
			for i := 0; i < 20 && c.NViolations() == 0; i++ {
				execC19Concurrent(c, k, replay)
			}
		} else {
			for i := 0; i < 5 && c.NViolations() == 0; i++ {
				k.ID = 9000 + i
				execC19Session(c, k, replay)
			}
		}
		c.Eval(1, true)
		return
	}
	r := ref.NewRand(c.Seed*694847539 + uint64(c.Batch)*715225741 + 19)
	nst := c.Share(c.Pick(2000, 100000))
	// Status writes a short note to stderr on every call; keep the child's log small
	devnull, _ := os.OpenFile(os.DevNull, os.O_WRONLY, 0)
	saved := os.Stderr
	if devnull != nil {
		os.Stderr = devnull
	}
	for i := 0; i < nst; i++ {
		k := proxyCase{ID: c.Batch*10000 + 5000 + i, Kind: "status", Seed: r.Uint64() >> 1}
		cj, _ := json.Marshal(k)
		if i%50 == 0 {
			c.Begin(cj)
		}
		execC19Status(c, k, cj)
		c.Eval(ref.Hash64(cj), true)
	}
	ncc := c.Share(c.Pick(20, 2000))
	for i := 0; i < ncc; i++ {
		k := proxyCase{ID: c.Batch*10000 + 8000 + i, Kind: "concurrent", Seed: r.Uint64() >> 1}
		cj := c.BeginV(k)
		execC19Concurrent(c, k, cj)
		c.Eval(ref.Hash64(cj), true)
	}
	os.Stderr = saved
	if sb := c.NBatch - 1 - c.Batch; sb < len(timedStalls(c)) && timedStalls(c)[sb] >= time.Second && c.NViolations() == 0 {
		k := proxyCase{ID: c.Batch*10000 + 9500, Kind: "stall", Seed: r.Uint64() >> 1, StallMs: int(timedStalls(c)[sb].Milliseconds())*10 + 500, StallBytes: 6000000}
		cj := c.BeginV(k)
		execC19Stall(c, k, cj)
		c.Eval(ref.Hash64(cj), true)
	}
	if (c.Batch == 3 || c.Batch == 4 || c.Thorough() && c.Batch%8 >= 3 && c.Batch%8 <= 4) && c.NViolations() == 0 {
		k := proxyCase{ID: c.Batch*10000 + 9570, Kind: "idleserver", Seed: r.Uint64() >> 1, StallMs: []int{3000, 5000}[c.Batch%2]}
		cj := c.BeginV(k)
		execC19IdleServer(c, k, cj)
		c.Eval(ref.Hash64(cj), true)
	}
	if (c.Batch == 2 || c.Thorough() && c.Batch%8 == 2) && c.NViolations() == 0 {
		k := proxyCase{ID: c.Batch*10000 + 9550, Kind: "neighbour", Seed: r.Uint64() >> 1, StallBytes: 6000000}
		cj := c.BeginV(k)
		execC19StalledNeighbour(c, k, cj)
		c.Eval(ref.Hash64(cj), true)
	}
	if c.Batch == 1 || c.Thorough() && c.Batch%8 == 1 {
		k := proxyCase{ID: c.Batch*10000 + 9600, Kind: "bulk", Seed: r.Uint64() >> 1, StallBytes: 2000000}
		cj := c.BeginV(k)
		execC19Bulk(c, k, cj)
		c.Eval(ref.Hash64(cj), true)
	}
	for i := 0; i < c.Share(c.Pick(10, 400)) && c.NViolations() == 0; i++ {
		k := proxyCase{ID: c.Batch*10000 + 9700 + i, Kind: "halfclose", Seed: r.Uint64() >> 1, Chunk: []int{0, 17, 512, 4096}[r.Intn(4)], GapUs: []int{0, 200}[r.Intn(2)]}
		if i%2 == 1 {
			k.StallBytes, k.Chunk, k.GapUs = r.Range(300000, 600000), 16384, 0
		}
		cj := c.BeginV(k)
		execC19HalfClose(c, k, cj)
		c.Eval(ref.Hash64(cj), true)
	}
	ns := c.Share(c.Pick(40, 1500))
	for i := 0; i < ns; i++ {
		k := proxyCase{Two: i%2 == 0, LogOff: i%4 == 3, ID: c.Batch*10000 + i, Kind: "session", Chunk: []int{0, 1, 17, 512, 4096}[r.Intn(5)], GapUs: []int{0, 200, 2000}[r.Intn(3)], Seed: r.Uint64() >> 1}
		nconn := r.Range(1, 3)
		size := 64000 / nconn
		if k.Chunk == 1 {
			size = 3000
		}
		for j := 0; j < nconn; j++ {
			cs := proxyStream(r, r.Range(size/4, size))
			ss := proxyStream(r, r.Range(10, size/2))
			if i%4 == 1 {
				// the way a session begins: the client's request, the caster's answer
				cs = append(ntripRequest(r), cs...)
				ss = append(casterAnswer(r), ss...)
			}
			if i%4 == 2 && j == 0 {
				// request-like text arriving on its own in the middle of the binary stream,
				// even in the middle of a frame (a client that re-sends its request)
				k.OwnWrites = true
				cs = nil
				for n := r.Range(3, 8); n > 0; n-- {
					cs = append(cs, gen.CleanStream(r, gen.CleanOpts{MinFrames: 1, MaxFrames: 3, SmallFrames: true}).Bytes()...)
					f := gen.RandFrame(r)
					for len(f.Bytes) < 20 || len(f.Bytes) > 200 {
						f = gen.RandFrame(r)
					}
					cut := r.Range(5, len(f.Bytes)-5)
					cs = append(cs, f.Bytes[:cut]...)
					k.WriteAt = append(k.WriteAt, len(cs))
					cs = append(cs, ntripRequest(r)...)
					k.WriteAt = append(k.WriteAt, len(cs))
					cs = append(cs, f.Bytes[cut:]...)
				}
				cs = append(cs, gen.RandFrame(r).Bytes...)
			}
			if i%5 == 2 && j == 0 {
				// text-only traffic: complete NMEA sentences, some with markup in the text
				cs = nil
				for n := r.Range(3, 12); n > 0; n-- {
					txt := []string{"<script>alert(1)</script>", "ANTENNA OK", "</div><img src=x>", "a>b", "u-blox AG - www.u-blox.com"}[r.Intn(5)]
					cs = append(cs, nmeaSentence(txt)...)
				}
				k.NMEAOnly = true
			}
			if i%3 == 1 && !k.NMEAOnly {
				// streams that end exactly on a multiple of the proxy's 2048-byte read
				// buffer, written in buffer-sized pieces and then silence
				for len(ss) < 2048*3 {
					ss = append(ss, proxyStream(r, 500)...)
				}
				for len(cs) < 2048*3 {
					cs = append(cs, proxyStream(r, 500)...)
				}
				ss = ss[:2048*r.Range(1, 3)]
				cs = cs[:2048*r.Range(1, 3)]
				k.Chunk, k.GapUs = []int{2048, 4096}[r.Intn(2)], 2000
			}
			k.Conns = append(k.Conns, hexs(cs))
			k.Server = append(k.Server, hexs(ss))
		}
		if c.NViolations() > 0 {
			break // the tree is already known to violate; further sessions only cost time
		}
		cj := c.BeginV(k)
		execC19Session(c, k, cj)
		c.Eval(ref.Hash64(cj), true)
		if c.WantSample() {
			c.Sample(map[string]interface{}{"kind": "session", "connections": nconn, "chunk": k.Chunk, "gap_us": k.GapUs, "client_bytes_first_connection": len(k.Conns[0]) / 2})
		}
	}
}
