package main

import (
	"bytes"
	"encoding/hex"
	"encoding/json"
	"fmt"
	"log/slog"
	"runtime"
	"sync"
	"time"

	"github.com/goblimey/go-ntrip/rtcm/handler"
	"github.com/goblimey/go-ntrip/rtcm/pushback"
	"github.com/goblimey/go-ntrip/verifhook"

	"verifharness/child"
	"verifharness/gen"
	"verifharness/ref"
)

func init() {
	monitors["C01"] = monC01
	monitors["C02"] = monC02
	monitors["C03"] = monC03
	monitors["C12"] = monC12
}

var fixedStart = time.Date(2023, time.May, 17, 12, 0, 0, 0, time.UTC)

const caseWatchdog = 120 * time.Second

// runSequential is "sequential framing": the stream handler reading a pre-filled,
// closed channel, its output drained by this goroutine.
func runSequential(start time.Time, level slog.Level, input []byte) []handler.Message {
	in := make(chan byte, len(input)+1)
	for _, b := range input {
		in <- b
	}
	close(in)
	out := make(chan handler.Message, 16)
	h := handler.New(start, level)
	go h.HandleMessages(in, out)
	var msgs []handler.Message
	done := make(chan struct{})
	go func() {
		for m := range out {
			msgs = append(msgs, m)
			endless(len(msgs), len(input), "sequential framing")
			tick()
		}
		close(done)
	}()
	waitOrHangGone(done, caseWatchdog, "sequential framing did not finish")
	return msgs
}

// sleepTicking sleeps for d while reporting progress, so that a deliberate stall of
// the monitor's own producer or consumer is never mistaken for a deadlock.
func sleepTicking(d time.Duration) {
	for d > 0 {
		step := 50 * time.Millisecond
		if d < step {
			step = d
		}
		time.Sleep(step)
		tick()
		d -= step
	}
}

// runTimed is the stream handler between a producer that falls silent for a while at
// the given input offsets and a consumer that stays away for consStall before every
// receive (an unbuffered output, so the handler has to wait for it).  No timing of
// either side may change what is delivered.
func runTimed(input []byte, pauseAt map[int]time.Duration, consStall time.Duration) []handler.Message {
	return runTimedX(input, pauseAt, consStall, -1, 0, 0)
}

// runTimedX: in addition the consumer is held up ONCE, for onceStall, before it
// takes delivery number onceAt (0 = the first); outCap is the output's capacity.
func runTimedX(input []byte, pauseAt map[int]time.Duration, consStall time.Duration, onceAt int, onceStall time.Duration, outCap int) []handler.Message {
	in := make(chan byte)
	out := make(chan handler.Message, outCap)
	h := handler.New(fixedStart, slog.LevelInfo)
	go h.HandleMessages(in, out)
	go func() {
		for i, b := range input {
			if d, ok := pauseAt[i]; ok {
				sleepTicking(d)
			}
			in <- b
			tick()
		}
		if d, ok := pauseAt[len(input)]; ok {
			sleepTicking(d)
		}
		close(in)
	}()
	var msgs []handler.Message
	done := make(chan struct{})
	go func() {
		for n := 0; ; n++ {
			sleepTicking(consStall)
			if n == onceAt {
				sleepTicking(onceStall)
			}
			m, ok := <-out
			if !ok {
				break
			}
			msgs = append(msgs, m)
			endless(len(msgs), len(input), "stream handler with a stalling producer/consumer")
			tick()
		}
		close(done)
	}()
	waitOrHangGone(done, caseWatchdog+onceStall+time.Duration(len(pauseAt)+40)*(consStall+time.Second), "stream handler with a stalling producer/consumer did not finish")
	return msgs
}

// timedStalls are the lengths of the stalls: a handler that gives up on a consumer
// or flushes on a silent input will have picked some round figure.
func timedStalls(c *child.Ctx) []time.Duration {
	if c.Thorough() {
		return []time.Duration{120 * time.Millisecond, 300 * time.Millisecond, 600 * time.Millisecond, 1200 * time.Millisecond, 2500 * time.Millisecond, 5500 * time.Millisecond, 10500 * time.Millisecond}
	}
	return []time.Duration{300 * time.Millisecond, 1200 * time.Millisecond}
}

// runSideBySide runs one stream handler per stream, all at the same time, each on its
// own unbuffered channels with its own producer and consumer; it returns what each
// delivered.  Handlers in one process (the proxy's connections, a test harness) share
// nothing that a user can see.
func runSideBySide(streams [][]byte, seed uint64) [][]handler.Message {
	out := make([][]handler.Message, len(streams))
	var wg sync.WaitGroup
	for i := range streams {
		wg.Add(1)
		go func(i int) {
			defer wg.Done()
			in := make(chan byte)
			ch := make(chan handler.Message)
			h := handler.New(fixedStart, slog.LevelInfo)
			go h.HandleMessages(in, ch)
			go func() {
				pr := ref.NewRand(seed + uint64(i)*977)
				for _, b := range streams[i] {
					if pr.Chance(1, 7) {
						runtime.Gosched()
					}
					in <- b
				}
				close(in)
			}()
			for m := range ch {
				out[i] = append(out[i], m)
				tick()
			}
		}(i)
	}
	done := make(chan struct{})
	go func() { wg.Wait(); close(done) }()
	waitOrHangGone(done, caseWatchdog, "stream handlers running side by side did not finish")
	return out
}

// execC03Second: two streams through one handler, one after the other; k.Expect is
// the expectation for the second, first the one for the first (nil on replay).
func execC03Second(c *child.Ctx, k streamCase, cj []byte, first []expSeg) {
	h := handler.New(fixedStart, slog.LevelInfo)
	m1 := streamThrough(h, unhex(k.Input))
	if first != nil {
		if why := compareSeq(m1, first); why != "" {
			c.Violate("sequence-mismatch", "first of two streams through one handler: "+why, cj)
			return
		}
	}
	m2 := streamThrough(h, unhex(k.Second))
	if why := compareSeq(m2, k.Expect); why != "" {
		c.Violate("sequence-mismatch", fmt.Sprintf("second stream through the same handler (the first, %d bytes, ended with %s): %s", len(unhex(k.Input)), describeMsgs(m1[max0(len(m1)-1):], 1), why), cj)
		return
	}
	c.Count("second_streams_on_one_handler", 1)
}

// execC03Abandoned: the message-by-message interface (FetchNextMessageFrame on a
// push-back channel, which HandleMessages itself is built on).  A first input is read
// for k.Abandon messages and then given up - the connection dropped - and the same
// handler is given a second input on a new channel.  What was pending for the first
// input is no part of the second.
func execC03Abandoned(c *child.Ctx, k streamCase, cj []byte) {
	h := handler.New(fixedStart, slog.LevelInfo)
	feed := func(data []byte) *pushback.ByteChannel {
		ch := make(chan byte, len(data)+1)
		for _, b := range data {
			ch <- b
		}
		close(ch)
		return pushback.New(ch)
	}
	fetch := func(pb *pushback.ByteChannel, limit int) []handler.Message {
		var out []handler.Message
		for limit < 0 || len(out) < limit {
			m, err := h.FetchNextMessageFrame(pb)
			if err != nil && err.Error() == "done" {
				break
			}
			if m == nil {
				break
			}
			out = append(out, *m)
			endless(len(out), 1<<20, "message-by-message fetching")
		}
		return out
	}
	var why string
	func() {
		defer func() {
			if r := recover(); r != nil {
				why = fmt.Sprintf("panic: %v", r)
			}
		}()
		fetch(feed(unhex(k.Input)), k.Abandon)
		got := fetch(feed(unhex(k.Second)), -1)
		why = compareSeq(got, k.Expect)
	}()
	if why != "" {
		c.Violate("sequence-mismatch", fmt.Sprintf("second input fetched message by message with a handler whose first input (%d bytes) was given up after %d messages: %s", len(unhex(k.Input)), k.Abandon, why), cj)
		return
	}
	c.Count("second_inputs_after_an_abandoned_first", 1)
}

func max0(v int) int {
	if v < 0 {
		return 0
	}
	return v
}

// execLiveCase: a producer that waits until the handler has drained the input queue
// (it is idle, blocked on an empty queue) at each of the given offsets and then sends
// on at full speed into a queue of capacity InCap.
func execLiveCase(c *child.Ctx, k streamCase, cj []byte, sig string) {
	input := unhex(k.Input)
	pause := map[int]bool{}
	for _, o := range k.PauseAt {
		pause[o] = true
	}
	in := make(chan byte, k.InCap)
	out := make(chan handler.Message, 64)
	h := handler.New(fixedStart, slog.LevelInfo)
	go h.HandleMessages(in, out)
	go func() {
		for i, b := range input {
			if pause[i] {
				for spins := 0; len(in) > 0 && spins < 100000; spins++ {
					runtime.Gosched()
				}
				time.Sleep(50 * time.Microsecond) // let the handler park on the empty queue
			}
			in <- b
		}
		close(in)
	}()
	var msgs []handler.Message
	done := make(chan struct{})
	go func() {
		for m := range out {
			msgs = append(msgs, m)
			tick()
		}
		close(done)
	}()
	waitOrHangGone(done, caseWatchdog, "stream handler with a live source did not finish")
	if why := compareSeq(msgs, k.Expect); why != "" {
		c.Violate(sig, k.Note+" (input queue of "+fmt.Sprint(k.InCap)+" bytes): "+why, cj)
	}
	c.Count("live_source_runs", 1)
}

// execSideBySide: every stream handled next to the others must come out as it does
// when it is handled alone.
func execSideBySide(c *child.Ctx, k streamCase, cj []byte, sig string) [][]handler.Message {
	var streams [][]byte
	for _, h := range k.SideBySide {
		streams = append(streams, unhex(h))
	}
	got := runSideBySide(streams, k.HookSeed)
	for j := range got {
		alone := runSequential(fixedStart, slog.LevelInfo, streams[j])
		bad := len(alone) != len(got[j])
		for i := 0; !bad && i < len(alone); i++ {
			if alone[i].MessageType != got[j][i].MessageType || !bytes.Equal(alone[i].RawData, got[j][i].RawData) {
				bad = true
			}
		}
		if bad {
			c.Violate(sig, fmt.Sprintf("stream %d of %d handled at the same time by separate handlers is delivered differently from the same stream handled alone: side by side%s; alone%s",
				j+1, len(streams), describeMsgs(got[j], 8), describeMsgs(alone, 8)), cj)
			break
		}
	}
	c.Count("streams_handled_side_by_side", int64(len(streams)))
	return got
}

// onceStalls are the lengths of a single long hold-up (one write, one consumer):
// longer than the timers a "watchdog" would plausibly use.
func onceStalls(c *child.Ctx) []time.Duration {
	if c.Thorough() {
		return []time.Duration{6500 * time.Millisecond, 12500 * time.Millisecond, 31 * time.Second, 65 * time.Second}
	}
	return []time.Duration{6500 * time.Millisecond}
}

// execTimed runs a by-construction stream with a stalling consumer and with a
// producer pausing in the middle of and between its segments.
func execTimed(c *child.Ctx, s gen.Stream, exp []gen.Expected, stall time.Duration, sig string) {
	input := s.Bytes()
	for mode := 0; mode < 2; mode++ {
		k := streamCase{Input: hexs(input), Expect: toExp(exp), StallMs: stall.Milliseconds()}
		if mode == 0 {
			k.ConsumerStalls = true
			k.Note = fmt.Sprintf("consumer stays away %v before every receive", stall)
		} else {
			off := 0
			for _, g := range s {
				k.PauseAt = append(k.PauseAt, off)
				if len(g.Bytes) > 1 {
					k.PauseAt = append(k.PauseAt, off+len(g.Bytes)/2)
				}
				off += len(g.Bytes)
			}
			k.PauseAt = append(k.PauseAt, len(input))
			k.Note = fmt.Sprintf("producer silent for %v at the start, in the middle and at the end of every segment", stall)
		}
		cj := c.BeginV(k)
		execTimedCase(c, k, cj, sig)
		c.Eval(ref.Hash64(input, []byte(k.Note)), true)
	}
}

func execTimedCase(c *child.Ctx, k streamCase, cj []byte, sig string) {
	stall := time.Duration(k.StallMs) * time.Millisecond
	pauses := map[int]time.Duration{}
	for _, o := range k.PauseAt {
		pauses[o] = stall
	}
	cons := time.Duration(0)
	if k.ConsumerStalls {
		cons = stall
	}
	onceAt := -1
	if k.OnceStallMs > 0 {
		onceAt = k.OnceAt
	}
	msgs := runTimedX(unhex(k.Input), pauses, cons, onceAt, time.Duration(k.OnceStallMs)*time.Millisecond, k.OutCap)
	if why := compareSeq(msgs, k.Expect); why != "" {
		c.Violate(sig, k.Note+": "+why, cj)
	}
	c.Count("stalled_runs", 1)
}

// execHeldUpOnce: the consumer takes nothing for seconds, once, while the handler has
// a message for it (unbuffered output, or a buffered one that is full).
func execHeldUpOnce(c *child.Ctx, s gen.Stream, exp []gen.Expected, stall time.Duration, onceAt, outCap int, sig string) {
	k := streamCase{Input: hexs(s.Bytes()), Expect: toExp(exp), StallMs: 1, OnceStallMs: stall.Milliseconds(), OnceAt: onceAt, OutCap: outCap,
		Note: fmt.Sprintf("consumer held up once for %v before it takes delivery %d (output capacity %d)", stall, onceAt, outCap)}
	cj := c.BeginV(k)
	execTimedCase(c, k, cj, sig)
	c.Count("held_up_once_runs", 1)
	c.Eval(ref.Hash64(s.Bytes(), []byte(k.Note)), true)
}

type streamCase struct {
	Input string `json:"input"` // hex
	Note  string `json:"note,omitempty"`
	// schedule (C02)
	InCap    int    `json:"in_cap,omitempty"`
	OutCap   int    `json:"out_cap,omitempty"`
	Procs    int    `json:"gomaxprocs,omitempty"`
	Prod     int    `json:"producer_profile,omitempty"`
	Cons     int    `json:"consumer_profile,omitempty"`
	Hook     string `json:"hook_profile,omitempty"`
	HookSeed uint64 `json:"hook_seed,omitempty"`
	// stalls (runTimed)
	StallMs        int64 `json:"stall_ms,omitempty"`
	PauseAt        []int `json:"producer_pauses_at,omitempty"`
	ConsumerStalls bool  `json:"consumer_stalls,omitempty"`
	// the consumer is held up once, for OnceStallMs, before it takes delivery OnceAt
	OnceStallMs int64 `json:"consumer_held_up_once_ms,omitempty"`
	OnceAt      int   `json:"before_delivery,omitempty"`
	// a second stream processed by the same handler afterwards
	Second  string `json:"second_stream_same_handler,omitempty"`
	Fetch   bool   `json:"message_by_message,omitempty"`
	Abandon int    `json:"abandon_first_after_messages,omitempty"` // with Second: the first input is fetched message by message and given up after this many
	// streams handled at the same time, each by its own handler
	SideBySide []string `json:"streams_side_by_side,omitempty"`
	// direct call (C01)
	Direct bool `json:"direct,omitempty"`
	// bytes the same handler processed as a stream before the direct call
	Prior string `json:"stream_processed_before,omitempty"`
	// bytes that lie behind the input in the same backing array (its spare capacity)
	Spare string `json:"spare_capacity_holds,omitempty"`
	// expectation (C03/C12)
	Expect []expSeg `json:"expect,omitempty"`
	// C12: the uncorrupted stream and the delivery index of the victim
	Clean  string `json:"clean_input,omitempty"`
	Victim int    `json:"victim_delivery,omitempty"`
}

type expSeg struct {
	Type int    `json:"type"`
	Hex  string `json:"hex"`
}

func unhex(s string) []byte {
	b, _ := hex.DecodeString(s)
	return b
}

func toExp(e []gen.Expected) []expSeg {
	out := make([]expSeg, len(e))
	for i := range e {
		out[i] = expSeg{Type: e[i].Type, Hex: hexs(e[i].Bytes)}
	}
	return out
}

func describeMsgs(msgs []handler.Message, max int) string {
	s := ""
	for i, m := range msgs {
		if i >= max {
			s += fmt.Sprintf(" ...(%d more)", len(msgs)-max)
			break
		}
		raw := hexs(m.RawData)
		if len(raw) > 80 {
			raw = raw[:40] + ".." + raw[len(raw)-40:]
		}
		s += fmt.Sprintf(" [%d:%dB:%s]", m.MessageType, len(m.RawData), raw)
	}
	return s
}

// ---------------------------------------------------------------------------
// C01

func checkTyped(m *handler.Message) string {
	if m.MessageType < 0 {
		return ""
	}
	if !ref.IsFrame(m.RawData) {
		return fmt.Sprintf("message of type %d carries %d raw bytes that are not exactly one CRC-valid RTCM3 frame: %s", m.MessageType, len(m.RawData), hexs(m.RawData))
	}
	if t := ref.TypeOf(m.RawData); t != m.MessageType {
		return fmt.Sprintf("reported type %d but the first 12 payload bits are %d", m.MessageType, t)
	}
	return ""
}

func execC01Stream(c *child.Ctx, k streamCase, cj []byte) {
	input := unhex(k.Input)
	msgs := runSequential(fixedStart, slog.LevelInfo, input)
	typed, rejected := 0, 0
	for i := range msgs {
		if why := checkTyped(&msgs[i]); why != "" {
			c.Violate("typed-message-not-a-frame", "stream handler: "+why, cj)
		} else if msgs[i].MessageType >= 0 && (len(msgs[i].RawData) > 500 || i%4 == 0) {
			// what a consumer holds is still that frame after another consumer (the display
			// log, the status report) has displayed its copy: the copies share the bytes
			cp := msgs[i]
			func() {
				defer func() { recover() }() // crashes belong to C07
				_ = cp.String()
			}()
			if why := checkTyped(&msgs[i]); why != "" {
				c.Violate("typed-message-not-a-frame", "stream handler, after a copy of the message was displayed: "+why, cj)
			}
			c.Count("typed_messages_rechecked_after_display", 1)
		}
		if msgs[i].MessageType >= 0 {
			typed++
		} else if len(msgs[i].RawData) > 0 && msgs[i].RawData[0] == 0xD3 {
			rejected++
		}
	}
	c.Count("stream_typed_deliveries", int64(typed))
	c.Count("stream_rejected_d3_candidates", int64(rejected))
	c.Count("stream_bytes", int64(len(input)))
	c.Eval(ref.Hash64(input), typed > 0 && rejected > 0)
}

func execC01Direct(c *child.Ctx, k streamCase, cj []byte) {
	input := unhex(k.Input)
	if k.Spare != "" {
		whole := append(append([]byte(nil), input...), unhex(k.Spare)...)
		input = whole[:len(input)]
		c.Count("direct_with_spare_capacity", 1)
	}
	h := handler.New(fixedStart, slog.LevelInfo)
	if k.Prior != "" {
		// the handler has processed a stream before
		func() {
			defer func() { recover() }()
			streamThrough(h, unhex(k.Prior))
		}()
		c.Count("direct_after_a_stream", 1)
	}
	var m *handler.Message
	var err error
	func() {
		defer func() {
			if r := recover(); r != nil {
				// a crash belongs to C07; here it only means no typed message was returned
				c.Count("direct_panics_left_to_C07", 1)
				m, err = nil, fmt.Errorf("panic")
			}
		}()
		m, err = h.GetMessage(input)
	}()
	nontrivial := false
	switch {
	case m == nil:
		c.Count("direct_nil", 1)
	case m.MessageType >= 0 && err == nil:
		c.Count("direct_typed_no_error", 1)
		if why := checkTyped(m); why != "" {
			c.Violate("typed-message-not-a-frame", "single-frame decoding returned a typed message without an error: "+why+" (input "+k.Note+")", cj)
		} else if !bytes.HasPrefix(input, m.RawData) {
			c.Violate("typed-message-not-from-input", "single-frame decoding returned raw bytes that are not a prefix of its input", cj)
		}
		nontrivial = len(input) != len(m.RawData)
	case m.MessageType >= 0:
		c.Count("direct_typed_with_error", 1)
	default:
		c.Count("direct_rejected", 1)
		nontrivial = len(input) > 0 && input[0] == 0xD3
	}
	c.Eval(ref.Hash64(input, []byte("direct")), nontrivial)
}

// execC01Reused decodes a valid frame from a buffer and then, with the same handler,
// damaged frames of the same type and length written into the same buffer.
func execC01Reused(c *child.Ctx, r *ref.SplitMix64, frame []byte, cj []byte) {
	h := handler.New(fixedStart, slog.LevelInfo)
	buf := make([]byte, len(frame), len(frame)+16)
	copy(buf, frame)
	func() {
		defer func() { recover() }()
		h.GetMessage(buf)
	}()
	for k := 0; k < 4; k++ {
		copy(buf, frame)
		switch k {
		case 0:
			buf[r.Range(5, len(buf)-4)] ^= byte(1 + r.Intn(255)) // payload byte, CRC bytes intact
		case 1:
			buf[len(buf)-1-r.Intn(3)] ^= byte(1 << uint(r.Intn(8)))
		case 2:
			bit := r.Range(36, len(buf)*8-25)
			buf[bit/8] ^= 1 << uint(7-bit%8)
		default: // the same valid frame again: must still be accepted
		}
		if len(buf) <= 9 {
			copy(buf, frame)
			buf[len(buf)-1] ^= 0x01
		}
		var m *handler.Message
		var err error
		func() {
			defer func() {
				if rr := recover(); rr != nil {
					m, err = nil, fmt.Errorf("panic")
				}
			}()
			m, err = h.GetMessage(buf)
		}()
		if m != nil && m.MessageType >= 0 && err == nil {
			if why := checkTyped(m); why != "" {
				c.Violate("typed-message-not-a-frame", "single-frame decoding from a reused read buffer (a valid frame of the same type and length had been decoded from it before): "+why, cj)
				return
			}
		}
		c.Count("direct_reused_buffer_decodes", 1)
	}
	c.Eval(ref.Hash64(frame, []byte("reused")), true)
}

// directCandidates builds inputs for single-frame decoding.
func directCandidate(r *ref.SplitMix64) (b []byte, note string) {
	f := gen.RandFrame(r)
	for !gen.SafeMSMPayload(f.Type, len(f.Bytes)-6) && r.Chance(9, 10) {
		f = gen.RandFrame(r)
	}
	return candidateFrom(r, f.Bytes, r.Intn(12))
}

// candidateFrom derives the candidate of the given kind from one valid frame.
func candidateFrom(r *ref.SplitMix64, frame []byte, kind int) (b []byte, note string) {
	fb := append([]byte(nil), frame...)
	switch kind {
	case 0:
		return fb, "valid frame alone"
	case 1:
		return append(fb, r.Bytes(r.Range(1, 9))...), "valid frame plus trailing bytes"
	case 2, 3, 4:
		// crafted over-long input: a frame-sized prefix with a WRONG CRC, then
		// extra bytes, then the CRC-24Q of everything before it
		k := r.Range(0, 5)
		pre := append([]byte(nil), fb...)
		pre[len(pre)-1-r.Intn(3)] ^= byte(1 + r.Intn(255))
		pre = append(pre, r.Bytes(k)...)
		cc := ref.CRC24Q(pre)
		return append(pre, byte(cc>>16), byte(cc>>8), byte(cc)), "declared-length prefix with bad CRC, extra bytes, then CRC of the whole input"
	case 5:
		fb[len(fb)-1-r.Intn(3)] ^= byte(1 << uint(r.Intn(8)))
		return fb, "one CRC byte corrupted"
	case 6:
		fb[1] |= byte(1+r.Intn(63)) << 2
		cc := ref.CRC24Q(fb[:len(fb)-3])
		fb[len(fb)-3], fb[len(fb)-2], fb[len(fb)-1] = byte(cc>>16), byte(cc>>8), byte(cc)
		return fb, "reserved bits set, CRC recomputed"
	case 7:
		// length field off by one with the CRC recomputed over the new shape
		l := int(fb[1]&3)<<8 | int(fb[2])
		if r.Chance(1, 2) && l > 1 {
			l--
		} else if l < 1023 {
			l++
		}
		fb[1], fb[2] = byte(l>>8), byte(l)
		cc := ref.CRC24Q(fb[:len(fb)-3])
		fb[len(fb)-3], fb[len(fb)-2], fb[len(fb)-1] = byte(cc>>16), byte(cc>>8), byte(cc)
		return fb, "length field off by one, CRC recomputed over the unchanged number of bytes"
	case 8:
		return fb[:r.Range(1, len(fb)-1)], "truncated frame"
	case 9:
		z := []byte{0xD3, 0, 0}
		if r.Chance(1, 2) {
			z = append(z, r.Bytes(r.Range(0, 6))...)
		} else {
			z = append(z, fb[3:len(fb)-3]...) // as long as the frame it is derived from
		}
		cc := ref.CRC24Q(z)
		return append(z, byte(cc>>16), byte(cc>>8), byte(cc)), "zero length field with a valid CRC"
	case 10:
		fb[r.Range(3, len(fb)-4)] ^= byte(1 + r.Intn(255))
		return fb, "payload byte corrupted"
	default:
		x := r.Bytes(r.Range(1, 64))
		if r.Chance(1, 2) {
			x[0] = 0xD3
		}
		return x, "random bytes"
	}
}

func monC01(c *child.Ctx, replay json.RawMessage) {
	if replay != nil {
		var k streamCase
		json.Unmarshal(replay, &k)
		c.Begin(replay)
		if k.Direct {
			execC01Direct(c, k, replay)
		} else {
			execC01Stream(c, k, replay)
		}
		return
	}
	r := ref.NewRand(c.Seed*7919 + uint64(c.Batch)*104729 + 1)
	nStreams := c.Share(c.Pick(20000, 400000))
	for i := 0; i < nStreams; i++ {
		s := gen.HostileStream(r, false)
		k := streamCase{Input: hexs(s.Bytes())}
		cj := c.BeginV(k)
		execC01Stream(c, k, cj)
		if i == 0 {
			c.Sample(map[string]interface{}{"kind": "stream", "segments": segSummary(s)})
		}
	}
	// every leader that is not a valid one (a reserved bit set, or a zero length field),
	// followed by a body as long as each sloppy reading of it would expect and by the
	// CRC of the whole: never a typed message
	if c.Batch == 0 || c.Thorough() {
		good := gen.RandFrame(r)
		for b1 := 0; b1 < 256; b1++ {
			for _, b2 := range []int{0, 1, 2, 0x13, 0x80, 0xff} {
				if b1>>2 == 0 && (b1&3 != 0 || b2 != 0) {
					continue // a valid leader
				}
				l10 := (b1&3)<<8 | b2
				l16 := b1<<8 | b2
				lens := []int{l10}
				if l16 <= 2100 && l16 != l10 {
					lens = append(lens, l16)
				}
				if l10 == 0 {
					lens = append(lens, 1024)
				}
				for _, bl := range lens {
					nf := gen.NonFrameWithLeader(r, byte(b1), byte(b2), bl)
					in := append(append([]byte(nil), nf.Bytes...), good.Bytes...)
					k := streamCase{Input: hexs(in), Note: fmt.Sprintf("leader d3 %02x %02x with a body of %d bytes and the CRC of the whole, then a valid frame", b1, b2, bl)}
					cj := c.BeginV(k)
					execC01Stream(c, k, cj)
					kd := streamCase{Input: hexs(nf.Bytes), Direct: true, Note: k.Note}
					cjd, _ := json.Marshal(kd)
					execC01Direct(c, kd, cjd)
					c.Count("invalid_leaders_swept", 1)
				}
			}
		}
	}
	// every payload length once (thorough) with each single CRC byte corrupted
	if c.Thorough() {
		for n := 1 + c.Batch; n <= 1023; n += c.NBatch {
			t := gen.PickType(r)
			if n < 7 {
				t = 1005
			}
			if n == 1 {
				t = 0x3E0
			}
			f := ref.Frame(gen.RandPayload(r, t, n, 0))
			for pos := 0; pos < 3; pos++ {
				g := append([]byte(nil), f...)
				g[len(g)-3+pos] ^= byte(1 << uint(r.Intn(8)))
				in := append(append([]byte(nil), g...), f...)
				k := streamCase{Input: hexs(in)}
				cj := c.BeginV(k)
				execC01Stream(c, k, cj)
			}
		}
	}
	// single-frame decoding from one reused read buffer on one handler: a valid frame
	// first, then candidates of the same length written over it in the same memory
	nReuse := c.Share(c.Pick(4000, 100000))
	for i := 0; i < nReuse; i++ {
		f := gen.RandFrame(r)
		for !gen.SafeMSMPayload(f.Type, len(f.Bytes)-6) || len(f.Bytes) > 200 {
			f = gen.RandFrame(r)
		}
		k := streamCase{Input: hexs(f.Bytes), Direct: true, Note: "reused buffer"}
		cj := c.BeginV(k)
		execC01Reused(c, r, f.Bytes, cj)
	}
	// frames whose CRC field (or its tail, or the payload) has been wiped with one value:
	// zeros, ones, start bytes - "no CRC supplied" is not a valid CRC
	nWipe := c.Share(c.Pick(2000, 40000))
	for i := 0; i < nWipe; i++ {
		f := gen.RandFrame(r)
		for !gen.SafeMSMPayload(f.Type, len(f.Bytes)-6) || len(f.Bytes) > 300 {
			f = gen.RandFrame(r)
		}
		g := append([]byte(nil), f.Bytes...)
		from := []int{len(g) - 3, len(g) - 2, len(g) - 1, 3, 5}[i%5]
		to := len(g)
		if i%10 >= 5 && from < len(g)-3 {
			to = len(g) - 3
		}
		val := []byte{0x00, 0xFF, 0xD3, 0x55}[(i/10)%4]
		for p := from; p < to; p++ {
			g[p] = val
		}
		if bytes.Equal(g, f.Bytes) || ref.CRC24Q(g[:len(g)-3]) == uint32(g[len(g)-3])<<16|uint32(g[len(g)-2])<<8|uint32(g[len(g)-1]) {
			continue
		}
		in := append(append([]byte(nil), g...), f.Bytes...)
		k := streamCase{Input: hexs(in), Note: fmt.Sprintf("bytes %d..%d of a frame := %#x, then the intact frame", from, to-1, val)}
		cj := c.BeginV(k)
		execC01Stream(c, k, cj)
		kd := streamCase{Input: hexs(g), Direct: true, Note: k.Note}
		cjd, _ := json.Marshal(kd)
		execC01Direct(c, kd, cjd)
		c.Count("frames_with_a_wiped_field", 1)
	}
	// the right CRC in the wrong shape: its three bytes reversed, rotated, two of them
	// swapped, complemented, nibble-swapped (a bridge with another byte order, a sender
	// that inverts its CRC as other protocols do)
	nPerm := c.Share(c.Pick(2000, 40000))
	for i := 0; i < nPerm; i++ {
		f := gen.RandFrame(r)
		for !gen.SafeMSMPayload(f.Type, len(f.Bytes)-6) || len(f.Bytes) > 300 {
			f = gen.RandFrame(r)
		}
		g := append([]byte(nil), f.Bytes...)
		n := len(g)
		a, b, cc := g[n-3], g[n-2], g[n-1]
		switch i % 7 {
		case 0:
			g[n-3], g[n-2], g[n-1] = cc, b, a
		case 1:
			g[n-3], g[n-2], g[n-1] = b, cc, a
		case 2:
			g[n-3], g[n-2], g[n-1] = cc, a, b
		case 3:
			g[n-3], g[n-2], g[n-1] = b, a, cc
		case 4:
			g[n-3], g[n-2], g[n-1] = a, cc, b
		case 5:
			g[n-3], g[n-2], g[n-1] = ^a, ^b, ^cc
		default:
			g[n-3], g[n-2], g[n-1] = a<<4|a>>4, b<<4|b>>4, cc<<4|cc>>4
		}
		if ref.IsFrame(g) {
			continue
		}
		in := append(append([]byte(nil), g...), f.Bytes...)
		k := streamCase{Input: hexs(in), Note: fmt.Sprintf("a frame whose CRC bytes are rearranged (variant %d), then the intact frame", i%7)}
		cj := c.BeginV(k)
		execC01Stream(c, k, cj)
		kd := streamCase{Input: hexs(g), Direct: true, Note: k.Note}
		cjd, _ := json.Marshal(kd)
		execC01Direct(c, kd, cjd)
		c.Count("frames_with_rearranged_crc_bytes", 1)
	}
	// a sender whose length field counts something else (the CRC, the leader, both, one
	// byte more or less): the CRC that is right sits some bytes before or behind the
	// place the leader points at.  Nothing of it is a frame, whatever follows.
	nShift := c.Share(c.Pick(3000, 60000))
	for i := 0; i < nShift; i++ {
		d := []int{-3, 3, -6, 6, -1, 1, -2, 2, -4, -5, 4, 5}[i%12]
		t := gen.PickType(r)
		decl := r.Range(7, 200) // the length the leader declares
		if decl+d < 2 {
			continue
		}
		body := gen.RandPayload(r, t, decl+d, 0)
		b := []byte{0xd3, byte(decl >> 8), byte(decl)}
		b = append(b, body...)
		crc := ref.CRC24Q(b)
		b = append(b, byte(crc>>16), byte(crc>>8), byte(crc))
		for len(b) < decl+6+r.Intn(8) { // make the declared frame complete, and a little more
			b = append(b, byte(r.Intn(256)))
		}
		if ref.IsFrame(b[:decl+6]) {
			continue
		}
		good := gen.RandFrame(r)
		k := streamCase{Input: hexs(append(append([]byte(nil), b...), good.Bytes...)), Note: fmt.Sprintf("leader declares %d bytes, the CRC that matches covers %d", decl, decl+d)}
		cj := c.BeginV(k)
		execC01Stream(c, k, cj)
		kd := streamCase{Input: hexs(b), Direct: true, Note: k.Note}
		cjd, _ := json.Marshal(kd)
		execC01Direct(c, kd, cjd)
		c.Count("frames_whose_matching_crc_is_misplaced", 1)
	}
	// single-frame decoding of a buffer in which the frame is NOT at the front: other
	// data first (a line end, a NUL, the tail of an earlier message), then a complete
	// valid frame, then sometimes more.  Whatever is returned typed and without an
	// error must be a frame and a prefix of the input - so nothing typed at all here.
	nLead := c.Share(c.Pick(3000, 60000))
	for i := 0; i < nLead; i++ {
		f := gen.RandFrame(r)
		for !gen.SafeMSMPayload(f.Type, len(f.Bytes)-6) || len(f.Bytes) > 300 {
			f = gen.RandFrame(r)
		}
		var lead []byte
		switch i % 6 {
		case 0:
			lead = []byte{'\n'}
		case 1:
			lead = []byte{'\r', '\n'}
		case 2:
			lead = make([]byte, r.Range(1, 8))
		case 3:
			lead = gen.NoD3(r.Bytes(r.Range(1, 12)))
		case 4: // the tail of an earlier frame, its own start byte somewhere inside
			g := gen.RandFrame(r).Bytes
			lead = append([]byte(nil), g[len(g)-r.Range(1, min2(len(g), 9)):]...)
			if lead[0] == 0xD3 {
				lead[0] = 0x53
			}
		default:
			lead = gen.NoD3(r.Bytes(r.Range(13, 1100)))
		}
		in := append(append([]byte(nil), lead...), f.Bytes...)
		switch r.Intn(3) {
		case 1:
			in = append(in, f.Bytes[:r.Range(1, len(f.Bytes))]...)
		case 2:
			in = append(in, r.Bytes(r.Range(1, 16))...)
		}
		k := streamCase{Input: hexs(in), Direct: true, Note: fmt.Sprintf("%d bytes of other data in front of a valid frame", len(lead))}
		if r.Chance(1, 3) {
			k.Spare = hexs(f.Bytes[len(f.Bytes)-min2(len(f.Bytes), 12):])
		}
		cj := c.BeginV(k)
		execC01Direct(c, k, cj)
		c.Count("direct_with_other_data_in_front", 1)
	}
	// very long runs without a start byte (text, zeros, another protocol), around the
	// sizes at which buffers are typically capped, between frames
	if c.Batch == 2 || c.Thorough() && c.Batch%8 == 2 {
		for _, jl := range []int{4096, 4097, 65535, 65536, 65537, 70000, 131073} {
			junk := gen.NoD3(r.Bytes(jl))
			if jl%2 == 0 {
				const sentence = "$GPGSA,A,3,04,05,,09,12,,,24,,,,,2.5,1.3,2.1*39\r\n"
				for j := range junk {
					junk[j] = sentence[j%len(sentence)]
				}
			}
			in := append(append(append([]byte(nil), gen.RandFrame(r).Bytes...), junk...), gen.RandFrame(r).Bytes...)
			k := streamCase{Input: hexs(in), Note: fmt.Sprintf("%d bytes without a start byte between two frames", jl)}
			cj := c.BeginV(k)
			execC01Stream(c, k, cj)
			c.Count("long_runs_without_a_start_byte", 1)
		}
	}
	// a consumer that falls dozens of messages behind (it is held up for a moment while
	// the source keeps sending frames with line ends between them)
	nBehind := c.Share(c.Pick(24, 480))
	for i := 0; i < nBehind; i++ {
		var in []byte
		for j := r.Range(60, 120); j > 0; j-- {
			f := gen.RandFrame(r)
			for len(f.Bytes) > 60 {
				f = gen.RandFrame(r)
			}
			in = append(in, f.Bytes...)
			if r.Chance(2, 3) {
				in = append(in, '\r', '\n')
			}
		}
		k := streamCase{Input: hexs(in), StallMs: 1, OnceStallMs: int64(r.Range(50, 150)), OnceAt: r.Range(0, 3), OutCap: []int{0, 1, 4}[r.Intn(3)], Note: "consumer held up for a moment early in a long stream"}
		cj := c.BeginV(k)
		msgs := runTimedX(in, nil, 0, k.OnceAt, time.Duration(k.OnceStallMs)*time.Millisecond, k.OutCap)
		for j := range msgs {
			if why := checkTyped(&msgs[j]); why != "" {
				c.Violate("typed-message-not-a-frame", "stream handler whose consumer fell behind: "+why, cj)
				break
			}
		}
		c.Count("streams_with_a_consumer_that_fell_behind", 1)
		c.Eval(ref.Hash64(cj), true)
	}
	// long sessions in which most frames are damaged: one handler, thousands of CRC
	// failures, and still nothing but valid frames is ever typed
	if c.Batch < 2 || c.Thorough() {
		var in []byte
		nd := 0
		for j := r.Range(1500, 3000); j > 0; j-- {
			var f gen.Seg
			for {
				f = gen.RandFrame(r)
				if len(f.Bytes) <= 40 {
					break
				}
			}
			b := append([]byte(nil), f.Bytes...)
			if !r.Chance(1, 8) {
				b[r.Range(3, len(b)-1)] ^= byte(1 << uint(r.Intn(8)))
				nd++
			}
			in = append(in, b...)
		}
		k := streamCase{Input: hexs(in), Note: fmt.Sprintf("one session with %d damaged frames", nd)}
		cj := c.BeginV(k)
		execC01Stream(c, k, cj)
		c.Count("damaged_frames_in_long_sessions", int64(nd))
	}
	// single-frame decoding on a handler that has processed a stream before - in
	// particular one that ended inside the leader, the body or the CRC of a frame of
	// the same size as the candidate
	nPrior := c.Share(c.Pick(1600, 40000))
	for i := 0; i < nPrior; i++ {
		f := gen.RandFrame(r)
		for !gen.SafeMSMPayload(f.Type, len(f.Bytes)-6) || len(f.Bytes) > 80 {
			f = gen.RandFrame(r)
		}
		var prior []byte
		if r.Chance(1, 2) {
			prior = append(prior, gen.RandFrame(r).Bytes...)
		}
		if r.Chance(1, 3) {
			prior = append(prior, gen.Junk(r).Bytes...)
		}
		switch r.Intn(4) {
		case 0:
			prior = append(prior, f.Bytes...) // the whole frame
		default:
			prior = append(prior, f.Bytes[:r.Range(1, len(f.Bytes)-1)]...) // cut off
		}
		other := gen.RandFrame(r)
		for tries := 0; tries < 50 && len(other.Bytes) != len(f.Bytes); tries++ {
			other = gen.RandFrame(r)
		}
		for kind := 0; kind < 12; kind++ {
			base := f.Bytes
			if kind%2 == 1 && len(other.Bytes) == len(f.Bytes) && gen.SafeMSMPayload(other.Type, len(other.Bytes)-6) {
				base = other.Bytes // same size, another type
			}
			b, note := candidateFrom(r, base, kind)
			k := streamCase{Input: hexs(b), Direct: true, Note: note + ", on a handler that processed a stream before", Prior: hexs(prior)}
			cj := c.BeginV(k)
			execC01Direct(c, k, cj)
		}
	}
	// the first bytes of a frame handed over as a slice whose spare capacity still holds
	// the rest of the frame (buf[:n] of a read buffer): every length 1..12 and a few more
	nSpare := c.Share(c.Pick(1600, 40000))
	for i := 0; i < nSpare; i++ {
		f := gen.RandFrame(r)
		for !gen.SafeMSMPayload(f.Type, len(f.Bytes)-6) || len(f.Bytes) > 300 {
			f = gen.RandFrame(r)
		}
		cuts := []int{1, 2, 3, 4, 5, 6, 7, 8, 9, 10, 11, 12, len(f.Bytes) - 4, len(f.Bytes) - 3, len(f.Bytes) - 1}
		for _, cut := range cuts {
			if cut < 1 || cut >= len(f.Bytes) {
				continue
			}
			k := streamCase{Input: hexs(f.Bytes[:cut]), Direct: true, Spare: hexs(f.Bytes[cut:]), Note: fmt.Sprintf("the first %d bytes of a %d-byte frame; the spare capacity of the slice holds the rest", cut, len(f.Bytes))}
			cj := c.BeginV(k)
			execC01Direct(c, k, cj)
		}
	}
	nDirect := c.Share(c.Pick(100000, 2000000))
	for i := 0; i < nDirect; i++ {
		b, note := directCandidate(r)
		k := streamCase{Input: hexs(b), Direct: true, Note: note}
		cj := c.BeginV(k)
		execC01Direct(c, k, cj)
		if i < 2 {
			c.Sample(k)
		}
	}
}

func segSummary(s gen.Stream) []string {
	var out []string
	for _, g := range s {
		h := hexs(g.Bytes)
		if len(h) > 48 {
			h = h[:24] + ".." + h[len(h)-24:]
		}
		out = append(out, fmt.Sprintf("%s type=%d len=%d %s", g.Kind, g.Type, len(g.Bytes), h))
	}
	return out
}

// ---------------------------------------------------------------------------
// C03 and C12 share the comparison of a delivered sequence with an expected one.

func compareSeq(msgs []handler.Message, exp []expSeg) string {
	n := len(msgs)
	if len(exp) < n {
		n = len(exp)
	}
	for i := 0; i < n; i++ {
		want := unhex(exp[i].Hex)
		if msgs[i].MessageType != exp[i].Type || !bytes.Equal(msgs[i].RawData, want) {
			return fmt.Sprintf("delivery %d differs: want (type %d, %d bytes %s) got (type %d, %d bytes %s); delivered:%s",
				i, exp[i].Type, len(want), clip(exp[i].Hex), msgs[i].MessageType, len(msgs[i].RawData), clip(hexs(msgs[i].RawData)), describeMsgs(msgs, 8))
		}
	}
	if len(msgs) != len(exp) {
		return fmt.Sprintf("%d messages delivered, %d segments expected; delivered:%s", len(msgs), len(exp), describeMsgs(msgs, 8))
	}
	return ""
}

func clip(h string) string {
	if len(h) > 64 {
		return h[:32] + ".." + h[len(h)-32:]
	}
	return h
}

func execExpect(c *child.Ctx, k streamCase, cj []byte, sig string) bool {
	msgs := runSequential(fixedStart, slog.LevelInfo, unhex(k.Input))
	if why := compareSeq(msgs, k.Expect); why != "" {
		c.Violate(sig, why, cj)
		return false
	}
	c.Count("messages_delivered_as_expected", int64(len(msgs)))
	return true
}

func monC03(c *child.Ctx, replay json.RawMessage) {
	if replay != nil {
		var k streamCase
		json.Unmarshal(replay, &k)
		c.Begin(replay)
		if len(k.SideBySide) > 0 {
			for i := 0; i < 100 && c.NViolations() == 0; i++ {
				k.HookSeed++
				execSideBySide(c, k, replay, "sequence-mismatch")
			}
			return
		}
		if k.InCap > 0 && len(k.PauseAt) > 0 && k.StallMs == 0 {
			for i := 0; i < 200 && c.NViolations() == 0; i++ {
				execLiveCase(c, k, replay, "sequence-mismatch")
			}
			return
		}
		if k.Second != "" && k.Fetch {
			execC03Abandoned(c, k, replay)
			return
		}
		if k.Second != "" {
			execC03Second(c, k, replay, nil)
			return
		}
		if k.StallMs > 0 {
			execTimedCase(c, k, replay, "sequence-mismatch")
			return
		}
		execExpect(c, k, replay, "sequence-mismatch")
		return
	}
	r := ref.NewRand(c.Seed*15485863 + uint64(c.Batch)*32452843 + 3)
	run := func(s gen.Stream, note string) {
		k := streamCase{Input: hexs(s.Bytes()), Expect: toExp(s.ExpectedClean()), Note: note}
		cj := c.BeginV(k)
		execExpect(c, k, cj, "sequence-mismatch")
		frames, junk, trunc := 0, 0, 0
		for _, g := range s {
			switch g.Kind {
			case "frame":
				frames++
			case "junk":
				junk++
			case "trunc":
				trunc++
			}
		}
		c.Count("frames_in_streams", int64(frames))
		c.Eval(ref.Hash64(s.Bytes()), frames >= 2 && (junk > 0 || trunc > 0))
		if c.WantSample() && frames >= 2 && trunc > 0 {
			c.Sample(map[string]interface{}{"segments": segSummary(s)})
		}
	}
	n := c.Share(c.Pick(20000, 400000))
	for i := 0; i < n; i++ {
		o := gen.CleanOpts{MinFrames: 1, MaxFrames: 7, TruncTail: true}
		if i%3 == 0 {
			o.ForceLen = gen.BoundaryLens[r.Intn(len(gen.BoundaryLens))]
		}
		run(gen.CleanStream(r, o), "")
	}
	// every payload length 1..1023 (thorough: 8 times each; quick: each once, split over batches)
	reps := c.Pick(1, 8)
	lens := 0
	for rep := 0; rep < reps; rep++ {
		for l := 1 + c.Batch; l <= 1023; l += c.NBatch {
			run(gen.CleanStream(r, gen.CleanOpts{MinFrames: 2, MaxFrames: 3, ForceLen: l, TruncTail: true}), fmt.Sprintf("forced payload length %d", l))
			lens++
		}
	}
	c.Count("payload_lengths_swept", int64(lens))
	// the same kind of stream with the consumer, then the producer, stalling
	stalls := timedStalls(c)
	if c.Batch < 2*len(stalls) {
		st := gen.Stream{gen.RandFrame(r), gen.Seg{Kind: "junk", Type: -1, Bytes: []byte("$GPGGA,123519,4807.038,N,01131.000,E*47\r\n")}, gen.RandFrame(r), gen.RandFrame(r), gen.Junk(r)}
		if c.Batch%2 == 1 {
			st = append(st, gen.Seg{Kind: "trunc", Type: -1, Bytes: gen.RandFrame(r).Bytes[:5]})
		}
		execTimed(c, st, st.ExpectedClean(), stalls[c.Batch/2], "sequence-mismatch")
	}
	if ob := c.NBatch - 1 - c.Batch; ob < len(onceStalls(c)) {
		st := gen.Stream{gen.RandFrame(r), gen.Junk(r), gen.RandFrame(r), gen.RandFrame(r), gen.RandFrame(r), gen.Junk(r)}
		// ... and dozens of messages pile up behind the consumer meanwhile
		for j := r.Range(40, 80); j > 0; j-- {
			f := gen.RandFrame(r)
			for len(f.Bytes) > 60 {
				f = gen.RandFrame(r)
			}
			st = append(st, f)
			if r.Chance(2, 3) {
				st = append(st, gen.Seg{Kind: "junk", Type: -1, Bytes: []byte("\r\n")})
			}
		}
		execHeldUpOnce(c, st, st.ExpectedClean(), onceStalls(c)[ob], r.Intn(3), []int{0, 1, 2}[r.Intn(3)], "sequence-mismatch")
		// and the source falls silent once, for as long, in the middle of a frame
		off := len(st[0].Bytes) + len(st[1].Bytes)
		k := streamCase{Input: hexs(st.Bytes()), Expect: toExp(st.ExpectedClean()), StallMs: onceStalls(c)[ob].Milliseconds(), PauseAt: []int{off + len(st[2].Bytes)/2},
			Note: fmt.Sprintf("the source falls silent for %v once, in the middle of a frame", onceStalls(c)[ob])}
		cj := c.BeginV(k)
		execTimedCase(c, k, cj, "sequence-mismatch")
		c.Eval(ref.Hash64(st.Bytes(), []byte(k.Note)), true)
	}
	// a truncated last frame whose payload holds start bytes followed by small values
	// (what a leader looks like), or a whole valid frame: cut at every position, it is
	// one piece of other data
	nemb := c.Share(c.Pick(80, 1600))
	for i := 0; i < nemb; i++ {
		inner := gen.RandFrame(r)
		for len(inner.Bytes) > 40 {
			inner = gen.RandFrame(r)
		}
		var pl []byte
		pl = append(pl, byte(r.Intn(64)), byte(r.Intn(256)))
		switch i % 3 {
		case 0:
			pl = append(pl, inner.Bytes...)
		case 1:
			pl = append(pl, 0xd3, byte(r.Intn(4)), byte(r.Intn(256)), 0xd3, 0x00, byte(1+r.Intn(20)))
		default:
			pl = append(pl, gen.NoD3(r.Bytes(r.Range(1, 20)))...)
			pl = append(pl, 0xd3, 0x00)
		}
		pl = append(pl, r.Bytes(r.Range(2, 30))...)
		last := ref.Frame(pl)
		base := gen.CleanStream(r, gen.CleanOpts{MinFrames: 1, MaxFrames: 3, SmallFrames: true})
		for cut := 1; cut < len(last); cut++ {
			t := append(gen.Stream(nil), base...)
			t = append(t, gen.Seg{Kind: "trunc", Type: -1, Bytes: last[:cut]})
			run(t, fmt.Sprintf("last frame (with start bytes inside its payload) truncated after %d of %d bytes", cut, len(last)))
		}
		c.Count("truncation_positions_swept", int64(len(last)-1))
	}
	// the same handler given a second stream after the first one ended (complete, cut
	// off inside a frame, or in other data)
	nsec := c.Share(c.Pick(2400, 48000))
	for i := 0; i < nsec && c.NViolations() == 0; i++ {
		s1 := gen.CleanStream(r, gen.CleanOpts{MinFrames: 1, MaxFrames: 4, TruncTail: i%2 == 0})
		s2 := gen.CleanStream(r, gen.CleanOpts{MinFrames: 1, MaxFrames: 4, TruncTail: true})
		k := streamCase{Input: hexs(s1.Bytes()), Second: hexs(s2.Bytes()), Expect: toExp(s2.ExpectedClean())}
		var cj []byte
		if i%64 == 0 {
			cj = c.BeginV(k)
		} else {
			cj, _ = json.Marshal(k)
		}
		execC03Second(c, k, cj, toExp(s1.ExpectedClean()))
		c.EvalN(1)
		if i%3 == 0 {
			// ... and with the first input given up part way, after every number of messages
			for ab := 0; ab <= len(s1.ExpectedClean()); ab++ {
				ka := k
				ka.Abandon, ka.Fetch = ab, true
				cja, _ := json.Marshal(ka)
				execC03Abandoned(c, ka, cja)
			}
		}
	}
	// a live source with a deep input queue: the bytes arrive in bursts that begin at
	// segment boundaries (after other data, before a frame) while the handler is idle
	nlive := c.Share(c.Pick(1600, 32000))
	for i := 0; i < nlive && c.NViolations() == 0; i++ {
		var st gen.Stream
		for len(st.Bytes()) < 2500 {
			st = append(st, gen.CleanStream(r, gen.CleanOpts{MinFrames: 2, MaxFrames: 6})...)
		}
		input := st.Bytes()
		k := streamCase{Input: hexs(input), Expect: toExp(st.ExpectedClean()), InCap: []int{1500, 2048, 4096, 8192}[r.Intn(4)], Note: "live source, deep input queue, bursts from segment boundaries"}
		off := 0
		for _, g := range st {
			if g.Kind == "frame" && off > 0 {
				k.PauseAt = append(k.PauseAt, off)
			}
			off += len(g.Bytes)
		}
		var cj []byte
		if i%32 == 0 {
			cj = c.BeginV(k)
		} else {
			cj, _ = json.Marshal(k)
		}
		execLiveCase(c, k, cj, "sequence-mismatch")
		c.EvalN(1)
	}
	// several handlers at the same time, each on its own stream
	nside := c.Share(c.Pick(400, 8000))
	for i := 0; i < nside; i++ {
		n := r.Range(2, 4)
		var streams [][]byte
		var sts []gen.Stream
		for j := 0; j < n; j++ {
			st := gen.CleanStream(r, gen.CleanOpts{MinFrames: 2, MaxFrames: 6, TruncTail: true})
			if len(st.Bytes()) > 3000 {
				st = gen.CleanStream(r, gen.CleanOpts{MinFrames: 2, MaxFrames: 4, SmallFrames: true})
			}
			sts = append(sts, st)
			streams = append(streams, st.Bytes())
		}
		k := streamCase{HookSeed: r.Uint64() >> 1}
		for _, b := range streams {
			k.SideBySide = append(k.SideBySide, hexs(b))
		}
		cj := c.BeginV(k)
		got := execSideBySide(c, k, cj, "sequence-mismatch")
		for j := range got {
			if why := compareSeq(got[j], toExp(sts[j].ExpectedClean())); why != "" && c.NViolations() == 0 {
				c.Violate("sequence-mismatch", fmt.Sprintf("stream %d of %d handled at the same time by separate handlers: %s", j+1, n, why), cj)
				break
			}
		}
		c.Eval(ref.Hash64(cj), true)
	}
	// long sessions: hundreds of junk-then-frame transitions in one stream
	nLong := c.Pick(2, 6)
	if c.Batch < 4 || c.Thorough() {
		for i := 0; i < nLong; i++ {
			var s gen.Stream
			pairs := r.Range(70, 400)
			for j := 0; j < pairs; j++ {
				if !r.Chance(1, 10) {
					s = append(s, gen.Seg{Kind: "junk", Type: -1, Bytes: []byte("$GPGGA,1,2*00\r\n")[:r.Range(1, 15)]})
				}
				var f gen.Seg
				for {
					f = gen.RandFrame(r)
					if len(f.Bytes) <= 60 {
						break
					}
				}
				s = append(s, f)
			}
			run(s, fmt.Sprintf("long session with %d junk/frame pairs", pairs))
			c.Count("long_sessions", 1)
		}
	}
	// sessions of more than a thousand (thorough: ten thousand) messages through an
	// UNBUFFERED input channel, as the file handler and the proxy feed the handler:
	// whatever is counted, logged or checked once in a thousand messages happens here
	if c.Batch >= 4 && c.Batch < 6 || c.Thorough() && c.Batch%8 == 5 {
		var s gen.Stream
		msgs := r.Range(1001, 2600)
		if c.Thorough() {
			msgs = r.Range(10001, 12000)
		}
		for j := 0; len(s) < msgs; j++ { // junk is always followed by a frame: one message per segment
			if r.Chance(1, 2) {
				s = append(s, gen.Seg{Kind: "junk", Type: -1, Bytes: []byte("$GPGGA,1,2*00\r\n")[:r.Range(1, 15)]})
			}
			var f gen.Seg
			for {
				f = gen.RandFrame(r)
				if len(f.Bytes) <= 40 {
					break
				}
			}
			s = append(s, f)
			if j%64 == 0 {
				tick()
			}
		}
		k := streamCase{Input: hexs(s.Bytes()), Expect: toExp(s.ExpectedClean()), Note: fmt.Sprintf("session of %d messages through an unbuffered input channel", len(s.ExpectedClean()))}
		cj := c.BeginV(k)
		got := runTimedX(s.Bytes(), nil, 0, -1, 0, []int{0, 16}[r.Intn(2)])
		if why := compareSeq(got, k.Expect); why != "" {
			c.Violate("sequence-mismatch", k.Note+": "+why, cj)
		}
		c.Count("sessions_of_more_than_a_thousand_messages_unbuffered", 1)
		c.Eval(ref.Hash64(cj), true)
	}
	// junk "of any length": runs around the sizes where buffers are typically capped
	if c.Batch == 0 || c.Thorough() {
		for _, jl := range []int{4095, 4096, 4097, 32768, 65535, 65536, 65537, 65539, 70000, 131073, 300000} {
			f1, f2 := gen.RandFrame(r), gen.RandFrame(r)
			j := gen.Seg{Kind: "junk", Type: -1, Bytes: gen.NoD3(r.Bytes(jl))}
			run(gen.Stream{f1, j, f2, gen.Junk(r)}, fmt.Sprintf("junk run of %d bytes", jl))
			c.Count("long_junk_runs", 1)
		}
	}
	// the last frame truncated at EVERY byte position
	m := c.Share(c.Pick(160, 3000))
	for i := 0; i < m; i++ {
		s := gen.CleanStream(r, gen.CleanOpts{MinFrames: 2, MaxFrames: 3, SmallFrames: i%2 == 0})
		var last gen.Seg
		for {
			last = gen.RandFrame(r)
			if len(last.Bytes) <= 120 {
				break
			}
		}
		for cut := 1; cut < len(last.Bytes); cut++ {
			t := append(gen.Stream(nil), s...)
			t = append(t, gen.Seg{Kind: "trunc", Type: -1, Bytes: last.Bytes[:cut]})
			run(t, fmt.Sprintf("last frame truncated after %d of %d bytes", cut, len(last.Bytes)))
		}
		c.Count("truncation_positions_swept", int64(len(last.Bytes)-1))
	}
}

// ---------------------------------------------------------------------------
// C12: fault enumeration - corrupt one victim frame's payload/CRC.

// execC12 checks the by-construction sequence and, for streams of MSM frames whose
// timestamps only increase within one week (so that the times reported for a
// message do not legitimately depend on whether an earlier one was accepted),
// relationally that every message other than the victim is delivered exactly as in
// the run without the corruption - including the time fields the handler derives
// from its own state.  For arbitrary payloads that comparison would be stricter
// than the property: there a discarded frame's timestamp may have been the one that
// signalled a week rollover.
func execC12(c *child.Ctx, k streamCase, cj []byte, cleanMsgs []handler.Message) {
	msgs := runSequential(fixedStart, slog.LevelInfo, unhex(k.Input))
	if why := compareSeq(msgs, k.Expect); why != "" {
		c.Violate("corruption-not-contained", why, cj)
		return
	}
	c.Count("messages_delivered_as_expected", int64(len(msgs)))
	if k.Clean == "" {
		return
	}
	if cleanMsgs == nil {
		cleanMsgs = runSequential(fixedStart, slog.LevelInfo, unhex(k.Clean))
	}
	if len(cleanMsgs) != len(msgs) {
		return // cannot happen when the by-construction check passed
	}
	for i := range msgs {
		if i == k.Victim {
			continue
		}
		a, b := &msgs[i], &cleanMsgs[i]
		if a.Timestamp != b.Timestamp || a.SentAt != b.SentAt || a.StartOfWeek != b.StartOfWeek || a.ErrorMessage != b.ErrorMessage {
			c.Violate("corruption-disturbs-neighbour", fmt.Sprintf("delivery %d (type %d) is reported differently because delivery %d was corrupted: SentAt %q vs %q, StartOfWeek %q vs %q, error %q vs %q",
				i, a.MessageType, k.Victim, a.SentAt, b.SentAt, a.StartOfWeek, b.StartOfWeek, a.ErrorMessage, b.ErrorMessage), cj)
			return
		}
		if a.MessageType >= 0 && a.SentAt != "" {
			c.Count("neighbour_time_fields_compared", 1)
		}
	}
}

func monC12(c *child.Ctx, replay json.RawMessage) {
	if replay != nil {
		var k streamCase
		json.Unmarshal(replay, &k)
		c.Begin(replay)
		if len(k.SideBySide) > 0 {
			for i := 0; i < 100 && c.NViolations() == 0; i++ {
				k.HookSeed++
				execSideBySide(c, k, replay, "corruption-disturbs-neighbour")
			}
			return
		}
		if k.Direct {
			h := handler.New(fixedStart, slog.LevelInfo)
			if m, err := h.GetMessage(unhex(k.Input)); m != nil && m.MessageType >= 0 && err == nil && !ref.IsFrame(unhex(k.Input)) {
				c.Violate("corruption-not-contained", fmt.Sprintf("a damaged frame is accepted by single-frame decoding as a valid type %d message", m.MessageType), replay)
			}
			return
		}
		if k.StallMs > 0 {
			execTimedCase(c, k, replay, "corruption-not-contained")
			return
		}
		execC12(c, k, replay, nil)
		return
	}
	r := ref.NewRand(c.Seed*49979687 + uint64(c.Batch)*67867967 + 12)
	skippedValid := 0
	var cleanOf gen.Stream
	var cleanMsgs []handler.Message
	var cleanHex string
	relational := false // set for streams whose reported times do not depend on any single message being accepted
	runFault := func(s gen.Stream, victim int, corrupted []byte, note string) {
		if len(cleanOf) != len(s) || (len(s) > 0 && &cleanOf[0] != &s[0]) {
			cleanOf = s
			cleanHex = hexs(s.Bytes())
			cleanMsgs = runSequential(fixedStart, slog.LevelInfo, s.Bytes())
		}
		if ref.IsFrame(corrupted) {
			skippedValid++ // the corruption happened to keep the CRC valid: outside the precondition
			return
		}
		t := append(gen.Stream(nil), s...)
		t[victim] = gen.Seg{Kind: "corrupt", Type: -1, Bytes: corrupted}
		// expected: the victim alone becomes one non-RTCM message; everything else as before.
		var exp []gen.Expected
		for i, g := range t {
			switch {
			case i == victim:
				exp = append(exp, gen.Expected{Type: -1, Bytes: g.Bytes})
			case g.Kind == "frame":
				exp = append(exp, gen.Expected{Type: g.Type, Bytes: g.Bytes})
			default:
				// junk merges only with a directly preceding junk run (not with the victim)
				if g.Kind == "junk" && i > 0 && i-1 != victim && len(exp) > 0 && exp[len(exp)-1].Type == -1 && t[i-1].Kind == "junk" {
					exp[len(exp)-1].Bytes = append(append([]byte(nil), exp[len(exp)-1].Bytes...), g.Bytes...)
				} else {
					exp = append(exp, gen.Expected{Type: -1, Bytes: g.Bytes})
				}
			}
		}
		vd := 0
		for i := range exp {
			if exp[i].Type == -1 && len(exp[i].Bytes) == len(corrupted) && &exp[i].Bytes[0] == &t[victim].Bytes[0] {
				vd = i
			}
		}
		k := streamCase{Input: hexs(t.Bytes()), Expect: toExp(exp), Note: note, Victim: vd}
		if relational {
			k.Clean = cleanHex
		}
		cj := c.BeginV(k)
		execC12(c, k, cj, cleanMsgs)
		hasSucc := false
		for j := victim + 1; j < len(t); j++ {
			if t[j].Kind == "frame" {
				hasSucc = true
			}
		}
		c.Eval(ref.Hash64(t.Bytes(), []byte{byte(victim)}), hasSucc)
		if c.WantSample() && hasSucc {
			c.Sample(map[string]interface{}{"fault": note, "victim_index": victim, "segments": segSummary(t)})
		}
	}
	nStreams := c.Share(c.Pick(160, 4800))
	for i := 0; i < nStreams; i++ {
		s := gen.CleanStream(r, gen.CleanOpts{MinFrames: 2, MaxFrames: 5, SmallFrames: true, SafeMSM: false})
		var victims []int
		for j, g := range s {
			if g.Kind == "frame" {
				victims = append(victims, j)
			}
		}
		for _, v := range victims {
			f := s[v].Bytes
			// exhaustive single-bit flips over payload and CRC (leader untouched)
			for bit := 24; bit < len(f)*8; bit++ {
				g := append([]byte(nil), f...)
				g[bit/8] ^= 1 << uint(7-bit%8)
				runFault(s, v, g, fmt.Sprintf("flip bit %d", bit))
			}
			c.Count("single_bit_flips", int64(len(f)*8-24))
			// every byte overwritten by 0xD3, 0x00 and 0xFF
			for p := 3; p < len(f); p++ {
				for _, val := range []byte{0xD3, 0x00, 0xFF} {
					if f[p] == val {
						continue
					}
					g := append([]byte(nil), f...)
					g[p] = val
					runFault(s, v, g, fmt.Sprintf("byte %d := %#x", p, val))
					c.Count("byte_overwrites", 1)
				}
			}
			// whole fields wiped: the three CRC bytes, the last two, the whole payload, the
			// payload and the CRC, everything behind some point - all zeros, all ones, all
			// 0xD3, a text (a line that went dead, a buffer that was never filled)
			for _, from := range []int{len(f) - 3, len(f) - 2, 3, 3 + (len(f)-6)/2, len(f) - 4} {
				for _, to := range []int{len(f), len(f) - 3} {
					if from < 3 || from >= to {
						continue
					}
					for _, val := range []byte{0x00, 0xFF, 0xD3, 'U'} {
						g := append([]byte(nil), f...)
						for p := from; p < to; p++ {
							g[p] = val
						}
						if bytes.Equal(g, f) || ref.CRC24Q(g[:len(g)-3]) == uint32(g[len(g)-3])<<16|uint32(g[len(g)-2])<<8|uint32(g[len(g)-1]) {
							continue
						}
						runFault(s, v, g, fmt.Sprintf("bytes %d..%d := %#x", from, to-1, val))
						c.Count("fields_wiped", 1)
					}
				}
			}
			// the CRC bytes rearranged or complemented
			for variant := 0; variant < 4; variant++ {
				g := append([]byte(nil), f...)
				n := len(g)
				a, b, cc := g[n-3], g[n-2], g[n-1]
				switch variant {
				case 0:
					g[n-3], g[n-2], g[n-1] = cc, b, a
				case 1:
					g[n-3], g[n-2], g[n-1] = b, cc, a
				case 2:
					g[n-3], g[n-2], g[n-1] = ^a, ^b, ^cc
				default:
					g[n-3], g[n-2], g[n-1] = b, a, cc
				}
				if bytes.Equal(g, f) || ref.IsFrame(g) {
					continue
				}
				runFault(s, v, g, fmt.Sprintf("CRC bytes rearranged (variant %d)", variant))
				c.Count("crc_bytes_rearranged", 1)
			}
			// random multi-bit sets, bursts, CRC-only, payload-only
			for k := 0; k < 24; k++ {
				g := append([]byte(nil), f...)
				note := ""
				switch k % 4 {
				case 0:
					nb := r.Range(2, 12)
					for x := 0; x < nb; x++ {
						bit := r.Range(24, len(f)*8-1)
						g[bit/8] ^= 1 << uint(7-bit%8)
					}
					note = "random multi-bit"
				case 1:
					startBit := r.Range(24, len(f)*8-2)
					ln := r.Range(2, 32)
					for bit := startBit; bit < startBit+ln && bit < len(f)*8; bit++ {
						if r.Chance(1, 2) || bit == startBit {
							g[bit/8] ^= 1 << uint(7-bit%8)
						}
					}
					note = "burst"
				case 2:
					g[len(g)-1-r.Intn(3)] ^= byte(1 + r.Intn(255))
					note = "CRC bytes only"
				default:
					g[r.Range(3, len(g)-4)] ^= byte(1 + r.Intn(255))
					note = "payload only"
				}
				if bytes.Equal(g, f) {
					continue
				}
				runFault(s, v, g, note)
				c.Count("random_faults", 1)
			}
		}
	}
	// streams of small well-formed MSM frames of the timed constellations with
	// increasing legal timestamps: a corrupted victim (e.g. a flipped timestamp bit)
	// must not change what is reported for its neighbours
	nTimed := c.Share(c.Pick(48, 1200))
	relational = true
	for i := 0; i < nTimed; i++ {
		var s gen.Stream
		ts := map[string]uint{}
		nf := r.Range(3, 5)
		for f := 0; f < nf; f++ {
			cons := ref.TimedConstellations[r.Intn(2+r.Intn(3))]
			tp := ref.TypesOf(cons)[r.Intn(2)]
			cur := ts[cons]
			if cur == 0 {
				cur = uint(r.Range(1000, 300000000))
			} else {
				cur += uint(r.Range(1, 5000))
			}
			if cons == "Glonass" {
				cur = cur % 86400000
				if cur == 0 {
					cur = 1000
				}
				ts[cons] = cur
				cur |= 2 << 27
			} else {
				ts[cons] = cur
			}
			fb := timeFrame(r, tp, cur)
			s = append(s, gen.Seg{Kind: "frame", Type: tp, Bytes: fb})
			if r.Chance(1, 3) {
				s = append(s, gen.Junk(r))
			}
		}
		for v, g := range s {
			if g.Kind != "frame" {
				continue
			}
			f := g.Bytes
			for bit := 24; bit < len(f)*8; bit++ {
				if bit >= 24+100 && bit%3 != 0 {
					continue // every bit of type/station/timestamp/flags, every third bit of the rest
				}
				gg := append([]byte(nil), f...)
				gg[bit/8] ^= 1 << uint(7-bit%8)
				runFault(s, v, gg, fmt.Sprintf("MSM stream, flip bit %d", bit))
				c.Count("single_bit_flips", 1)
			}
		}
	}
	// a week (GLONASS: day) rollover between the neighbours of the victim: the victim is
	// a frame that can have no legitimate influence on the times reported for the others
	// - not an MSM, or the only frame of its constellation in the stream
	nRoll := c.Share(c.Pick(48, 1200))
	for i := 0; i < nRoll; i++ {
		cons := ref.TimedConstellations[i%len(ref.TimedConstellations)]
		tp := ref.TypesOf(cons)[r.Intn(2)]
		before := uint(604800000 - r.Range(1, 30000))
		after := uint(r.Range(0, 30000))
		later := after + uint(r.Range(1, 5000))
		if cons == "Glonass" {
			day := uint(r.Intn(7))
			before = day<<27 | uint(86400000-r.Range(1, 30000))
			after = ((day+1)%7)<<27 | after
			later = ((day+1)%7)<<27 | later
		}
		var victim gen.Seg
		if r.Chance(1, 2) {
			for {
				victim = gen.RandFrame(r)
				if !ref.IsMSM4(victim.Type) && !ref.IsMSM7(victim.Type) && len(victim.Bytes) <= 40 {
					break
				}
			}
		} else {
			other := ref.TimedConstellations[(i+1+r.Intn(3))%len(ref.TimedConstellations)]
			otp := ref.TypesOf(other)[r.Intn(2)]
			ots := uint(r.Range(1000, 80000000))
			if other == "Glonass" {
				ots |= uint(r.Intn(7)) << 27
			}
			victim = gen.Seg{Kind: "frame", Type: otp, Bytes: timeFrame(r, otp, ots)}
		}
		s := gen.Stream{gen.Seg{Kind: "frame", Type: tp, Bytes: timeFrame(r, tp, before)}}
		if r.Chance(1, 3) {
			s = append(s, gen.Junk(r))
		}
		s = append(s, victim)
		v := len(s) - 1
		s = append(s, gen.Seg{Kind: "frame", Type: tp, Bytes: timeFrame(r, tp, after)}, gen.Seg{Kind: "frame", Type: tp, Bytes: timeFrame(r, tp, later)})
		f := victim.Bytes
		for bit := 24; bit < len(f)*8; bit++ {
			if bit >= 24+100 && bit%5 != 0 {
				continue
			}
			gg := append([]byte(nil), f...)
			gg[bit/8] ^= 1 << uint(7-bit%8)
			runFault(s, v, gg, fmt.Sprintf("%s rollover between the victim's neighbours, flip bit %d", cons, bit))
			c.Count("rollover_neighbour_faults", 1)
		}
	}
	relational = false
	// what a serial line in "cooked" mode does to binary data: carriage returns turned
	// into line feeds (or the other way round), the top bit stripped, XON/XOFF replaced -
	// a victim that contains such bytes, with some or all of them rewritten
	nLine := c.Share(c.Pick(240, 4800))
	for i := 0; i < nLine; i++ {
		from, to := []byte{0x0d, 0x0a, 0x11, 0x13, 0x7f}[i%5], []byte{0x0a, 0x0d, 0x00, 0x00, 0xff}[i%5]
		t := gen.PickType(r)
		pl := gen.RandPayload(r, t, r.Range(12, 80), 0)
		for j := 3; j < len(pl); j++ {
			if pl[j] == to || pl[j] == 0xd3 {
				pl[j] ^= 0x44
			}
		}
		nmark := r.Range(1, 5)
		for j := 0; j < nmark; j++ {
			pl[r.Range(3, len(pl)-1)] = from
		}
		fb := ref.Frame(pl)
		vf := gen.Seg{Kind: "frame", Type: ref.TypeOf(fb), Bytes: fb}
		s := gen.Stream{gen.RandFrame(r), vf}
		if i%2 == 0 {
			s = append(s, gen.Junk(r))
		}
		s = append(s, gen.RandFrame(r))
		// all of them rewritten, and each subset of up to the first three
		var at []int
		for j := 3; j < len(fb)-3; j++ {
			if fb[j] == from {
				at = append(at, j)
			}
		}
		for mask := 1; mask < 1<<uint(len(at)) && mask < 16; mask++ {
			gg := append([]byte(nil), fb...)
			for b, pos := range at {
				if mask>>uint(b)&1 == 1 || mask == 15 {
					gg[pos] = to
				}
			}
			if bytes.Equal(gg, fb) || ref.IsFrame(gg) {
				continue
			}
			runFault(s, 1, gg, fmt.Sprintf("bytes %#02x of the victim rewritten to %#02x (subset %d of %d places)", from, to, mask, len(at)))
			c.Count("line_discipline_faults", 1)
		}
	}
	// a frame sent twice, the second copy damaged - in its CRC bytes only, in one payload
	// bit only: the first copy being fine says nothing about the second
	nTwice := c.Share(c.Pick(240, 4800))
	for i := 0; i < nTwice; i++ {
		var vf gen.Seg
		for {
			vf = gen.RandFrame(r)
			if len(vf.Bytes) >= 9 && len(vf.Bytes) <= 120 {
				break
			}
		}
		s := gen.Stream{vf, vf, gen.RandFrame(r)}
		if i%3 == 0 {
			s = gen.Stream{vf, gen.Junk(r), vf}
		}
		fb := vf.Bytes
		for variant := 0; variant < 5; variant++ {
			gg := append([]byte(nil), fb...)
			n := len(gg)
			switch variant {
			case 0:
				gg[n-1] ^= 1 << uint(r.Intn(8))
			case 1:
				gg[n-2] ^= byte(1 + r.Intn(255))
			case 2:
				gg[n-3], gg[n-2], gg[n-1] = byte(r.Intn(256)), byte(r.Intn(256)), byte(r.Intn(256))
			case 3:
				gg[n-3], gg[n-1] = gg[n-1], gg[n-3]
			default:
				gg[r.Range(5, n-4)] ^= 1 << uint(r.Intn(8))
			}
			if bytes.Equal(gg, fb) || ref.IsFrame(gg) {
				continue
			}
			victimAt := 1
			if i%3 == 0 {
				victimAt = 2
			}
			runFault(s, victimAt, gg, fmt.Sprintf("second copy of a frame that was sent twice, damaged (variant %d)", variant))
			c.Count("faults_in_the_second_copy_of_a_repeated_frame", 1)
		}
	}
	// damage in the victim's type field (its message number becomes one that nobody has
	// allocated, or zero, or 4095) AND a source that falls silent for half a second or a
	// second in the middle of the victim
	nTyped := c.Share(c.Pick(48, 960))
	for i := 0; i < nTyped; i++ {
		var vf gen.Seg
		for {
			vf = gen.RandFrame(r)
			if len(vf.Bytes) >= 14 && len(vf.Bytes) <= 90 {
				break
			}
		}
		gg := append([]byte(nil), vf.Bytes...)
		nt := []int{0, 1, 500, 1300, 2000, 3000, 4000, 4095, 777, 1999}[i%10]
		gg[3], gg[4] = byte(nt>>4), byte(nt<<4)|gg[4]&0x0f
		hasD3 := false
		for _, b := range gg[1:] {
			hasD3 = hasD3 || b == 0xd3
		}
		if ref.IsFrame(gg) || hasD3 || bytes.Equal(gg, vf.Bytes) {
			continue
		}
		pre, post := gen.RandFrame(r), gen.RandFrame(r)
		st := gen.Stream{pre, gen.Seg{Kind: "corrupt", Type: -1, Bytes: gg}, post}
		exp := []gen.Expected{{Type: pre.Type, Bytes: pre.Bytes}, {Type: -1, Bytes: gg}, {Type: post.Type, Bytes: post.Bytes}}
		stall := []time.Duration{450 * time.Millisecond, 900 * time.Millisecond, 250 * time.Millisecond}[i%3]
		at := len(pre.Bytes) + r.Range(6, len(gg)-2)
		k := streamCase{Input: hexs(st.Bytes()), Expect: toExp(exp), StallMs: stall.Milliseconds(), PauseAt: []int{at}, Note: fmt.Sprintf("victim's type field rewritten to %d, source silent for %v inside the victim", nt, stall)}
		cj := c.BeginV(k)
		msgs := runTimed(st.Bytes(), map[int]time.Duration{at: stall}, 0)
		if why := compareSeq(msgs, k.Expect); why != "" {
			c.Violate("corruption-not-contained", k.Note+": "+why, cj)
		}
		c.Count("victims_with_a_damaged_type_field_and_a_silent_source", 1)
		c.Eval(ref.Hash64(cj), true)
	}
	// the whole input already waiting in a deep input queue and a consumer that comes for
	// each message 30-60 ms late (back-pressure from both sides): a damaged frame next to
	// other data is still delivered on its own, the other data on its own
	nBack := c.Share(c.Pick(64, 1280))
	for i := 0; i < nBack; i++ {
		var vf gen.Seg
		for {
			vf = gen.RandFrame(r)
			if len(vf.Bytes) >= 9 && len(vf.Bytes) <= 80 {
				break
			}
		}
		gg := append([]byte(nil), vf.Bytes...)
		gg[r.Range(5, len(gg)-1)] ^= 1 << uint(r.Intn(8))
		hasD3 := false
		for _, b := range gg[1:] {
			if b == 0xd3 {
				hasD3 = true
			}
		}
		if ref.IsFrame(gg) || hasD3 {
			continue
		}
		junk := gen.Seg{Kind: "junk", Type: -1, Bytes: gen.NoD3(r.Bytes(r.Range(3, 40)))}
		victim := gen.Seg{Kind: "corrupt", Type: -1, Bytes: gg}
		var st gen.Stream
		switch i % 3 {
		case 0:
			st = gen.Stream{gen.RandFrame(r), victim, junk, gen.RandFrame(r)}
		case 1:
			st = gen.Stream{gen.RandFrame(r), junk, victim, gen.RandFrame(r)}
		default:
			st = gen.Stream{junk, victim, junk, gen.RandFrame(r), victim, junk}
		}
		var exp []gen.Expected
		for _, g := range st {
			tp := -1
			if g.Kind == "frame" {
				tp = g.Type
			}
			exp = append(exp, gen.Expected{Type: tp, Bytes: g.Bytes})
		}
		stall := time.Duration(r.Range(30, 60)) * time.Millisecond
		k := streamCase{Input: hexs(st.Bytes()), Expect: toExp(exp), StallMs: stall.Milliseconds(), Note: "input already queued, consumer late for every message"}
		cj := c.BeginV(k)
		input := st.Bytes()
		in := make(chan byte, len(input)+1)
		for _, b := range input {
			in <- b
		}
		close(in)
		out := make(chan handler.Message)
		h := handler.New(fixedStart, slog.LevelInfo)
		go h.HandleMessages(in, out)
		var msgs []handler.Message
		done := make(chan struct{})
		go func() {
			for {
				sleepTicking(stall)
				m, ok := <-out
				if !ok {
					break
				}
				msgs = append(msgs, m)
				endless(len(msgs), len(input), "stream handler with a late consumer")
				tick()
			}
			close(done)
		}()
		waitOrHangGone(done, caseWatchdog, "stream handler with its input queued and a late consumer did not finish")
		if why := compareSeq(msgs, k.Expect); why != "" {
			c.Violate("corruption-not-contained", k.Note+": "+why, cj)
		}
		c.Count("damaged_frames_next_to_other_data_under_back_pressure", 1)
		c.Eval(ref.Hash64(cj), true)
	}
	// the shortest frames (a message of 1, 2 or 3 bytes) as victims, followed by other
	// data, by a frame, or by the end of the input; and runs of bytes set to 0xFF / 0x00
	// from the start of the payload (a type field of all ones or all zeros)
	nShort := c.Share(c.Pick(160, 3200))
	for i := 0; i < nShort; i++ {
		var vf gen.Seg
		if i%2 == 0 {
			ln := 1 + i/2%3
			t := gen.PickType(r)
			if ln == 1 {
				t &^= 0x0F
			}
			fb := ref.Frame(gen.RandPayload(r, t, ln, r.Intn(3)))
			vf = gen.Seg{Kind: "frame", Type: ref.TypeOf(fb), Bytes: fb}
		} else {
			for {
				vf = gen.RandFrame(r)
				if len(vf.Bytes) >= 9 && len(vf.Bytes) <= 60 {
					break
				}
			}
		}
		s := gen.Stream{gen.RandFrame(r), vf}
		switch i % 3 {
		case 0:
			s = append(s, gen.Junk(r), gen.RandFrame(r))
		case 1:
			s = append(s, gen.RandFrame(r))
		}
		f := vf.Bytes
		for bit := 24; bit < len(f)*8; bit++ {
			gg := append([]byte(nil), f...)
			gg[bit/8] ^= 1 << uint(7-bit%8)
			runFault(s, 1, gg, fmt.Sprintf("short or small victim, flip bit %d", bit))
		}
		for _, val := range []byte{0xFF, 0x00} {
			for n := 1; n <= 3 && 3+n <= len(f)-3; n++ {
				gg := append([]byte(nil), f...)
				for j := 0; j < n; j++ {
					gg[3+j] = val
				}
				if !bytes.Equal(gg, f) {
					runFault(s, 1, gg, fmt.Sprintf("first %d payload bytes := %#x", n, val))
				}
			}
		}
		c.Count("short_victim_streams", 1)
	}
	// a victim in the middle of a long run of frames that are intact but come with an
	// error text (MSMs of constellations without a time scale in the handler, illegal
	// timestamps): however many of those precede it, it is delivered, alone, and so is
	// everything after it
	nrun := c.Share(c.Pick(160, 3200))
	for i := 0; i < nrun; i++ {
		var s gen.Stream
		n := r.Range(9, 24)
		for j := 0; j < n; j++ {
			tp := []int{1104, 1107, 1114, 1117, 1134, 1137}[r.Intn(6)]
			var fb []byte
			if r.Chance(1, 3) {
				m := gen.RandMSM(r, gen.MSMOpts{Type: []int{1074, 1087, 1097, 1124}[r.Intn(4)]})
				m.FixIllegalTime(r)
				if p := ref.EncodeMSM(m); len(p) <= 200 {
					fb = ref.Frame(p)
					tp = m.Type
				}
			}
			if fb == nil {
				fb = timeFrame(r, tp, uint(r.Range(1, 80000000)))
			}
			s = append(s, gen.Seg{Kind: "frame", Type: tp, Bytes: fb})
		}
		s = append(s, gen.Junk(r), gen.RandFrame(r))
		v := r.Range(7, n-1)
		f := s[v].Bytes
		for x := 0; x < 12; x++ {
			gg := append([]byte(nil), f...)
			bit := r.Range(24, len(f)*8-1)
			gg[bit/8] ^= 1 << uint(7-bit%8)
			runFault(s, v, gg, fmt.Sprintf("victim after %d intact frames that carry an error text, flip bit %d", v, bit))
		}
		c.Count("victims_in_runs_of_frames_with_error_text", 1)
	}
	// damage that spells words of other protocols into the victim (a caster's banner, a
	// request line, an NMEA talker): they are just bytes of a damaged frame
	relational = true
	nword := c.Share(c.Pick(48, 960))
	for i := 0; i < nword; i++ {
		var s gen.Stream
		ts := uint(r.Range(1000, 300000000))
		cons := []string{"GPS", "Galileo", "Beidou"}[r.Intn(3)]
		for f := 0; f < 4; f++ {
			ts += uint(r.Range(1, 5000))
			tp := ref.TypesOf(cons)[r.Intn(2)]
			pl := ref.EncodeMSM(func() *ref.MSM {
				m := gen.RandMSM(r, gen.MSMOpts{Type: tp, FixTimestamp: true, Timestamp: ts})
				m.PadBytes = 24 // room for the words
				return m
			}())
			if len(pl) > 300 {
				continue
			}
			s = append(s, gen.Seg{Kind: "frame", Type: tp, Bytes: ref.Frame(pl)})
		}
		if len(s) < 3 {
			continue
		}
		for _, word := range []string{"NTRIP", "ntrip", "ICY 200 OK", "SOURCETABLE", "GET / HTTP/1.1", "HTTP/1.1 200", "$GPGGA,", "\r\n\r\n", "ERROR", "EOF"} {
			v := 1 + r.Intn(len(s)-2)
			f := s[v].Bytes
			if len(f) < len(word)+16 {
				continue
			}
			gg := append([]byte(nil), f...)
			copy(gg[len(gg)-3-len(word)-r.Intn(4):], word)
			if !bytes.Equal(gg, f) {
				runFault(s, v, gg, fmt.Sprintf("victim overwritten with %q", word))
				c.Count("victims_overwritten_with_protocol_words", 1)
			}
		}
	}
	relational = false
	// the three CRC bytes: every other value of each pair of them (2 x 65 535 per victim),
	// through single-frame decoding - a weakened comparison accepts some of them
	if c.Batch < 3 || c.Thorough() {
		var vf gen.Seg
		for {
			vf = gen.RandFrame(r)
			if len(vf.Bytes) >= 9 && len(vf.Bytes) <= 40 && (c.Batch%3 != 0 || vf.Bytes[len(vf.Bytes)-3] < 0x10 || vf.Bytes[len(vf.Bytes)-2] < 0x10 || vf.Bytes[len(vf.Bytes)-1] < 0x10) {
				break
			}
		}
		n := len(vf.Bytes)
		h := handler.New(fixedStart, slog.LevelInfo)
		g := append([]byte(nil), vf.Bytes...)
		for pair := 0; pair < 2 && c.NViolations() == 0; pair++ {
			for v := 0; v < 65536 && c.NViolations() == 0; v++ {
				copy(g, vf.Bytes)
				g[n-3+pair], g[n-2+pair] = byte(v>>8), byte(v)
				if bytes.Equal(g, vf.Bytes) {
					continue
				}
				var m *handler.Message
				var err error
				func() {
					defer func() { recover() }()
					m, err = h.GetMessage(g)
				}()
				if m != nil && m.MessageType >= 0 && err == nil {
					k := streamCase{Input: hexs(g), Direct: true, Note: "CRC bytes overwritten"}
					cj, _ := json.Marshal(k)
					c.Violate("corruption-not-contained", fmt.Sprintf("a frame whose CRC bytes %x were overwritten with %x is accepted by single-frame decoding as a valid type %d message", vf.Bytes[n-3:], g[n-3:], m.MessageType), cj)
				}
				if v%4096 == 0 {
					tick()
				}
			}
		}
		c.Count("crc_byte_pairs_swept", 2*65535)
		c.EvalN(1)
	}
	// several handlers at the same time, each with damaged frames in its stream
	nsideD := c.Share(c.Pick(400, 8000))
	for i := 0; i < nsideD; i++ {
		k := streamCase{HookSeed: r.Uint64() >> 1}
		for j := r.Range(2, 6); j > 0; j-- {
			var b []byte
			for f := r.Range(2, 6); f > 0; f-- {
				fb := append([]byte(nil), gen.RandFrame(r).Bytes...)
				if len(fb) > 300 {
					continue
				}
				if r.Chance(2, 3) {
					fb[r.Range(3, len(fb)-1)] ^= byte(1 + r.Intn(255))
				}
				b = append(b, fb...)
			}
			k.SideBySide = append(k.SideBySide, hexs(b))
		}
		cj := c.BeginV(k)
		execSideBySide(c, k, cj, "corruption-disturbs-neighbour")
		c.Eval(ref.Hash64(cj), true)
	}
	// a slow consumer / an input that falls silent: the damaged frame is still delivered
	// whole and alone
	stalls := timedStalls(c)
	if c.Batch < len(stalls) {
		var f1, vf, f2 gen.Seg
		for {
			f1, vf, f2 = gen.RandFrame(r), gen.RandFrame(r), gen.RandFrame(r)
			if len(vf.Bytes) >= 12 && len(vf.Bytes) <= 200 {
				break
			}
		}
		g := append([]byte(nil), vf.Bytes...)
		g[r.Range(5, len(g)-1)] ^= 0x10
		if !ref.IsFrame(g) {
			st := gen.Stream{f1, gen.Seg{Kind: "corrupt", Type: -1, Bytes: g}, f2, gen.Junk(r)}
			exp := []gen.Expected{{Type: f1.Type, Bytes: f1.Bytes}, {Type: -1, Bytes: g}, {Type: f2.Type, Bytes: f2.Bytes}, {Type: -1, Bytes: st[3].Bytes}}
			execTimed(c, st, exp, stalls[c.Batch], "corruption-not-contained")
		}
	}
	// periodic messages: the same frame repeated (a base station sends its 1005 again
	// and again); the victim is a repeat, corrupted in its payload with the CRC bytes intact
	nRep := c.Share(c.Pick(40, 1200))
	for i := 0; i < nRep; i++ {
		var f gen.Seg
		for {
			f = gen.RandFrame(r)
			if len(f.Bytes) <= 40 && len(f.Bytes) >= 9 {
				break
			}
		}
		other := gen.RandFrame(r)
		s := gen.Stream{f}
		if r.Chance(1, 2) {
			s = append(s, gen.Junk(r))
		}
		s = append(s, gen.Seg{Kind: "frame", Type: f.Type, Bytes: append([]byte(nil), f.Bytes...)})
		if r.Chance(1, 2) {
			s = append(s, other)
		}
		s = append(s, gen.Seg{Kind: "frame", Type: f.Type, Bytes: append([]byte(nil), f.Bytes...)}, gen.RandFrame(r))
		for v, g := range s {
			if v == 0 || g.Kind != "frame" || !bytes.Equal(g.Bytes, f.Bytes) {
				continue
			}
			// every single-bit flip of the payload (type bits included), CRC untouched
			for bit := 24; bit < (len(f.Bytes)-3)*8; bit++ {
				gg := append([]byte(nil), f.Bytes...)
				gg[bit/8] ^= 1 << uint(7-bit%8)
				runFault(s, v, gg, fmt.Sprintf("repeated frame, flip payload bit %d", bit))
				c.Count("repeated_frame_faults", 1)
			}
		}
	}
	// larger frames: random faults only
	nBig := c.Share(c.Pick(2000, 60000))
	for i := 0; i < nBig; i++ {
		s := gen.CleanStream(r, gen.CleanOpts{MinFrames: 2, MaxFrames: 6})
		var victims []int
		for j, g := range s {
			if g.Kind == "frame" {
				victims = append(victims, j)
			}
		}
		v := victims[r.Intn(len(victims))]
		f := s[v].Bytes
		for k := 0; k < 6; k++ {
			g := append([]byte(nil), f...)
			switch k % 3 {
			case 0:
				bit := r.Range(24, len(f)*8-1)
				g[bit/8] ^= 1 << uint(7-bit%8)
			case 1:
				g[r.Range(3, len(g)-1)] = 0xD3
			default:
				for x := 0; x < 5; x++ {
					g[r.Range(3, len(g)-1)] ^= byte(r.Intn(256))
				}
			}
			if bytes.Equal(g, f) {
				continue
			}
			runFault(s, v, g, "large-frame fault")
			c.Count("random_faults", 1)
		}
	}
	c.Count("skipped_crc_preserving_corruptions", int64(skippedValid))
}

// ---------------------------------------------------------------------------
// C02: lossless segmentation under input/output capacities and timings.

// perturb is called between channel operations by the monitor's own producer and
// consumer goroutines.
func perturb(r *ref.SplitMix64, profile int) {
	switch profile {
	case 0: // as fast as possible
	case 1: // frequent yields
		if r.Chance(1, 3) {
			runtime.Gosched()
		}
	case 2: // rare short sleeps
		if r.Chance(1, 200) {
			time.Sleep(time.Duration(r.Range(1, 200)) * time.Microsecond)
		}
	case 3: // bursts: long runs at full speed, then a pause
		if r.Chance(1, 400) {
			time.Sleep(time.Duration(r.Range(100, 1500)) * time.Microsecond)
		} else if r.Chance(1, 50) {
			runtime.Gosched()
		}
	}
}

type schedObs struct {
	msgs    []handler.Message
	hookSum verifhook.Summary
}

func runScheduled(k streamCase) schedObs {
	input := unhex(k.Input)
	if k.Procs > 0 {
		runtime.GOMAXPROCS(k.Procs)
	}
	inCap := k.InCap
	if inCap < 0 {
		inCap = len(input)
	}
	in := make(chan byte, inCap)
	out := make(chan handler.Message, k.OutCap)
	h := handler.New(fixedStart, slog.LevelInfo)
	verifhook.Begin(k.HookSeed, k.Hook)
	returned := make(chan struct{})
	go func() {
		h.HandleMessages(in, out)
		close(returned)
	}()
	go func() {
		pr := ref.NewRand(k.HookSeed*3 + 1)
		for _, b := range input {
			perturb(pr, k.Prod)
			in <- b
			tick()
		}
		perturb(pr, k.Prod)
		close(in)
	}()
	var obs schedObs
	done := make(chan struct{})
	go func() {
		cr := ref.NewRand(k.HookSeed*5 + 2)
		for m := range out {
			obs.msgs = append(obs.msgs, m)
			tick()
			perturb(cr, k.Cons)
		}
		close(done)
	}()
	waitOrHangGone(done, caseWatchdog, "output channel was not closed after the input was closed")
	waitOrHang(returned, caseWatchdog, "HandleMessages did not return after closing its output")
	obs.hookSum = verifhook.End()
	return obs
}

func execC02(c *child.Ctx, k streamCase, cj []byte, traces map[uint64]struct{}, pairs map[uint64]struct{}) {
	input := unhex(k.Input)
	obs := runScheduled(k)
	var cat []byte
	for i, m := range obs.msgs {
		if len(m.RawData) == 0 {
			c.Violate("empty-message", fmt.Sprintf("delivery %d carries no raw bytes", i), cj)
		}
		cat = append(cat, m.RawData...)
	}
	if !bytes.Equal(cat, input) {
		at := 0
		for at < len(cat) && at < len(input) && cat[at] == input[at] {
			at++
		}
		c.Violate("not-lossless", fmt.Sprintf("concatenated raw bytes (%d) differ from the input (%d) at offset %d; delivered:%s", len(cat), len(input), at, describeMsgs(obs.msgs, 10)), cj)
	}
	c.Count("messages_delivered", int64(len(obs.msgs)))
	c.Count("bytes_in", int64(len(input)))
	c.Count("hook_events", int64(obs.hookSum.Events))
	if traces != nil {
		traces[obs.hookSum.TraceHash] = struct{}{}
		for _, p := range obs.hookSum.Pairs {
			pairs[p] = struct{}{}
		}
	}
}

func execC02Timed(c *child.Ctx, k streamCase, cj []byte) {
	stall := time.Duration(k.StallMs) * time.Millisecond
	pauses := map[int]time.Duration{}
	for _, o := range k.PauseAt {
		pauses[o] = stall
	}
	cons := time.Duration(0)
	if k.ConsumerStalls {
		cons = stall
	}
	input := unhex(k.Input)
	onceAt := -1
	if k.OnceStallMs > 0 {
		onceAt = k.OnceAt
	}
	msgs := runTimedX(input, pauses, cons, onceAt, time.Duration(k.OnceStallMs)*time.Millisecond, k.OutCap)
	var cat []byte
	for _, m := range msgs {
		cat = append(cat, m.RawData...)
	}
	if !bytes.Equal(cat, input) {
		c.Violate("not-lossless", fmt.Sprintf("with stalls of %v (consumer: %v, producer pauses at %v; consumer held up once for %d ms before delivery %d) the concatenated raw bytes (%d) differ from the input (%d): %s; delivered:%s", stall, k.ConsumerStalls, k.PauseAt, k.OnceStallMs, k.OnceAt, len(cat), len(input), firstDiff(cat, input), describeMsgs(msgs, 10)), cj)
	}
	c.Count("stalled_runs", 1)
}

// execC02Second: one handler, two streams one after the other (a reconnecting
// source): each is segmented losslessly and each output is closed.
func execC02Second(c *child.Ctx, k streamCase, cj []byte) {
	h := handler.New(fixedStart, slog.LevelInfo)
	for si, in := range [][]byte{unhex(k.Input), unhex(k.Second)} {
		msgs := streamThrough(h, in)
		var cat []byte
		for i, m := range msgs {
			if len(m.RawData) == 0 {
				c.Violate("empty-message", fmt.Sprintf("stream %d on the same handler: delivery %d carries no raw bytes", si+1, i), cj)
			}
			cat = append(cat, m.RawData...)
		}
		if !bytes.Equal(cat, in) {
			c.Violate("not-lossless", fmt.Sprintf("stream %d processed by the same handler: concatenated raw bytes (%d) differ from the input (%d): %s; delivered:%s", si+1, len(cat), len(in), firstDiff(cat, in), describeMsgs(msgs, 10)), cj)
			return
		}
	}
	c.Count("second_streams_on_one_handler", 1)
}

func monC02(c *child.Ctx, replay json.RawMessage) {
	if replay != nil {
		var k streamCase
		json.Unmarshal(replay, &k)
		c.Begin(replay)
		if k.Second != "" {
			execC02Second(c, k, replay)
			return
		}
		if len(k.SideBySide) > 0 {
			for i := 0; i < 100 && c.NViolations() == 0; i++ {
				k.HookSeed++
				execSideBySide(c, k, replay, "not-lossless")
			}
			return
		}
		if k.StallMs > 0 {
			execC02Timed(c, k, replay)
			return
		}
		reps := 1
		if k.Procs > 0 || k.Hook != "" {
			reps = 200 // schedule dependent: repeat
		}
		for i := 0; i < reps && c.NViolations() == 0; i++ {
			k.HookSeed += uint64(i)
			execC02(c, k, replay, nil, nil)
		}
		return
	}
	r := ref.NewRand(c.Seed*86028121 + uint64(c.Batch)*122949829 + 2)
	traces := map[uint64]struct{}{}
	pairs := map[uint64]struct{}{}
	procsList := []int{1, 2, 4, 16}
	hookProfiles := []string{"", "y300x2", "y100x1,s20u100", "s5u300"}
	inCaps := []int{0, 1, 2, 64, -1, 1500, 4096}
	outCaps := []int{0, 1, 8}

	var inputs [][]byte
	var kinds []bool // non-trivial?
	addInput := func(b []byte, nontriv bool) {
		inputs = append(inputs, b)
		kinds = append(kinds, nontriv)
	}
	// special inputs
	if c.Batch == 0 {
		addInput([]byte{}, false)
		addInput([]byte{0xD3}, true)
		addInput([]byte{0xD3, 0xD3, 0xD3, 0xD3}, true)
		addInput([]byte("junk ending in a preamble\xd3"), true)
		// a long session: hundreds of junk-then-frame transitions
		{
			var b []byte
			for j := r.Range(80, 300); j > 0; j-- {
				b = append(b, []byte("$GPTXT,x*00\r\n")[:r.Range(1, 13)]...)
				f := gen.RandFrame(r)
				for len(f.Bytes) > 50 {
					f = gen.RandFrame(r)
				}
				b = append(b, f.Bytes...)
			}
			addInput(b, true)
		}
		// long 0xD3-free runs around typical buffer caps, followed by a frame
		for _, jl := range []int{4096, 65535, 65536, 65537, 70000} {
			b := append(gen.NoD3(r.Bytes(jl)), gen.RandFrame(r).Bytes...)
			addInput(b, true)
		}
		// streams that end 0..6 bytes after a leader with a zero length field, alone and after a frame
		{
			pre := gen.RandFrame(r).Bytes
			for _, b1 := range []byte{0x00, 0x04, 0xfc} {
				for k := 0; k <= 6; k++ {
					for _, tail := range [][]byte{r.Bytes(k), make([]byte, k)} {
						in := append([]byte{0xd3, b1, 0x00}, tail...)
						addInput(append([]byte(nil), in...), true)
						addInput(append(append([]byte(nil), pre...), in...), true)
					}
				}
			}
		}
		f := gen.RandFrame(r)
		for len(f.Bytes) > 40 || !gen.SafeMSMPayload(f.Type, len(f.Bytes)-6) {
			f = gen.RandFrame(r)
		}
		// every truncation point of a frame (inside leader, payload, CRC), alone and after a frame
		for cut := 1; cut < len(f.Bytes); cut++ {
			addInput(append([]byte(nil), f.Bytes[:cut]...), true)
			addInput(append(append([]byte(nil), f.Bytes...), f.Bytes[:cut]...), true)
		}
	}
	n := c.Share(c.Pick(5000, 60000))
	for i := 0; i < n; i++ {
		var s gen.Stream
		if i%2 == 0 {
			s = gen.HostileStream(r, false)
		} else {
			s = gen.CleanStream(r, gen.CleanOpts{MinFrames: 1, MaxFrames: 5, TruncTail: true})
		}
		kindsSeen := map[string]bool{}
		for _, g := range s {
			kindsSeen[g.Kind] = true
		}
		b := s.Bytes()
		if len(b) > 6000 {
			b = b[:6000]
		}
		addInput(b, len(kindsSeen) >= 2 || kindsSeen["trunc"])
	}
	// periodic messages (a base station's position, its antenna, its biases) sent again
	// and again, some copies damaged in one payload bit with the CRC bytes as they were,
	// some in the CRC bytes only: the bytes that went in come out
	nPer := c.Share(c.Pick(400, 8000))
	for i := 0; i < nPer; i++ {
		t := []int{1005, 1006, 1033, 1230, 1013, 1008}[r.Intn(6)]
		var f []byte
		if t == 1005 || t == 1006 {
			f = ref.Frame(ref.EncodeBase(gen.RandBase(r, t), t))
		} else {
			f = ref.Frame(gen.RandPayload(r, t, r.Range(8, 60), 0))
		}
		var b []byte
		for j := r.Range(3, 7); j > 0; j-- {
			g := append([]byte(nil), f...)
			switch r.Intn(4) {
			case 0:
				g[r.Range(5, len(g)-4)] ^= 1 << uint(r.Intn(8))
			case 1:
				g[len(g)-1-r.Intn(3)] ^= 1 << uint(r.Intn(8))
			}
			b = append(b, g...)
			if r.Chance(1, 3) {
				b = append(b, gen.Junk(r).Bytes...)
			}
		}
		addInput(b, true)
	}
	// a long session with dozens of long runs of other data (1 to 8 KiB each) between
	// frames - a hundred kilobytes and more in all, so that whatever is stored in blocks
	// of some round size meets its block boundaries at every possible fill level
	if c.Batch%4 == 3 || c.Thorough() {
		var b []byte
		for len(b) < 150000 {
			b = append(b, gen.RandFrame(r).Bytes...)
			b = append(b, gen.NoD3(r.Bytes(r.Range(1030, 8192)))...)
		}
		addInput(b, true)
	}
	cfgPerInput := c.Pick(4, 12)
	for i, in := range inputs {
		for j := 0; j < cfgPerInput; j++ {
			k := streamCase{
				Input:    hexs(in),
				InCap:    inCaps[r.Intn(len(inCaps))],
				OutCap:   outCaps[r.Intn(len(outCaps))],
				Procs:    procsList[r.Intn(len(procsList))],
				Prod:     r.Intn(4),
				Cons:     r.Intn(4),
				Hook:     hookProfiles[r.Intn(len(hookProfiles))],
				HookSeed: r.Uint64() >> 1,
			}
			if j == 0 {
				// the plain schedule: everything buffered, nothing perturbed
				k.InCap, k.OutCap, k.Prod, k.Cons, k.Hook = -1, 8, 0, 0, ""
			}
			cj := c.BeginV(k)
			execC02(c, k, cj, traces, pairs)
			c.Eval(ref.Hash64(in, []byte(fmt.Sprintf("%d/%d/%d/%d/%d/%s", k.InCap, k.OutCap, k.Procs, k.Prod, k.Cons, k.Hook))), kinds[i])
			if i == len(inputs)-1 && j == 1 {
				c.Sample(map[string]interface{}{"input_len": len(in), "in_cap": k.InCap, "out_cap": k.OutCap, "gomaxprocs": k.Procs, "producer": k.Prod, "consumer": k.Cons, "hook_profile": k.Hook})
			}
		}
	}
	// a consumer that stays away before every receive, and an input that falls silent
	// inside and between its segments: still lossless
	stalls := timedStalls(c)
	if sb := c.Batch - 2; sb >= 0 && sb < len(stalls) {
		stalls = []time.Duration{stalls[sb], stalls[sb]}
		var st gen.Stream
		for {
			st = gen.HostileStream(r, false)
			if n := len(st.Bytes()); len(st) >= 3 && len(st) <= 6 && n <= 400 {
				// few deliveries: the consumer stalls before every one of them
				if nm := len(runSequential(fixedStart, slog.LevelInfo, st.Bytes())); nm >= 3 && nm <= 8 {
					break
				}
			}
		}
		for mode := 0; mode < 2; mode++ {
			k := streamCase{Input: hexs(st.Bytes()), StallMs: stalls[0].Milliseconds(), ConsumerStalls: mode == 0}
			if mode == 1 {
				off := 0
				for _, g := range st {
					k.PauseAt = append(k.PauseAt, off, off+len(g.Bytes)/2)
					off += len(g.Bytes)
				}
				k.PauseAt = append(k.PauseAt, off)
			}
			cj := c.BeginV(k)
			execC02Timed(c, k, cj)
			c.Eval(ref.Hash64(st.Bytes(), []byte{byte(mode)}, []byte(fmt.Sprint(k.StallMs))), true)
		}
	}
	if ob := c.Batch / 2; c.Batch%2 == 1 && ob < len(onceStalls(c)) {
		var st gen.Stream
		for {
			st = gen.HostileStream(r, false)
			if nm := len(runSequential(fixedStart, slog.LevelInfo, st.Bytes())); nm >= 3 && nm <= 12 && len(st.Bytes()) < 3000 {
				break
			}
		}
		k := streamCase{Input: hexs(st.Bytes()), StallMs: 1, OnceStallMs: onceStalls(c)[ob].Milliseconds(), OnceAt: r.Intn(3), OutCap: []int{0, 1, 8}[r.Intn(3)]}
		cj := c.BeginV(k)
		execC02Timed(c, k, cj)
		c.Count("held_up_once_runs", 1)
		c.Eval(ref.Hash64(cj), true)
	}
	// the consumer is held up once, for a second or two, early in a stream of six hundred
	// to fifteen hundred tiny messages that the source keeps sending: whatever piles up
	// inside comes out in the order it went in
	if c.Batch%4 == 2 || c.Thorough() && c.Batch%4 == 0 {
		var in []byte
		for j := r.Range(600, 1500); j > 0; j-- {
			f := gen.RandFrame(r)
			for len(f.Bytes) > 24 {
				f = gen.RandFrame(r)
			}
			in = append(in, f.Bytes...)
			if r.Chance(1, 4) {
				in = append(in, '\n')
			}
		}
		k := streamCase{Input: hexs(in), StallMs: 1, OnceStallMs: int64(r.Range(1500, 2500)), OnceAt: r.Intn(3), OutCap: []int{0, 1, 8}[r.Intn(3)]}
		cj := c.BeginV(k)
		execC02Timed(c, k, cj)
		c.Count("held_up_once_with_hundreds_of_messages_behind", 1)
		c.Eval(ref.Hash64(cj), true)
	}
	// the source falls silent once, for seconds, well inside a long frame
	if ob := c.Batch/2 - 1; c.Batch%2 == 0 && ob >= 0 && ob < len(onceStalls(c)) {
		var f gen.Seg
		for {
			f = gen.RandFrame(r)
			if len(f.Bytes) >= 60 && len(f.Bytes) <= 400 {
				break
			}
		}
		head := gen.RandFrame(r).Bytes
		in := append(append(append([]byte(nil), head...), f.Bytes...), gen.RandFrame(r).Bytes...)
		k := streamCase{Input: hexs(in), StallMs: onceStalls(c)[ob].Milliseconds(), PauseAt: []int{len(head) + r.Range(20, len(f.Bytes)-5)}}
		cj := c.BeginV(k)
		execC02Timed(c, k, cj)
		c.Eval(ref.Hash64(cj), true)
	}
	// several handlers at the same time, each on its own hostile stream
	nside := c.Share(c.Pick(800, 16000))
	for i := 0; i < nside; i++ {
		k := streamCase{HookSeed: r.Uint64() >> 1}
		for j := r.Range(2, 4); j > 0; j-- {
			b := gen.HostileStream(r, false).Bytes()
			if len(b) > 3000 {
				b = b[:3000]
			}
			if i%2 == 0 {
				b = append(gen.Junk(r).Bytes, b...)
			}
			k.SideBySide = append(k.SideBySide, hexs(b))
		}
		cj := c.BeginV(k)
		execSideBySide(c, k, cj, "not-lossless")
		c.Eval(ref.Hash64(cj), true)
	}
	// a handler that is given a second stream after the first has ended - complete, or
	// inside a leader, a payload, a CRC, in other data, or on a lone start byte
	nsec := c.Share(c.Pick(1600, 40000))
	for i := 0; i < nsec; i++ {
		first := gen.HostileStream(r, false).Bytes()
		f := gen.RandFrame(r)
		switch i % 6 {
		case 0:
			first = append(first, f.Bytes...)
		case 1:
			first = append(first, f.Bytes[:r.Range(1, 3)]...)
		case 2:
			first = append(first, f.Bytes[:r.Range(3, len(f.Bytes)-3)]...)
		case 3:
			first = append(first, f.Bytes[:len(f.Bytes)-r.Range(1, 3)]...)
		case 4:
			first = append(first, gen.Junk(r).Bytes...)
		default:
			first = append(first, 0xD3)
		}
		second := gen.HostileStream(r, false).Bytes()
		if i%3 == 0 {
			second = append(append([]byte(nil), gen.RandFrame(r).Bytes...), second...)
		}
		if len(first) > 4000 || len(second) > 4000 || len(second) == 0 {
			continue
		}
		k := streamCase{Input: hexs(first), Second: hexs(second)}
		cj := c.BeginV(k)
		execC02Second(c, k, cj)
		c.Eval(ref.Hash64(cj), true)
	}
	c.Count("distinct_interleavings_observed", int64(len(traces)))
	c.Count("max_distinct_adjacent_site_pairs", int64(len(pairs)))
	c.Count("max_hook_sites_in_build", int64(verifhook.NumSites()))
}
