package main

import (
	"bytes"
	"encoding/json"
	"fmt"
	"log/slog"
	"math/bits"
	"runtime"
	"sync"
	"sync/atomic"
	"time"

	"github.com/anishathalye/porcupine"
	circularQueue "github.com/goblimey/go-ntrip/apps/proxy/circular_queue"
	"github.com/goblimey/go-ntrip/rtcm/handler"

	"verifharness/child"
	"verifharness/ref"
)

func init() { monitors["C18"] = monC18 }

type queueCase struct {
	Kind    string `json:"kind"` // seq | long | conc
	Cap     int    `json:"cap"`
	Ops     string `json:"ops,omitempty"` // seq: string of 'A' (add) and 'G' (snapshot)
	Adds    int    `json:"adds,omitempty"`
	Adders  int    `json:"adders,omitempty"`
	Readers int    `json:"readers,omitempty"`
	OpsEach int    `json:"ops_each,omitempty"`
	Procs   int    `json:"gomaxprocs,omitempty"`
	Seed    uint64 `json:"seed,omitempty"`
	// oldservice: the queue's (exported) index of the next message before the run
	StartIndex int64 `json:"next_index_before_the_run,omitempty"`
}

// qmsg is the message with identity id: every field of it is set, and set to
// something derived from id, so that a snapshot can be compared with what was added
// as a whole value ("a snapshot returns exactly the ... messages").
func qmsg(id int) handler.Message {
	raw := []byte(nil)
	if id%5 != 0 {
		raw = []byte{0xd3, 0, byte(id), byte(id >> 8), byte(id >> 16)}
	}
	if id%97 == 3 {
		// non-RTCM data can be longer than any frame
		raw = make([]byte, 1030+id%4000)
		for j := range raw {
			raw[j] = byte(id + j)
		}
	}
	return handler.Message{MessageType: qtype(id), Timestamp: uint(id) + 1, SentAt: qStrings[id%7],
		StartOfWeek: qStrings[7+id%3], ErrorMessage: qStrings[10+id%2], RawData: raw,
		Readable: qReadable[id%3], LogLevel: []slog.Level{slog.LevelDebug, slog.LevelInfo}[id%2]}
}

var qStrings = []string{"sent-0", "sent-1", "sent-2", "sent-3", "sent-4", "sent-5", "sent-6", "week-0", "week-1", "week-2", "", "err"}
var qReadable = []interface{}{"readable-0", "readable-1", 2}

// sameMsg: is m exactly the value that was added under its identity?
// qtype: every third message or so is other data (type -1), often next to another one
func qtype(id int) int {
	if id%3 == 1 || id%7 == 2 {
		return -1
	}
	return id
}

// qid: the identity of a message travels in its Timestamp field
func qid(m handler.Message) int { return int(m.Timestamp) - 1 }

func sameMsg(m handler.Message) bool {
	id := qid(m)
	if id < 0 || m.MessageType != qtype(id) || m.SentAt != qStrings[id%7] || m.StartOfWeek != qStrings[7+id%3] || m.ErrorMessage != qStrings[10+id%2] ||
		m.LogLevel != []slog.Level{slog.LevelDebug, slog.LevelInfo}[id%2] || m.Readable != qReadable[id%3] {
		return false
	}
	switch {
	case id%97 == 3:
		if len(m.RawData) != 1030+id%4000 {
			return false
		}
		for j, b := range m.RawData {
			if b != byte(id+j) {
				return false
			}
		}
		return true
	case id%5 != 0:
		return len(m.RawData) == 5 && m.RawData[0] == 0xd3 && m.RawData[1] == 0 && m.RawData[2] == byte(id) && m.RawData[3] == byte(id>>8) && m.RawData[4] == byte(id>>16)
	}
	return m.RawData == nil
}

// ids maps a snapshot to message identities; a message that is not the value that
// was added under its identity maps to a negative number (it then matches nothing).
func ids(ms []handler.Message) []int {
	out := make([]int, len(ms))
	for i := range ms {
		out[i] = qid(ms[i])
		if !sameMsg(ms[i]) {
			out[i] = -1000000000 - qid(ms[i])
			was := "nothing that was added"
			if qid(ms[i]) >= 0 {
				was = fmt.Sprintf("%+v", qmsg(qid(ms[i])))
			}
			alteredNote.Store(fmt.Sprintf("a message came back as %+v, what was added under that identity is %s", ms[i], was))
		}
	}
	return out
}

var alteredNote atomic.Value

func alteredText() string {
	if v := alteredNote.Load(); v != nil {
		return " (negative = the message returned is not the value that was added: " + v.(string) + ")"
	}
	return ""
}

// sizeUnderLock reads len(Items) under the queue's own read lock.
func sizeUnderLock(q *circularQueue.CircularQueue) int {
	q.RLock()
	defer q.RUnlock()
	return len(q.Items)
}

// execQueueSeq runs one sequential operation string against the list model.
func execQueueSeq(c *child.Ctx, k queueCase, cj []byte) bool {
	q := circularQueue.NewCircularQueue(k.Cap)
	var model []int
	next := 0 // the first message is the zero value in type and raw data
	for i := 0; i < len(k.Ops); i++ {
		if k.Ops[i] == 'A' {
			q.Add(qmsg(next))
			model = append(model, next)
			if len(model) > k.Cap {
				model = model[len(model)-k.Cap:]
			}
			next++
			if n := sizeUnderLock(q); n > k.Cap {
				c.Violate("holds-more-than-capacity", fmt.Sprintf("capacity %d queue holds %d items after %d additions", k.Cap, n, next), cj)
				return false
			}
		} else {
			got := ids(q.GetMessages())
			if fmt.Sprint(got) != fmt.Sprint(model) && !(len(got) == 0 && len(model) == 0) {
				c.Violate("snapshot-wrong", fmt.Sprintf("capacity %d after ops %q: snapshot %v, the last min(N, added) messages are %v%s", k.Cap, k.Ops[:i+1], got, model, alteredText()), cj)
				return false
			}
		}
	}
	return true
}

// execQueueLong adds far more messages than the capacity, checking every snapshot.
func execQueueLong(c *child.Ctx, k queueCase, cj []byte) {
	q := circularQueue.NewCircularQueue(k.Cap)
	var held []handler.Message
	var heldIDs []int
	heldAt := 0
	for i := 1; i <= k.Adds; i++ {
		q.Add(qmsg(i - 1)) // identities from 0: the first is the zero value in type and raw data
		got := q.GetMessages()
		want := k.Cap
		if i < want {
			want = i
		}
		ok := len(got) == want
		for j := 0; ok && j < len(got); j++ {
			if qid(got[j]) != i-want+j || !sameMsg(got[j]) {
				ok = false
			}
		}
		if !ok {
			c.Violate("snapshot-wrong", fmt.Sprintf("capacity %d after %d additions: snapshot %v, expected the last %d in order%s", k.Cap, i, ids(got), want, alteredText()), cj)
			return
		}
		// a snapshot that its reader still holds (the report being rendered) must not
		// change when messages are added afterwards
		if held != nil && i == heldAt+1+heldAt%5 {
			now := ids(held)
			if fmt.Sprint(now) != fmt.Sprint(heldIDs) {
				c.Violate("snapshot-wrong", fmt.Sprintf("capacity %d: the snapshot taken after %d additions was %v; after %d additions the same slice reads %v%s", k.Cap, heldAt, heldIDs, i, now, alteredText()), cj)
				return
			}
			held = nil
			c.Count("held_snapshots_rechecked", 1)
		}
		if held == nil && i%7 == 3 {
			held, heldIDs, heldAt = got, ids(got), i
		}
		if i%1024 == 0 {
			if n := sizeUnderLock(q); n > k.Cap {
				c.Violate("holds-more-than-capacity", fmt.Sprintf("capacity %d queue holds %d items after %d additions", k.Cap, n, i), cj)
				return
			}
		}
	}
	c.Count("long_run_additions", int64(k.Adds))
}

// execQueueVeryLong: a session of tens of millions of additions (the proxy runs for
// months) or a capacity of tens of thousands.  Snapshots are compared around every
// power of two of the number of additions, around the capacity, and at regular
// intervals in between; the messages are small.
func execQueueVeryLong(c *child.Ctx, k queueCase, cj []byte) {
	q := circularQueue.NewCircularQueue(k.Cap)
	light := func(id int) handler.Message {
		return handler.Message{MessageType: qtype(id), Timestamp: uint(id) + 1}
	}
	window := 2*k.Cap + 3
	if window > 40 {
		window = 40
	}
	check := func(i int) bool {
		if i <= window || i >= k.Adds-window {
			return true
		}
		if d := i - k.Cap; d >= -3 && d <= 12 {
			return true
		}
		if k.Cap > 1000 {
			return false
		}
		if i%8191 == 0 {
			return true
		}
		// distance to the nearest power of two
		p := 1 << uint(bits.Len(uint(i))-1)
		return i-p <= window || 2*p-i <= window
	}
	snaps := 0
	for i := 1; i <= k.Adds; i++ {
		q.Add(light(i - 1))
		if !check(i) {
			continue
		}
		snaps++
		got := q.GetMessages()
		want := k.Cap
		if i < want {
			want = i
		}
		ok := len(got) == want
		for j := 0; ok && j < len(got); j++ {
			if qid(got[j]) != i-want+j || got[j].MessageType != qtype(i-want+j) {
				ok = false
			}
		}
		if !ok {
			show := ids(got)
			if len(show) > 24 {
				show = append(append([]int(nil), show[:12]...), show[len(show)-12:]...)
			}
			c.Violate("snapshot-wrong", fmt.Sprintf("capacity %d after %d additions: the snapshot holds %d messages (first and last identities %v), expected the last %d in order", k.Cap, i, len(got), show, want), cj)
			return
		}
		if i%4096 == 0 {
			tick()
		}
	}
	if n := sizeUnderLock(q); n > k.Cap {
		c.Violate("holds-more-than-capacity", fmt.Sprintf("capacity %d queue holds %d items after %d additions", k.Cap, n, k.Adds), cj)
		return
	}
	c.Count("very_long_run_additions", int64(k.Adds))
	c.Count("very_long_run_snapshots_compared", int64(snaps))
}

// execQueueOldService: a queue that has been in service for 2^31, 2^32, 2^53 ...
// additions.  Nobody can wait for that many; the index of the next message is an
// exported, documented field of the queue, so the state "empty queue, index N" - what
// a long-lived queue looks like after a restart of its contents - is set up directly
// on a new queue, and then the ordinary run follows: every snapshot the last min(N,
// added) messages in order, never more than the capacity.
func execQueueOldService(c *child.Ctx, k queueCase, cj []byte) {
	q := circularQueue.NewCircularQueue(k.Cap)
	q.Lock()
	q.NextIndex = int(k.StartIndex)
	q.Unlock()
	if int64(int(k.StartIndex)) != k.StartIndex {
		return // does not fit an int on this platform
	}
	for i := 1; i <= k.Adds; i++ {
		q.Add(qmsg(i - 1))
		got := q.GetMessages()
		want := k.Cap
		if i < want {
			want = i
		}
		ok := len(got) == want
		for j := 0; ok && j < len(got); j++ {
			if qid(got[j]) != i-want+j || !sameMsg(got[j]) {
				ok = false
			}
		}
		if !ok {
			c.Violate("snapshot-wrong", fmt.Sprintf("capacity %d, index of the next message %d before the run, after %d additions: snapshot %v, expected the last %d in order%s", k.Cap, k.StartIndex, i, ids(got), want, alteredText()), cj)
			return
		}
		if n := sizeUnderLock(q); n > k.Cap {
			c.Violate("holds-more-than-capacity", fmt.Sprintf("capacity %d queue (index of the next message %d before the run) holds %d items after %d additions", k.Cap, k.StartIndex, n, i), cj)
			return
		}
	}
	c.Count("additions_to_queues_long_in_service", int64(k.Adds))
}

// execQueueFirstAdds: two or three adders whose very first additions to a brand-new
// queue happen at the same moment, thousands of new queues: once they have returned,
// a snapshot holds all their messages (the capacity allows it).
func execQueueFirstAdds(c *child.Ctx, k queueCase, cj []byte) {
	runtime.GOMAXPROCS(16) // the adders spin at the barrier: they need processors of their own
	for trial := 0; trial < k.Adds; trial++ {
		q := circularQueue.NewCircularQueue(k.Cap)
		var wg sync.WaitGroup
		var ready, goNow int32
		for a := 0; a < k.Adders; a++ {
			wg.Add(1)
			go func(a int) {
				defer wg.Done()
				atomic.AddInt32(&ready, 1)
				for atomic.LoadInt32(&goNow) == 0 {
				}
				q.Add(qmsg(a))
			}(a)
		}
		for atomic.LoadInt32(&ready) < int32(k.Adders) {
			runtime.Gosched()
		}
		atomic.StoreInt32(&goNow, 1)
		wg.Wait()
		got := q.GetMessages()
		seen := map[int]bool{}
		for _, m := range got {
			seen[qid(m)] = true
		}
		if len(got) != k.Adders || len(seen) != k.Adders {
			c.Violate("snapshot-wrong", fmt.Sprintf("a new queue of capacity %d was given its first %d messages by %d adders at the same moment; after all of them had returned the snapshot holds %v (new queue number %d)", k.Cap, k.Adders, k.Adders, ids(got), trial+1), cj)
			return
		}
		if trial%256 == 0 {
			tick()
		}
	}
	c.Count("new_queues_whose_first_additions_were_simultaneous", int64(k.Adds))
}

// execQueuesSideBySide: several queues in one process (the proxy keeps one, a program
// may keep more), each used by a goroutine of its own that adds, takes a snapshot and
// compares it exactly - queues share nothing that their users can see.
func execQueuesSideBySide(c *child.Ctx, k queueCase, cj []byte) {
	var wg sync.WaitGroup
	var bad atomic.Value
	start := make(chan struct{})
	for qi := 0; qi < k.Adders; qi++ {
		wg.Add(1)
		go func(qi int) {
			defer wg.Done()
			capN := k.Cap + qi%2
			q := circularQueue.NewCircularQueue(capN)
			<-start
			for i := 1; i <= k.Adds && bad.Load() == nil; i++ {
				q.Add(qmsg(qi*1000000 + i - 1))
				got := q.GetMessages()
				want := capN
				if i < want {
					want = i
				}
				ok := len(got) == want
				for j := 0; ok && j < len(got); j++ {
					if qid(got[j]) != qi*1000000+i-want+j || !sameMsg(got[j]) {
						ok = false
					}
				}
				if !ok {
					bad.Store(fmt.Sprintf("queue %d of %d used side by side (capacity %d) after %d additions of its own: snapshot %v, expected its last %d messages in order", qi+1, k.Adders, capN, i, ids(got), want))
					return
				}
				if n := sizeUnderLock(q); n > capN {
					bad.Store(fmt.Sprintf("queue %d of %d used side by side holds %d items, capacity %d", qi+1, k.Adders, n, capN))
					return
				}
				if i%256 == 0 {
					tick()
				}
			}
		}(qi)
	}
	done := make(chan struct{})
	go func() { close(start); wg.Wait(); close(done) }()
	waitOrHang(done, caseWatchdog, "queues used side by side did not finish")
	if v := bad.Load(); v != nil {
		c.Violate("snapshot-wrong", v.(string)+alteredText(), cj)
		return
	}
	c.Count("additions_to_queues_used_side_by_side", int64(k.Adders*k.Adds))
}

// execQueueBigBlocks: messages whose raw bytes are small windows into one large read
// buffer (so that each keeps megabytes alive), and messages that are large themselves.
func execQueueBigBlocks(c *child.Ctx, k queueCase, cj []byte) {
	q := circularQueue.NewCircularQueue(k.Cap)
	var block []byte
	var added [][]byte
	for i := 1; i <= k.Adds; i++ {
		if i%3 == 1 {
			block = make([]byte, k.OpsEach) // a new read buffer of OpsEach bytes
		}
		off := (i * 4099) % (len(block) - 64)
		raw := block[off : off+16+i%32]
		raw[0], raw[1], raw[2] = 0xd3, byte(i), byte(i>>8)
		added = append(added, raw)
		q.Add(handler.Message{MessageType: 1005, Timestamp: uint(i), RawData: raw})
		got := q.GetMessages()
		want := k.Cap
		if i < want {
			want = i
		}
		ok := len(got) == want
		for j := 0; ok && j < len(got); j++ {
			if int(got[j].Timestamp) != i-want+j+1 || !bytes.Equal(got[j].RawData, added[i-want+j]) {
				ok = false
			}
		}
		if !ok {
			var have []int
			for _, m := range got {
				have = append(have, int(m.Timestamp))
			}
			c.Violate("snapshot-wrong", fmt.Sprintf("capacity %d after %d additions of messages that are windows of 16-48 bytes into read buffers of %d bytes: the snapshot holds messages %v, expected the last %d", k.Cap, i, k.OpsEach, have, want), cj)
			return
		}
		if len(added) > 2*k.Cap+4 {
			added[i-2*k.Cap-4] = nil
		}
	}
	c.Count("additions_of_windows_into_big_buffers", int64(k.Adds))
}

// concurrent histories, checked for linearizability against the list model
type qIn struct {
	Add bool
	ID  int
}

func queueModel(capacity int) porcupine.Model {
	return porcupine.Model{
		Init: func() interface{} { return "" },
		Step: func(state, input, output interface{}) (bool, interface{}) {
			st := state.(string)
			in := input.(qIn)
			if in.Add {
				items := decodeState(st)
				items = append(items, in.ID)
				if len(items) > capacity {
					items = items[len(items)-capacity:]
				}
				return true, encodeState(items)
			}
			return output.(string) == st, st
		},
		Equal: func(a, b interface{}) bool { return a.(string) == b.(string) },
		DescribeOperation: func(input, output interface{}) string {
			in := input.(qIn)
			if in.Add {
				return fmt.Sprintf("Add(%d)", in.ID)
			}
			return fmt.Sprintf("Get() -> [%s]", output.(string))
		},
	}
}

func encodeState(items []int) string {
	s := ""
	for i, v := range items {
		if i > 0 {
			s += ","
		}
		s += fmt.Sprint(v)
	}
	return s
}

func decodeState(s string) []int {
	var out []int
	cur := 0
	has := false
	for i := 0; i < len(s); i++ {
		if s[i] == ',' {
			out = append(out, cur)
			cur, has = 0, false
		} else {
			cur = cur*10 + int(s[i]-'0')
			has = true
		}
	}
	if has {
		out = append(out, cur)
	}
	return out
}

func execQueueConc(c *child.Ctx, k queueCase, cj []byte) {
	if k.Procs > 0 {
		runtime.GOMAXPROCS(k.Procs)
	}
	q := circularQueue.NewCircularQueue(k.Cap)
	var clock int64
	var mu sync.Mutex
	var ops []porcupine.Operation
	var wg sync.WaitGroup
	var oversize int64
	start := make(chan struct{})
	client := 0
	for a := 0; a < k.Adders; a++ {
		wg.Add(1)
		go func(cl, a int) {
			defer wg.Done()
			r := ref.NewRand(k.Seed + uint64(cl)*7919)
			<-start
			for i := 0; i < k.OpsEach; i++ {
				id := (a+1)*1000000 + i + 1 // unique: adder number and counter
				t0 := atomic.AddInt64(&clock, 1)
				q.Add(qmsg(id))
				t1 := atomic.AddInt64(&clock, 1)
				if n := sizeUnderLock(q); n > k.Cap {
					atomic.StoreInt64(&oversize, int64(n))
				}
				mu.Lock()
				ops = append(ops, porcupine.Operation{ClientId: cl, Input: qIn{Add: true, ID: id}, Call: t0, Output: "", Return: t1})
				mu.Unlock()
				if r.Chance(1, 3) {
					runtime.Gosched()
				}
			}
		}(client, a)
		client++
	}
	for rd := 0; rd < k.Readers; rd++ {
		wg.Add(1)
		go func(cl int) {
			defer wg.Done()
			r := ref.NewRand(k.Seed + uint64(cl)*104729)
			<-start
			for i := 0; i < k.OpsEach; i++ {
				t0 := atomic.AddInt64(&clock, 1)
				got := q.GetMessages()
				t1 := atomic.AddInt64(&clock, 1)
				if len(got) > k.Cap {
					atomic.StoreInt64(&oversize, int64(len(got)))
				}
				mu.Lock()
				ops = append(ops, porcupine.Operation{ClientId: cl, Input: qIn{}, Call: t0, Output: encodeState(ids(got)), Return: t1})
				mu.Unlock()
				if r.Chance(1, 3) {
					runtime.Gosched()
				}
			}
		}(client)
		client++
	}
	close(start)
	done := make(chan struct{})
	go func() { wg.Wait(); close(done) }()
	waitOrHang(done, caseWatchdog, "queue clients did not finish")
	if n := atomic.LoadInt64(&oversize); n > 0 {
		c.Violate("holds-more-than-capacity", fmt.Sprintf("capacity %d queue was seen holding %d items with %d adders and %d readers", k.Cap, n, k.Adders, k.Readers), cj)
		return
	}
	res, info := porcupine.CheckOperationsVerbose(queueModel(k.Cap), ops, 60*time.Second)
	switch res {
	case porcupine.Ok:
		c.Count("linearizable_histories", 1)
		c.Count("history_operations", int64(len(ops)))
	case porcupine.Illegal:
		// describe the history compactly
		desc := ""
		for i, op := range ops {
			if i >= 60 {
				desc += " ..."
				break
			}
			in := op.Input.(qIn)
			if in.Add {
				desc += fmt.Sprintf(" c%d:Add(%d)@[%d,%d]", op.ClientId, in.ID, op.Call, op.Return)
			} else {
				desc += fmt.Sprintf(" c%d:Get=[%s]@[%d,%d]", op.ClientId, op.Output.(string), op.Call, op.Return)
			}
		}
		_ = info
		c.Violate("not-linearizable", fmt.Sprintf("capacity %d, %d adders, %d readers: no order of the operations consistent with real time explains the snapshots:%s%s", k.Cap, k.Adders, k.Readers, desc, alteredText()), cj)
	default:
		c.Inconclusive("linearizability check timed out")
	}
}

// execQueueStress runs adders and snapshot readers in tight loops (no yields, many
// operations): every snapshot must be within capacity and strictly increasing per
// adder (arrival order), and the run must finish - a lock-order problem shows up
// as a logical deadlock.
func execQueueStress(c *child.Ctx, k queueCase, cj []byte) {
	if k.Procs > 0 {
		runtime.GOMAXPROCS(k.Procs)
	}
	q := circularQueue.NewCircularQueue(k.Cap)
	var wg sync.WaitGroup
	var bad atomic.Value
	for a := 0; a < k.Adders; a++ {
		wg.Add(1)
		go func(a int) {
			defer wg.Done()
			for i := 0; i < k.OpsEach; i++ {
				q.Add(qmsg((a+1)*10000000 + i + 1))
				if i%64 == 0 {
					tick()
				}
			}
		}(a)
	}
	for rd := 0; rd < k.Readers; rd++ {
		wg.Add(1)
		go func() {
			defer wg.Done()
			for i := 0; i < k.OpsEach; i++ {
				got := q.GetMessages()
				if i%64 == 0 {
					tick()
				}
				if len(got) > k.Cap {
					bad.Store(fmt.Sprintf("a snapshot holds %d messages, capacity %d", len(got), k.Cap))
					return
				}
				last := map[int]int{}
				for _, m := range got {
					if !sameMsg(m) {
						bad.Store(fmt.Sprintf("a snapshot returned a message as %+v, which is not what was added under its identity %d", m, qid(m)))
						return
					}
					ad := qid(m) / 10000000
					if prev, ok := last[ad]; ok && qid(m) <= prev {
						bad.Store(fmt.Sprintf("a snapshot is not in arrival order: %v", ids(got)))
						return
					}
					last[ad] = qid(m)
				}
			}
		}()
	}
	done := make(chan struct{})
	go func() { wg.Wait(); close(done) }()
	waitOrHang(done, caseWatchdog, "queue adders and snapshot readers in tight loops did not finish")
	if v := bad.Load(); v != nil {
		c.Violate("snapshot-wrong", v.(string), cj)
		return
	}
	c.Count("stress_operations", int64((k.Adders+k.Readers)*k.OpsEach))
}

// execQueueHeldLock: the read lock is held for OpsEach milliseconds while Adds
// additions are made by another goroutine.
func execQueueHeldLock(c *child.Ctx, k queueCase, cj []byte) {
	q := circularQueue.NewCircularQueue(k.Cap)
	for i := 0; i < k.Cap; i++ {
		q.Add(qmsg(i))
	}
	q.RLock()
	added := make(chan struct{})
	go func() {
		for i := 0; i < k.Adds; i++ {
			q.Add(qmsg(k.Cap + i))
			tick()
		}
		close(added)
	}()
	sleepTicking(time.Duration(k.OpsEach) * time.Millisecond)
	q.RUnlock()
	waitOrHang(added, caseWatchdog, "additions did not complete after the read lock was released")
	got := ids(q.GetMessages())
	var want []int
	for i := k.Adds; i < k.Cap+k.Adds; i++ {
		want = append(want, i)
	}
	if fmt.Sprint(got) != fmt.Sprint(want) {
		c.Violate("snapshot-wrong", fmt.Sprintf("capacity %d: %d messages were added while a reader held the read lock for %d ms; afterwards the snapshot is %v, the last %d messages are %v%s", k.Cap, k.Adds, k.OpsEach, got, k.Cap, want, alteredText()), cj)
	}
	c.Count("additions_while_the_read_lock_was_held", int64(k.Adds))
}

func monC18(c *child.Ctx, replay json.RawMessage) {
	if replay != nil {
		var k queueCase
		json.Unmarshal(replay, &k)
		c.Begin(replay)
		switch k.Kind {
		case "seq":
			execQueueSeq(c, k, replay)
		case "long":
			execQueueLong(c, k, replay)
		case "heldlock":
			execQueueHeldLock(c, k, replay)
		case "verylong":
			execQueueVeryLong(c, k, replay)
		case "oldservice":
			execQueueOldService(c, k, replay)
		case "firstadds":
			execQueueFirstAdds(c, k, replay)
		case "sidebyside":
			for i := 0; i < 10 && c.NViolations() == 0; i++ {
				execQueuesSideBySide(c, k, replay)
			}
		case "bigblocks":
			execQueueBigBlocks(c, k, replay)
		case "stress":
			for i := 0; i < 20 && c.NViolations() == 0; i++ {
				execQueueStress(c, k, replay)
			}
		default:
			for i := 0; i < 300 && c.NViolations() == 0; i++ {
				k.Seed += uint64(i)
				execQueueConc(c, k, replay)
			}
		}
		c.Eval(1, true)
		return
	}
	r := ref.NewRand(c.Seed*492876847 + uint64(c.Batch)*512927357 + 18)
	// (1) exhaustive: all operation sequences over {Add, Get} up to a bound, capacities 1..8
	maxLen := c.Pick(14, 18)
	total := 0
	for capN := 1; capN <= 8; capN++ {
		// all sequences of exactly maxLen operations cover all shorter ones as prefixes
		// (every prefix is checked step by step); split the 2^maxLen sequences over the batches
		for v := c.Batch; v < 1<<uint(maxLen); v += c.NBatch {
			ops := make([]byte, maxLen)
			for i := 0; i < maxLen; i++ {
				if v&(1<<uint(i)) != 0 {
					ops[i] = 'A'
				} else {
					ops[i] = 'G'
				}
			}
			k := queueCase{Kind: "seq", Cap: capN, Ops: string(ops)}
			var cj []byte
			if v%4096 == c.Batch {
				cj = c.BeginV(k)
			} else {
				cj, _ = json.Marshal(k)
			}
			execQueueSeq(c, k, cj)
			adds := 0
			for _, o := range ops {
				if o == 'A' {
					adds++
				}
			}
			c.Eval(uint64(capN)<<32|uint64(v), adds > capN)
			total++
		}
	}
	c.Count("sequences_enumerated", int64(total))
	c.SetExhaustive(true)
	// (2) long runs far beyond the capacity, every snapshot checked
	longAdds := c.Pick(100000, 10000000)
	caps := []int{1, 2, 3, 5, 8, 20, 16, 17, 32, 64, 100, 200}
	for i, capN := range caps {
		if i%c.NBatch != c.Batch {
			continue
		}
		k := queueCase{Kind: "long", Cap: capN, Adds: longAdds}
		if capN > 20 {
			k.Adds = 6*capN + c.Pick(2000, 200000) // every snapshot is compared: keep the large capacities affordable
		} else if capN > 8 && c.Thorough() {
			// ten million snapshots of 16 to 20 items under the race detector took a
			// child past its watchdog in the last thorough run (inconclusive): two million
			k.Adds = longAdds / 5
		}
		cj := c.BeginV(k)
		execQueueLong(c, k, cj)
		c.Eval(ref.Hash64(cj), true)
	}
	// (2a) sessions of 2^24 additions and more with capacities that are not powers of
	// two, and capacities of tens of thousands
	very := []queueCase{{Kind: "verylong", Cap: 3, Adds: 1<<24 + 50}, {Kind: "verylong", Cap: 65541, Adds: 65541 + 40}, {Kind: "verylong", Cap: 20, Adds: 1<<24 + 90},
		{Kind: "verylong", Cap: 70001, Adds: 70001 + 12}, {Kind: "verylong", Cap: 7, Adds: 1<<22 + 60}, {Kind: "verylong", Cap: 1<<17 + 3, Adds: 1<<17 + 20}}
	if c.Thorough() {
		very = append(very, queueCase{Kind: "verylong", Cap: 5, Adds: 1<<26 + 40}, queueCase{Kind: "verylong", Cap: 6, Adds: 1<<25 + 40}, queueCase{Kind: "verylong", Cap: 1, Adds: 1<<24 + 9},
			queueCase{Kind: "verylong", Cap: 1<<20 + 1, Adds: 1<<20 + 9}, queueCase{Kind: "verylong", Cap: 12, Adds: 1<<24 + 70}, queueCase{Kind: "verylong", Cap: 65536, Adds: 65536 + 20}, queueCase{Kind: "verylong", Cap: 65537, Adds: 2*65537 + 5})
	}
	for i, k := range very {
		if (2*i+1)%c.NBatch != c.Batch {
			continue
		}
		cj := c.BeginV(k)
		// one goroutine, tens of millions of calls: in a process without the race
		// detector if the driver has built one
		if !runInPlainProcess(c, cj, fmt.Sprintf("a run of %d additions to a queue of capacity %d", k.Adds, k.Cap)) {
			execQueueVeryLong(c, k, cj)
		}
		c.Eval(ref.Hash64(cj), true)
	}
	// (2e) queues long in service, and brand-new queues with simultaneous first additions
	for i, si := range []int64{1<<31 - 5, 1<<32 - 5, 1<<31 - 1, 1<<24 - 3, 1<<16 - 2, 1<<53 - 4, 1<<62 - 9, 1<<15 - 1} {
		if i%c.NBatch != c.Batch {
			continue
		}
		for _, capN := range []int{1, 3, 8, 20} {
			k := queueCase{Kind: "oldservice", Cap: capN, Adds: 60, StartIndex: si}
			cj := c.BeginV(k)
			execQueueOldService(c, k, cj)
			c.Eval(ref.Hash64(cj), true)
		}
	}
	{
		k := queueCase{Kind: "firstadds", Cap: []int{3, 4, 8, 20}[r.Intn(4)], Adders: 2 + c.Batch%2, Adds: c.Pick(6000, 24000)}
		cj := c.BeginV(k)
		execQueueFirstAdds(c, k, cj)
		c.Eval(ref.Hash64(cj), true)
	}
	// (2c) several queues at the same time, one goroutine each
	for i := 0; i < c.Pick(3, 12); i++ {
		k := queueCase{Kind: "sidebyside", Cap: []int{1, 3, 8, 20}[r.Intn(4)], Adders: r.Range(2, 6), Adds: c.Pick(3000, 20000)}
		cj := c.BeginV(k)
		execQueuesSideBySide(c, k, cj)
		c.Eval(ref.Hash64(cj, []byte{byte(i)}), true)
	}
	// (2d) small messages that pin large buffers, 8 MiB to 48 MiB each
	if c.Batch%2 == 0 {
		k := queueCase{Kind: "bigblocks", Cap: []int{4, 8, 20}[r.Intn(3)], Adds: 60, OpsEach: []int{8 << 20, 24 << 20, 48 << 20}[r.Intn(3)]}
		cj := c.BeginV(k)
		execQueueBigBlocks(c, k, cj)
		c.Eval(ref.Hash64(cj), true)
	}
	// (2b) a reader that holds the queue's (exported) read lock for a while - a report
	// being rendered - while messages arrive: they wait, and none is lost
	for si, hold := range timedStalls(c) {
		if si%c.NBatch != c.Batch {
			continue
		}
		k := queueCase{Kind: "heldlock", Cap: []int{3, 8, 20}[r.Intn(3)], Adds: r.Range(2, 6), OpsEach: int(hold.Milliseconds())}
		cj := c.BeginV(k)
		execQueueHeldLock(c, k, cj)
		c.Eval(ref.Hash64(cj), true)
	}
	// (3) tight-loop stress
	ns := c.Share(c.Pick(24, 800))
	for i := 0; i < ns; i++ {
		k := queueCase{Kind: "stress", Cap: []int{1, 3, 20}[r.Intn(3)], Adders: r.Range(1, 2), Readers: r.Range(1, 3), OpsEach: 20000, Procs: []int{4, 16}[r.Intn(2)]}
		cj := c.BeginV(k)
		execQueueStress(c, k, cj)
		c.Eval(ref.Hash64(cj, []byte{byte(i)}), true)
	}
	// (4) concurrent histories
	n := c.Share(c.Pick(6000, 120000))
	for i := 0; i < n; i++ {
		k := queueCase{Kind: "conc", Cap: []int{1, 2, 3, 8}[r.Intn(4)], Adders: r.Range(1, 3), Readers: r.Range(1, 3), OpsEach: r.Range(10, 30),
			Procs: []int{2, 16, 4}[r.Intn(3)], Seed: r.Uint64() >> 1}
		cj := c.BeginV(k)
		execQueueConc(c, k, cj)
		c.Eval(ref.Hash64(cj), k.Adders+k.Readers >= 2)
		if c.WantSample() && k.Adders >= 2 {
			c.Sample(k)
		}
	}
}
