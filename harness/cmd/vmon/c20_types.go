package main

import (
	"bytes"
	"encoding/json"
	"fmt"
	"log/slog"
	"os"
	"os/exec"
	"strings"
	"time"

	"github.com/goblimey/go-ntrip/rtcm/handler"
	"github.com/goblimey/go-ntrip/rtcm/header"
	"github.com/goblimey/go-ntrip/rtcm/type1005"
	"github.com/goblimey/go-ntrip/rtcm/type1006"
	msm4msg "github.com/goblimey/go-ntrip/rtcm/type_msm4/message"
	msm7msg "github.com/goblimey/go-ntrip/rtcm/type_msm7/message"
	"github.com/goblimey/go-ntrip/rtcm/utils"

	"verifharness/child"
	"verifharness/gen"
	"verifharness/ref"
)

func init() { monitors["C20"] = monC20 }

// The table below is written out from the statement of C20, not from the code.
var c20MSM4 = map[int]string{1074: "GPS", 1084: "Glonass", 1094: "Galileo", 1104: "SBAS", 1114: "QZSS", 1124: "Beidou", 1134: "NavIC/IRNSS"}
var c20MSM7 = map[int]string{1077: "GPS", 1087: "Glonass", 1097: "Galileo", 1107: "SBAS", 1117: "QZSS", 1127: "Beidou", 1137: "NavIC/IRNSS"}
var c20Names = map[string]bool{"GPS": true, "Glonass": true, "Galileo": true, "SBAS": true, "QZSS": true, "Beidou": true, "NavIC/IRNSS": true}

type typeCase struct {
	// NoTZ: not one type but the whole table of predicates, names and decoder families,
	// in a process that has no time zone database (a container built from scratch)
	NoTZ bool   `json:"without_time_zone_database,omitempty"`
	Type int    `json:"type"`
	Body string `json:"body"` // msm4 | msm7 | 1005 | 1006 | random
	Hex  string `json:"payload_hex"`
}

func execC20Type(c *child.Ctx, t int, r *ref.SplitMix64, extraBodies int) {
	_, is4 := c20MSM4[t]
	_, is7 := c20MSM7[t]
	viol := func(sig, detail string, k typeCase) {
		b, _ := json.Marshal(k)
		c.Violate(sig, detail, b)
	}
	kk := typeCase{Type: t}
	// predicates
	if utils.MSM4(t) != is4 {
		viol("predicate", fmt.Sprintf("MSM4(%d) = %v", t, utils.MSM4(t)), kk)
	}
	if utils.MSM7(t) != is7 {
		viol("predicate", fmt.Sprintf("MSM7(%d) = %v", t, utils.MSM7(t)), kk)
	}
	if utils.MSM(t) != (is4 || is7) {
		viol("predicate", fmt.Sprintf("MSM(%d) = %v", t, utils.MSM(t)), kk)
	}
	name := utils.GetConstellation(t)
	switch {
	case is4 && name != c20MSM4[t], is7 && name != c20MSM7[t]:
		viol("constellation", fmt.Sprintf("GetConstellation(%d) = %q", t, name), kk)
	case !is4 && !is7 && c20Names[name]:
		viol("constellation", fmt.Sprintf("GetConstellation(%d) = %q for a type that is not an MSM4/MSM7", t, name), kk)
	}
	tc := utils.GetTitleAndComment(t)
	if tc == nil || len(tc.Title) == 0 {
		viol("title", fmt.Sprintf("type %d has no title", t), kk)
	}
	c.Count("predicate_checks", 5)
	if t < 0 {
		// the sentinels have no frame; they must still display - also when what they hold
		// is the first few bytes of something that looked like a frame
		var raws [][]byte
		raws = append(raws, []byte("$GPGGA junk"), nil)
		begin := []byte{0xd3, 0x00, 0x13, 0x3e, 0xd0, 0x00, 0x03, 0x8a, 0x00}
		for n := 1; n <= len(begin); n++ {
			raws = append(raws, begin[:n])
		}
		for _, raw := range raws {
			for _, lvl := range []slog.Level{slog.LevelInfo, slog.LevelDebug} {
				m := handler.Message{MessageType: t, RawData: raw, LogLevel: lvl}
				func() {
					defer func() {
						if rr := recover(); rr != nil {
							viol("display", fmt.Sprintf("display of a type %d message holding the %d bytes % x panicked: %v", t, len(raw), raw, rr), kk)
						}
					}()
					if len(m.String()) == 0 {
						viol("display", fmt.Sprintf("display of sentinel type %d is empty", t), kk)
					}
				}()
			}
		}
		for _, lvl := range []slog.Level{slog.LevelInfo, slog.LevelDebug} {
			m := handler.Message{MessageType: t, RawData: []byte("$GPGGA junk"), LogLevel: lvl}
			func() {
				defer func() {
					if rr := recover(); rr != nil {
						viol("display", fmt.Sprintf("display of sentinel type %d panicked: %v", t, rr), kk)
					}
				}()
				if len(m.String()) == 0 {
					viol("display", fmt.Sprintf("display of sentinel type %d is empty", t), kk)
				}
			}()
		}
		return
	}

	// what single-frame decoding returns for the five bytes "leader with a zero length
	// field + this type" can be displayed too, at both levels
	for _, lvl := range []slog.Level{slog.LevelInfo, slog.LevelDebug} {
		func() {
			defer func() {
				if rr := recover(); rr != nil {
					viol("display", fmt.Sprintf("type %d: decoding or displaying the 5 bytes d3 00 00 %02x %02x panicked: %v", t, byte(t>>4), byte(t<<4), rr), kk)
				}
			}()
			for _, raw := range [][]byte{{0xd3, 0, 0, byte(t >> 4), byte(t << 4)}, {0xd3, 0, 0, byte(t >> 4), byte(t<<4) | 0x0f, 0xff}} {
				h := handler.New(fixedStart, lvl)
				if m, _ := h.GetMessage(raw); m != nil {
					if len(m.String()) == 0 {
						viol("display", fmt.Sprintf("type %d: display of what GetMessage returns for % x is empty", t, raw), kk)
					}
					mc := *m
					mc.MessageType = t // the same bytes labelled with the type, as a caller might
					_ = mc.String()
				}
			}
		}()
	}
	// synthetic CRC-valid frames of this type with bodies of each decodable layout
	bodies := []string{"msm4", "msm7", "1005", "1006", "random", "len7", "len8", "msm4-continued-empty", "msm7-continued-empty"}
	if is4 || is7 || t == 1005 || t == 1006 {
		// long messages of the decodable types: lengths in every band of 256
		bodies = append(bodies, "long-256", "long-512", "long-768", "long-1000")
	}
	for i := 0; i < extraBodies; i++ {
		bodies = append(bodies, []string{"msm4", "msm7", "random", "random"}[i%4])
	}
	for _, body := range bodies {
		var payload []byte
		var ts uint
		switch body {
		case "msm4", "msm7":
			m := gen.RandMSM(r, gen.MSMOpts{Type: 1074})
			m.Type = t
			// a legal, non-zero timestamp for whatever constellation t belongs to
			if ref.ConstellationOf(t) == "Glonass" {
				m.Timestamp = uint(r.Range(1, 6))<<27 | uint(r.Range(1, 86399999))
			} else {
				m.Timestamp = uint(r.Range(1, 604799999))
			}
			ts = m.Timestamp
			payload = ref.EncodeMSMAs(m, body == "msm7")
		case "msm4-continued-empty", "msm7-continued-empty":
			// a continued message (multiple-message flag set) that carries no signal cell:
			// satellites and signals announced, or not, and an all-clear cell mask
			ns, ng := r.Range(0, 3), r.Range(0, 3)
			m := &ref.MSM{Type: t, StationID: uint(r.Intn(4096)), Multiple: true, CellsSent: -1, PadBytes: r.Intn(3)}
			for i := 0; i < ns; i++ {
				m.SatMask |= uint64(1) << uint(63-2*i)
				m.Sats = append(m.Sats, ref.Sat{Whole: uint(r.Intn(255)), Frac: uint(r.Intn(1024))})
			}
			for i := 0; i < ng; i++ {
				m.SigMask |= uint32(1) << uint(30-3*i)
			}
			m.CellMask = make([]bool, ns*ng)
			if ref.ConstellationOf(t) == "Glonass" {
				m.Timestamp = uint(r.Range(1, 6))<<27 | uint(r.Range(1, 86399999))
			} else {
				m.Timestamp = uint(r.Range(1, 604799999))
			}
			ts = m.Timestamp
			payload = ref.EncodeMSMAs(m, body == "msm7-continued-empty")
		case "long-256", "long-512", "long-768", "long-1000":
			target := map[string]int{"long-256": 256, "long-512": 512, "long-768": 768, "long-1000": 1000}[body] + r.Intn(24)
			if is4 || is7 {
				m := gen.RandMSM(r, gen.MSMOpts{Type: t})
				if ref.ConstellationOf(t) == "Glonass" {
					m.Timestamp = uint(r.Range(1, 6))<<27 | uint(r.Range(1, 86399999))
				} else {
					m.Timestamp = uint(r.Range(1, 604799999))
				}
				m.PadBytes = 0
				if n := len(ref.EncodeMSM(m)); n < target {
					m.PadBytes = target - n
				}
				ts = m.Timestamp
				payload = ref.EncodeMSM(m)
			} else {
				b := gen.RandBase(r, t)
				b.Trailing = make([]byte, target-19-2*(t-1005))
				payload = ref.EncodeBase(b, t)
			}
		case "1005", "1006":
			bt := 1005
			if body == "1006" {
				bt = 1006
			}
			payload = ref.EncodeBase(gen.RandBase(r, bt), t)
		case "len7", "len8":
			// the shortest messages that can hold a timestamp
			n := 7
			if body == "len8" {
				n = 8
			}
			payload = append([]byte{byte(t >> 4), byte(t<<4) | byte(r.Intn(16))}, r.Bytes(n-2)...)
			// a legal non-zero timestamp in bits 24..53
			var w ref.BitWriter
			w.Put(uint64(t), 12)
			w.Put(uint64(r.Intn(4096)), 12)
			tsv := uint(r.Range(1, 604799999))
			if ref.ConstellationOf(t) == "Glonass" {
				tsv = uint(r.Range(1, 6))<<27 | uint(r.Range(1, 86399999))
			}
			w.Put(uint64(tsv), 30)
			w.Put(uint64(r.Intn(1024)), uint(n*8-54))
			payload = w.Bytes()
			ts = tsv
		default:
			payload = append([]byte{byte(t >> 4), byte(t<<4) | byte(r.Intn(16))}, r.Bytes(2+r.Intn(30))...)
		}
		if len(payload) > 1023 {
			continue
		}
		frame := ref.Frame(payload)
		k := typeCase{Type: t, Body: body, Hex: hexs(payload)}
		cj, _ := json.Marshal(k)
		c.Begin(cj)
		func() {
			defer func() {
				if rr := recover(); rr != nil {
					c.Violate("panic", fmt.Sprintf("type %d with %s body: %v", t, body, rr), cj)
				}
			}()
			// decoder families
			if body == "msm4" || body == "msm7" {
				_, _, herr := header.GetMSMHeader(frame, slog.LevelInfo)
				if (herr == nil) != (is4 || is7) {
					c.Violate("header-family", fmt.Sprintf("GetMSMHeader on a type %d frame with a well-formed %s body: error %v", t, body, herr), cj)
				}
			} else if !(is4 || is7) {
				if _, _, herr := header.GetMSMHeader(frame, slog.LevelInfo); herr == nil {
					c.Violate("header-family", fmt.Sprintf("GetMSMHeader accepted type %d", t), cj)
				}
			}
			if body == "msm4" {
				dm, err := msm4msg.GetMessage(frame, slog.LevelInfo)
				if (err == nil) != is4 {
					c.Violate("decoder-family", fmt.Sprintf("MSM4 decoder on type %d with a well-formed MSM4 body: error %v", t, err), cj)
				}
				// the decoded message says the same about its type and constellation as the tables
				if err == nil && is4 && dm != nil && dm.Header != nil && (dm.Header.Constellation != c20MSM4[t] || int(dm.Header.MessageType) != t) {
					c.Violate("constellation", fmt.Sprintf("a decoded type %d message says it is type %d of constellation %q; GetConstellation says %q", t, dm.Header.MessageType, dm.Header.Constellation, utils.GetConstellation(t)), cj)
				}
			}
			if body == "msm7" {
				dm, err := msm7msg.GetMessage(frame, slog.LevelInfo)
				if (err == nil) != is7 {
					c.Violate("decoder-family", fmt.Sprintf("MSM7 decoder on type %d with a well-formed MSM7 body: error %v", t, err), cj)
				}
				if err == nil && is7 && dm != nil && dm.Header != nil && (dm.Header.Constellation != c20MSM7[t] || int(dm.Header.MessageType) != t) {
					c.Violate("constellation", fmt.Sprintf("a decoded type %d message says it is type %d of constellation %q; GetConstellation says %q", t, dm.Header.MessageType, dm.Header.Constellation, utils.GetConstellation(t)), cj)
				}
			}
			if body == "msm4-continued-empty" || body == "msm7-continued-empty" {
				// whether its own family takes such a message is not fixed by the property
				// (the decoder wants a cell in a continued message); the other family and
				// every other type must not
				if _, err := msm4msg.GetMessage(frame, slog.LevelInfo); err == nil && !is4 {
					c.Violate("decoder-family", fmt.Sprintf("the MSM4 decoder accepted a type %d frame (a continued message without signal cells)", t), cj)
				}
				if _, err := msm7msg.GetMessage(frame, slog.LevelInfo); err == nil && !is7 {
					c.Violate("decoder-family", fmt.Sprintf("the MSM7 decoder accepted a type %d frame (a continued message without signal cells)", t), cj)
				}
			}
			if strings.HasPrefix(body, "long-") {
				var err error
				switch {
				case is4:
					_, err = msm4msg.GetMessage(frame, slog.LevelInfo)
				case is7:
					_, err = msm7msg.GetMessage(frame, slog.LevelInfo)
				case t == 1005:
					_, err = type1005.GetMessage(frame, slog.LevelInfo)
				default:
					_, err = type1006.GetMessage(frame, slog.LevelInfo)
				}
				if err != nil {
					c.Violate("decoder-family", fmt.Sprintf("type %d: its own decoder rejects a well-formed message of %d bytes: %v", t, len(payload), err), cj)
				}
			}
			if body == "1005" {
				_, err := type1005.GetMessage(frame, slog.LevelInfo)
				if (err == nil) != (t == 1005) {
					c.Violate("decoder-family", fmt.Sprintf("1005 decoder on type %d with a 1005 body: error %v", t, err), cj)
				}
			}
			if body == "1006" {
				_, err := type1006.GetMessage(frame, slog.LevelInfo)
				if (err == nil) != (t == 1006) {
					c.Violate("decoder-family", fmt.Sprintf("1006 decoder on type %d with a 1006 body: error %v", t, err), cj)
				}
			}
			c.Count("decoder_family_checks", 1)

			// the handler: timestamp extraction and dispatch of full decoding - whatever
			// the handler's log level is (Info, Debug, a trace level, Warn, Error)
			for _, lvl := range []slog.Level{slog.LevelInfo, slog.LevelDebug, slog.LevelWarn, slog.LevelError, slog.LevelDebug - 4} {
				h := handler.New(fixedStart, lvl)
				m, _ := h.GetMessage(frame)
				if m == nil || m.MessageType != t {
					c.Violate("framing", fmt.Sprintf("GetMessage did not return a type %d message for a CRC-valid frame", t), cj)
					return
				}
				hasTime := m.Timestamp != 0 || m.SentAt != "" || m.StartOfWeek != ""
				if is4 || is7 {
					if (body == "msm4" || body == "msm7" || body == "len7" || body == "len8" || strings.HasSuffix(body, "-continued-empty") || strings.HasPrefix(body, "long-")) && (m.Timestamp != ts || m.SentAt == "") {
						c.Violate("timestamp", fmt.Sprintf("type %d: extracted timestamp %d (SentAt %q), encoded %d", t, m.Timestamp, m.SentAt, ts), cj)
					}
				} else if hasTime {
					c.Violate("timestamp", fmt.Sprintf("type %d is not an MSM4/MSM7 but carries Timestamp=%d SentAt=%q StartOfWeek=%q", t, m.Timestamp, m.SentAt, m.StartOfWeek), cj)
				}
				errBefore := m.ErrorMessage
				// the display path decides the same way as a direct Analyse call
				m2cp := *m
				viaDisplay := handler.PrepareForDisplay(&m2cp)
				handler.Analyse(m)
				if (viaDisplay == nil) != (m.Readable == nil) || fmt.Sprintf("%T", viaDisplay) != fmt.Sprintf("%T", m.Readable) {
					c.Violate("dispatch", fmt.Sprintf("type %d with %s body: PrepareForDisplay produced %T but Analyse produced %T (error before %q)", t, body, viaDisplay, m.Readable, errBefore), cj)
				}
				attempted := false
				switch m.Readable.(type) {
				case *msm4msg.Message, *msm7msg.Message, *type1005.Message, *type1006.Message:
					attempted = true
				case nil:
					// a decoder was called and failed: it left an error text
					attempted = m.ErrorMessage != errBefore && m.ErrorMessage != ""
				}
				wantAttempt := is4 || is7 || t == 1005 || t == 1006
				if attempted != wantAttempt {
					c.Violate("dispatch", fmt.Sprintf("type %d with %s body: full decoding attempted=%v (Readable %T, error %q)", t, body, attempted, m.Readable, m.ErrorMessage), cj)
				}
				// matching well-formed body: the right family must have produced the struct
				okStruct := true
				switch {
				case is4 && body == "msm4":
					_, okStruct = m.Readable.(*msm4msg.Message)
				case is7 && body == "msm7":
					_, okStruct = m.Readable.(*msm7msg.Message)
				case t == 1005 && body == "1005":
					_, okStruct = m.Readable.(*type1005.Message)
				case t == 1006 && body == "1006":
					_, okStruct = m.Readable.(*type1006.Message)
				}
				if !okStruct {
					c.Violate("dispatch", fmt.Sprintf("type %d with its own well-formed body decoded to %T (error %q)", t, m.Readable, m.ErrorMessage), cj)
				}
				if len(m.String()) == 0 {
					c.Violate("display", fmt.Sprintf("display of type %d is empty", t), cj)
				}
				// a copy taken from a message that has been displayed is decoded (or not) and
				// displayed like a copy taken before
				{
					h2 := handler.New(fixedStart, lvl)
					fresh, _ := h2.GetMessage(frame)
					if fresh != nil {
						early := fresh.Copy()
						early.LogLevel = lvl
						_ = fresh.String()
						late := fresh.Copy()
						late.LogLevel = lvl
						te, tl := early.String(), late.String()
						if te != tl || fmt.Sprintf("%T", early.Readable) != fmt.Sprintf("%T", late.Readable) {
							c.Violate("dispatch", fmt.Sprintf("type %d with %s body: a copy taken after the message was displayed decodes to %T and displays %d bytes, a copy taken before decodes to %T and displays %d bytes", t, body, late.Readable, len(tl), early.Readable, len(te)), cj)
						}
					}
				}
				c.Count("handler_dispatch_checks", 1)
			}
		}()
	}
}

// execC20Stream: the same classification through the stream handler, where a message
// follows others: after an MSM with a timestamp come other data, a frame of type t
// and a cut-off frame; only MSM4/MSM7 messages may carry a timestamp.
func execC20Stream(c *child.Ctx, t int, r *ref.SplitMix64) {
	if t < 0 {
		return
	}
	cj, _ := json.Marshal(typeCase{Type: t})
	mt := []int{1074, 1077, 1084, 1087, 1094, 1097, 1124, 1127}[r.Intn(8)]
	ts := uint(r.Range(1, 80000000))
	first := timeFrame(r, mt, ts)
	body := r.Bytes(r.Range(10, 40))
	body[0], body[1] = byte(t>>4), byte(t<<4)|body[1]&0x0f
	frame := ref.Frame(body)
	var in []byte
	in = append(in, first...)
	repeats := 0
	if r.Chance(1, 2) {
		// a multi-message epoch: the same type with the same timestamp again
		repeats = r.Range(1, 3)
		for j := 0; j < repeats; j++ {
			if r.Chance(1, 2) {
				in = append(in, first...)
			} else {
				in = append(in, timeFrame(r, mt, ts)...)
			}
		}
	}
	if r.Chance(2, 3) {
		in = append(in, gen.Junk(r).Bytes...)
	}
	in = append(in, frame...)
	if r.Chance(1, 2) {
		// an MSM frame that arrives damaged (its CRC does not match): other data, which
		// carries no time
		bad := timeFrame(r, mt, ts+1000)
		bad[len(bad)-1-r.Intn(3)] ^= 1 << uint(r.Intn(8))
		hasD3 := false
		for _, b := range bad[1:] {
			hasD3 = hasD3 || b == 0xd3
		}
		if !hasD3 {
			in = append(in, bad...)
		}
	}
	in = append(in, gen.Junk(r).Bytes...)
	in = append(in, first[:r.Range(1, len(first)-1)]...)
	defer func() {
		if rr := recover(); rr != nil {
			c.Violate("panic", fmt.Sprintf("panic while a stream with a type %d frame was processed: %v", t, rr), cj)
		}
	}()
	msgs := runSequential(fixedStart, slog.LevelInfo, in)
	sawT := false
	for i := range msgs {
		mm := &msgs[i]
		_, is4 := c20MSM4[mm.MessageType]
		_, is7 := c20MSM7[mm.MessageType]
		if mm.MessageType == t {
			sawT = true
		}
		// the type a delivered message is labelled with is the type its own bytes say
		// (looked at now, after the whole stream has been read)
		if mm.MessageType >= 0 && (!ref.IsFrame(mm.RawData) || ref.TypeOf(mm.RawData) != mm.MessageType) {
			c.Violate("framing", fmt.Sprintf("in a stream, delivery %d is labelled type %d but, once the stream has been read, holds the bytes %s", i, mm.MessageType, clip(hexs(mm.RawData))), cj)
			return
		}
		if i <= repeats && (mm.MessageType != mt || mm.Timestamp != ts || mm.SentAt == "" || mm.StartOfWeek == "") {
			c.Violate("timestamp", fmt.Sprintf("in a stream, delivery %d of %d consecutive type %d messages with timestamp %d carries type %d, Timestamp=%d SentAt=%q StartOfWeek=%q",
				i, repeats+1, mt, ts, mm.MessageType, mm.Timestamp, mm.SentAt, mm.StartOfWeek), cj)
			return
		}
		if !is4 && !is7 && (mm.Timestamp != 0 || mm.SentAt != "" || mm.StartOfWeek != "") {
			c.Violate("timestamp", fmt.Sprintf("in a stream, delivery %d (type %d, %d bytes, after a type %d message with timestamp %d) is not an MSM4/MSM7 but carries Timestamp=%d SentAt=%q StartOfWeek=%q",
				i, mm.MessageType, len(mm.RawData), mt, ts, mm.Timestamp, mm.SentAt, mm.StartOfWeek), cj)
			return
		}
	}
	if !sawT {
		c.Violate("framing", fmt.Sprintf("the stream handler did not deliver the type %d frame as that type", t), cj)
		return
	}
	if t >= 0 && (t%400 == 77 || t == 1005 || t == 1077) {
		// the same frame arriving slowly: a third of a second of silence in the middle of
		// it.  What type a frame has does not depend on how fast it arrives.
		slow := runTimed(frame, map[int]time.Duration{len(frame) / 2: 320 * time.Millisecond}, 0)
		if len(slow) != 1 || slow[0].MessageType != t || !bytes.Equal(slow[0].RawData, frame) {
			c.Violate("framing", fmt.Sprintf("a type %d frame that arrives with 320 ms of silence in the middle is delivered as%s; single-frame decoding of the same bytes says type %d", t, describeMsgs(slow, 4), t), cj)
			return
		}
		c.Count("frames_classified_while_arriving_slowly", 1)
	}
	c.Count("stream_classifications_checked", 1)
}

// execC20NoTZ runs in a process whose mount namespace has an empty /usr/share/zoneinfo
// (see monC20).  Which types are MSM4 and MSM7, what their constellations are called
// and which decoder accepts them has nothing to do with time zones.
func execC20NoTZ(c *child.Ctx, cj []byte) {
	if _, err := time.LoadLocation("Europe/Paris"); err == nil {
		fmt.Println("WRAPPER-UNAVAILABLE the time zone database is still there")
		return
	}
	for t := -2; t <= 4095; t++ {
		_, is4 := c20MSM4[t]
		_, is7 := c20MSM7[t]
		func() {
			defer func() {
				if rr := recover(); rr != nil {
					c.Violate("predicate", fmt.Sprintf("without a time zone database: classifying type %d panicked: %v", t, rr), cj)
				}
			}()
			if utils.MSM4(t) != is4 || utils.MSM7(t) != is7 || utils.MSM(t) != (is4 || is7) {
				c.Violate("predicate", fmt.Sprintf("in a process without a time zone database MSM4(%d)=%v MSM7(%d)=%v MSM(%d)=%v", t, utils.MSM4(t), t, utils.MSM7(t), t, utils.MSM(t)), cj)
			}
			name := utils.GetConstellation(t)
			if is4 && name != c20MSM4[t] || is7 && name != c20MSM7[t] || !is4 && !is7 && c20Names[name] {
				c.Violate("constellation", fmt.Sprintf("in a process without a time zone database GetConstellation(%d) = %q", t, name), cj)
			}
			if tc := utils.GetTitleAndComment(t); tc == nil || len(tc.Title) == 0 {
				c.Violate("title", fmt.Sprintf("in a process without a time zone database type %d has no title", t), cj)
			}
		}()
		if c.NViolations() > 0 {
			return
		}
	}
	c.Count("types_classified_without_a_time_zone_database", 4098)
}

func monC20(c *child.Ctx, replay json.RawMessage) {
	r := ref.NewRand(c.Seed*295075147 + uint64(c.Batch)*314606869 + 20)
	if replay != nil {
		var k typeCase
		json.Unmarshal(replay, &k)
		c.Begin(replay)
		if k.NoTZ {
			if os.Getenv("VMON_SUBCASE") != "" {
				execC20NoTZ(c, replay)
			} else {
				c20RunWithoutTZ(c)
			}
			return
		}
		for i := 0; i < 20; i++ {
			execC20Type(c, k.Type, r, 8)
			execC20Stream(c, k.Type, r)
		}
		c.Eval(1, true)
		return
	}
	if c.Batch == 0 {
		c20RunWithoutTZ(c)
	}
	extra := c.Pick(0, 64)
	n := 0
	for t := -2; t <= 4095; t++ {
		if (t+2)%c.NBatch != c.Batch {
			continue
		}
		execC20Type(c, t, r, extra)
		execC20Stream(c, t, r)
		_, is4 := c20MSM4[t]
		_, is7 := c20MSM7[t]
		near := t >= 1070 && t <= 1140
		c.Eval(uint64(t+10), is4 || is7 || near || t == 1005 || t == 1006 || t == 1230 || t < 0)
		n++
	}
	c.Count("types_enumerated", int64(n))
	c.SetExhaustive(true)
	if c.Batch == 0 {
		c.Sample(map[string]interface{}{"type": 1074, "bodies": []string{"msm4", "msm7", "1005", "1006", "random"}, "checks": "predicates, constellation, title, header family, decoder family, timestamp extraction, Analyse dispatch, display at both levels"})
	}
}

// c20RunWithoutTZ re-runs the table of classifications in a process of this monitor
// that is started in a mount namespace of its own with an empty file system mounted
// over /usr/share/zoneinfo (unshare -m; needs the privilege to do so - if it is not
// there the case is counted as unavailable, not as held).
func c20RunWithoutTZ(c *child.Ctx) {
	cj, _ := json.Marshal(typeCase{NoTZ: true})
	wrapper := []string{"sh", "-c", `unshare -m true 2>/dev/null || { echo WRAPPER-UNAVAILABLE no mount namespace of our own; exit 0; }
exec unshare -m sh -c 'mount -t tmpfs none /usr/share/zoneinfo 2>/dev/null || { echo WRAPPER-UNAVAILABLE cannot hide the time zone database; exit 0; }; unset ZONEINFO; exec "$0" "$@"' "$0" "$@"`}
	if _, err := exec.LookPath("unshare"); err != nil || !runInSubProcess(c, wrapper, os.Args[0], cj, "the table of classifications in a process without a time zone database") {
		c.Count("process_without_a_time_zone_database_unavailable", 1)
	}
}
