package main

import (
	"bufio"
	"bytes"
	"encoding/json"
	"fmt"
	"io"
	"log/slog"
	"os"
	"path/filepath"
	"regexp"
	"strings"
	"sync"
	"sync/atomic"
	"time"

	"github.com/goblimey/go-ntrip/apps/appcore"
	filehandler "github.com/goblimey/go-ntrip/file_handler"
	"github.com/goblimey/go-ntrip/jsonconfig"
	"github.com/goblimey/go-ntrip/rtcm/handler"
	"github.com/goblimey/go-ntrip/rtcm/utils"

	"verifharness/child"
	"verifharness/gen"
	"verifharness/ref"
)

func init() {
	monitors["C06"] = func(c *child.Ctx, rp json.RawMessage) { monTime(c, rp, false) }
	monitors["C17"] = func(c *child.Ctx, rp json.RawMessage) { monTime(c, rp, true) }
}

// timeMsg is one message of a history: either a valid observation at the true UTC
// instant TrueMs, or a message carrying an illegal timestamp.
type timeMsg struct {
	Type    int   `json:"type"`
	TrueMs  int64 `json:"true_unix_ms"`
	Illegal bool  `json:"illegal,omitempty"`
	TS      uint  `json:"timestamp"`
	// Short > 0: a CRC-valid frame of this MSM type whose payload has only this many
	// bytes (2..6: too few for the 30-bit timestamp, which ends in the seventh).  It
	// carries no time; it must come out as one message and leave the times alone.
	Short int `json:"short_payload_bytes,omitempty"`
}

type timeCase struct {
	StartMs   int64  `json:"start_unix_ms"`
	Zone      string `json:"zone"`
	ViaStream bool   `json:"via_stream"`
	Debug     bool   `json:"debug"`
	// Split > 0: the first Split messages go through one HandleMessages call, the rest
	// through a second HandleMessages call (or through GetMessage) on the SAME handler
	Split      int  `json:"split,omitempty"`
	RestFrames bool `json:"rest_via_getmessage,omitempty"`
	StartNs    int  `json:"start_extra_ns,omitempty"` // sub-millisecond part of the start time
	// ViaFile: the recorded bytes go through the file handler (the way the applications
	// read them), with this end-of-file tolerance in its configuration (0 = none)
	ViaFile   bool `json:"via_file_handler,omitempty"`
	FileTolMs uint `json:"file_handler_eof_tolerance_ms,omitempty"`
	// the source takes this long to supply its first byte (a serial line opened before
	// the device sends): the start time is the one that was given, not a later one
	FirstByteDelayMs int       `json:"first_byte_after_ms,omitempty"`
	Msgs             []timeMsg `json:"msgs"`
	// ViaAppCore: the recording goes through the applications' common core (reader ->
	// file handler -> fan-out), AFTER an earlier recording with its own start time
	// (another week, another year) has gone through the same AppCore object: a program
	// that reconnects, a viewer that is given one file after another
	ViaAppCore     bool      `json:"via_appcore,omitempty"`
	EarlierStartMs int64     `json:"earlier_recording_start_unix_ms,omitempty"`
	EarlierMsgs    []timeMsg `json:"earlier_recording_msgs,omitempty"`
}

func zoneOf(name string) *time.Location {
	switch name {
	case "UTC":
		return time.UTC
	case "London":
		if utils.LocationLondon != nil {
			return utils.LocationLondon
		}
		return time.FixedZone("london-no-tz-database", 3600)
	case "Paris":
		if utils.LocationParis != nil {
			return utils.LocationParis
		}
		return time.FixedZone("paris-no-tz-database", 2*3600)
	case "Moscow":
		if utils.LocationMoscow != nil {
			return utils.LocationMoscow
		}
		return time.FixedZone("moscow-no-tz-database", 3*3600)
	case "+14":
		return time.FixedZone("plus14", 14*3600)
	case "-12":
		return time.FixedZone("minus12", -12*3600)
	case "+0545":
		return time.FixedZone("nepal", 5*3600+45*60)
	}
	return time.UTC
}

var zoneNames = []string{"UTC", "London", "Paris", "Moscow", "+14", "-12", "+0545"}

func timeFrame(r *ref.SplitMix64, t int, ts uint) []byte {
	m := gen.RandMSM(r, gen.MSMOpts{Type: t, FixTimestamp: true, Timestamp: ts})
	// keep the messages small: the subject here is the header's timestamp
	if len(m.Sats) > 3 {
		m = &ref.MSM{Type: t, StationID: m.StationID, Timestamp: ts, SatMask: uint64(1) << 63, SigMask: uint32(1) << 30, CellMask: []bool{true},
			Sats: []ref.Sat{{Whole: 70, Frac: 100}}, Sigs: []ref.Sig{{RangeDelta: 5, PhaseDelta: -7, Lock: 3, CNR: 40}}, CellsSent: -1}
	}
	return ref.Frame(ref.EncodeMSM(m))
}

// parseReported extracts the instant from "Time <layout>" / "Start of <c> week <layout>[ plus ...]".
func parseReported(s, prefix string) (time.Time, error) {
	if !strings.HasPrefix(s, prefix) {
		return time.Time{}, fmt.Errorf("text %q does not start with %q", s, prefix)
	}
	rest := s[len(prefix):]
	if i := strings.Index(rest, " plus "); i >= 0 {
		rest = rest[:i]
	}
	t, err := time.Parse(utils.DateLayout, rest)
	if err != nil {
		return time.Time{}, fmt.Errorf("cannot read a time from %q", s)
	}
	if _, off := t.Zone(); off != 0 {
		return time.Time{}, fmt.Errorf("%q is not a UTC time", s)
	}
	return t, nil
}

func execTime(c *child.Ctx, k timeCase, cj []byte, sigPrefix string) {
	start := time.UnixMilli(k.StartMs).Add(time.Duration(k.StartNs)).In(zoneOf(k.Zone))
	lvl := slog.LevelInfo
	if k.Debug {
		lvl = slog.LevelDebug
	}
	r := ref.NewRand(uint64(k.StartMs) ^ 0x5555)
	frames := make([][]byte, len(k.Msgs))
	for i, m := range k.Msgs {
		frames[i] = timeFrame(r, m.Type, m.TS)
		if m.Short > 0 {
			frames[i] = ref.Frame(frames[i][3 : 3+m.Short])
		}
	}
	type got struct {
		msg *handler.Message
		err error
	}
	gots := make([]got, 0, len(k.Msgs))
	panicked := ""
	func() {
		defer func() {
			if rr := recover(); rr != nil {
				panicked = fmt.Sprint(rr)
			}
		}()
		if k.Split > 0 && k.Split < len(frames) {
			// one handler, the session delivered in two parts
			h := handler.New(start, lvl)
			var first []byte
			for _, f := range frames[:k.Split] {
				first = append(first, f...)
			}
			for _, m := range streamThrough(h, first) {
				mm := m
				gots = append(gots, got{msg: &mm})
			}
			if k.RestFrames {
				for _, f := range frames[k.Split:] {
					m, err := h.GetMessage(f)
					gots = append(gots, got{m, err})
				}
			} else {
				var rest []byte
				for _, f := range frames[k.Split:] {
					rest = append(rest, f...)
				}
				for _, m := range streamThrough(h, rest) {
					mm := m
					gots = append(gots, got{msg: &mm})
				}
			}
		} else if k.ViaAppCore {
			var earlier, all []byte
			for _, m := range k.EarlierMsgs {
				f := timeFrame(r, m.Type, m.TS)
				if m.Short > 0 {
					f = ref.Frame(f[3 : 3+m.Short])
				}
				earlier = append(earlier, f...)
			}
			for _, f := range frames {
				all = append(all, f...)
			}
			ch := make(chan handler.Message, 8)
			core := appcore.New(&jsonconfig.Config{}, []chan handler.Message{ch})
			var msgs []handler.Message
			collected := make(chan struct{})
			go func() {
				for m := range ch {
					msgs = append(msgs, m)
					tick()
				}
				close(collected)
			}()
			ret := make(chan struct{})
			nEarlier := 0
			go func() {
				core.HandleMessagesUntilEOF(time.UnixMilli(k.EarlierStartMs).UTC(), bufio.NewReader(bytes.NewReader(earlier)))
				nEarlier = len(k.EarlierMsgs)
				core.HandleMessagesUntilEOF(start, bufio.NewReader(bytes.NewReader(all)))
				close(ret)
			}()
			waitOrHang(ret, caseWatchdog, "AppCore did not return from two recordings")
			close(ch)
			waitOrHang(collected, caseWatchdog, "monitor consumer did not finish")
			if len(msgs) >= nEarlier {
				msgs = msgs[nEarlier:]
			}
			for i := range msgs {
				gots = append(gots, got{msg: &msgs[i]})
			}
		} else if k.ViaFile {
			var all []byte
			for _, f := range frames {
				all = append(all, f...)
			}
			cfg := &jsonconfig.Config{}
			if k.FileTolMs > 0 {
				cfg = &jsonconfig.Config{WaitTimeOnEOFMilliseconds: 1, TimeoutOnEOFMilliSeconds: k.FileTolMs}
			}
			ch := make(chan handler.Message, 4)
			fh := filehandler.New(ch, cfg)
			var src io.Reader = bytes.NewReader(all)
			if k.FirstByteDelayMs > 0 {
				src = &slowStart{r: src, d: time.Duration(k.FirstByteDelayMs) * time.Millisecond}
			}
			go fh.Handle(start, bufio.NewReader(src))
			done := make(chan struct{})
			var msgs []handler.Message
			go func() {
				for m := range ch {
					msgs = append(msgs, m)
					tick()
				}
				close(done)
			}()
			waitOrHangGone(done, caseWatchdog, "file handler did not close the message channel")
			for i := range msgs {
				gots = append(gots, got{msg: &msgs[i]})
			}
		} else if k.ViaStream {
			var all []byte
			for _, f := range frames {
				all = append(all, f...)
			}
			msgs := runSequential(start, lvl, all)
			for i := range msgs {
				gots = append(gots, got{msg: &msgs[i]})
			}
		} else {
			h := handler.New(start, lvl)
			for _, f := range frames {
				m, err := h.GetMessage(f)
				gots = append(gots, got{m, err})
			}
		}
	}()
	if panicked != "" {
		c.Violate("panic", "panic while converting timestamps: "+panicked, cj)
		return
	}
	if len(gots) != len(k.Msgs) {
		c.Violate(sigPrefix+"message-count", fmt.Sprintf("%d messages in, %d out", len(k.Msgs), len(gots)), cj)
		return
	}
	for i, m := range k.Msgs {
		g := gots[i]
		cons := ref.ConstellationOf(m.Type)
		if m.Short > 0 {
			if g.msg == nil {
				c.Violate(sigPrefix+"not-typed", fmt.Sprintf("message %d (a type %d frame with a payload of %d bytes) produced no message", i, m.Type, m.Short), cj)
				return
			}
			c.Count("frames_too_short_for_a_timestamp_in_histories", 1)
			continue
		}
		if g.msg == nil || g.msg.MessageType != m.Type {
			c.Violate(sigPrefix+"not-typed", fmt.Sprintf("message %d (type %d) was not delivered as that type", i, m.Type), cj)
			return
		}
		if g.msg.Timestamp != m.TS {
			c.Violate(sigPrefix+"timestamp-field", fmt.Sprintf("message %d: Timestamp %d, encoded %d", i, g.msg.Timestamp, m.TS), cj)
			return
		}
		if m.Illegal {
			if !k.ViaStream && !k.ViaFile && !k.ViaAppCore && !(k.Split > 0 && (i < k.Split || !k.RestFrames)) && g.err == nil {
				c.Violate(sigPrefix+"illegal-timestamp-not-an-error", fmt.Sprintf("message %d: %s timestamp %d is outside its legal range but no error was returned (SentAt %q)", i, cons, m.TS, g.msg.SentAt), cj)
				return
			}
			if g.msg.ErrorMessage == "" || !strings.HasPrefix(g.msg.SentAt, "Time (") {
				c.Violate(sigPrefix+"illegal-timestamp-not-an-error", fmt.Sprintf("message %d: %s timestamp %d is outside its legal range but is reported as SentAt %q, error text %q", i, cons, m.TS, g.msg.SentAt, g.msg.ErrorMessage), cj)
				return
			}
			c.Count("illegal_timestamps_reported_as_errors", 1)
			continue
		}
		u := time.UnixMilli(m.TrueMs).UTC()
		if !k.ViaStream && !k.ViaFile && !k.ViaAppCore && g.err != nil {
			c.Violate(sigPrefix+"valid-timestamp-rejected", fmt.Sprintf("message %d: %s timestamp %d (true time %s) was reported as an error: %v", i, cons, m.TS, u.Format(time.RFC3339Nano), g.err), cj)
			return
		}
		sent, err := parseReported(g.msg.SentAt, "Time ")
		if err != nil {
			c.Violate(sigPrefix+"wrong-utc-time", fmt.Sprintf("message %d (%s, timestamp %d, true time %s): %v", i, cons, m.TS, u.Format(time.RFC3339Nano), err), cj)
			return
		}
		if !sent.Equal(u) {
			c.Violate(sigPrefix+"wrong-utc-time", fmt.Sprintf("message %d (%s, timestamp %d): reported %s, true observation time %s (off by %v); start time %s",
				i, cons, m.TS, sent.Format(time.RFC3339Nano), u.Format(time.RFC3339Nano), sent.Sub(u), start.Format(time.RFC3339Nano)), cj)
			return
		}
		wantWeek := ref.WeekStartUTC(cons, u)
		week, err := parseReported(g.msg.StartOfWeek, "Start of "+cons+" week ")
		if err != nil {
			c.Violate(sigPrefix+"wrong-start-of-week", fmt.Sprintf("message %d (%s): %v", i, cons, err), cj)
			return
		}
		if !week.Equal(wantWeek) {
			c.Violate(sigPrefix+"wrong-start-of-week", fmt.Sprintf("message %d (%s, true time %s): reported start of week %s, true %s",
				i, cons, u.Format(time.RFC3339Nano), week.Format(time.RFC3339), wantWeek.Format(time.RFC3339)), cj)
			return
		}
		c.Count("times_compared", 1)
	}
	if k.ViaFile {
		c.Count("histories_through_the_file_handler", 1)
	}
	if k.ViaAppCore {
		c.Count("histories_through_an_appcore_that_served_another_week_before", 1)
	}
}

// slowStart delays the first read.
type slowStart struct {
	r    io.Reader
	d    time.Duration
	done bool
}

func (s *slowStart) Read(p []byte) (int, error) {
	if !s.done {
		s.done = true
		sleepTicking(s.d)
	}
	return s.r.Read(p)
}

// streamThrough runs one HandleMessages call of the given handler over the bytes.
func streamThrough(h *handler.Handler, input []byte) []handler.Message {
	in := make(chan byte, len(input)+1)
	for _, b := range input {
		in <- b
	}
	close(in)
	out := make(chan handler.Message, 16)
	go h.HandleMessages(in, out)
	var msgs []handler.Message
	done := make(chan struct{})
	go func() {
		for m := range out {
			msgs = append(msgs, m)
			endless(len(msgs), len(input), "stream handler")
			tick()
		}
		close(done)
	}()
	waitOrHangGone(done, caseWatchdog, "stream handler did not finish")
	return msgs
}

// genHistory builds one history, truth first.
func genHistory(r *ref.SplitMix64, anyStartInWeek bool) (timeCase, bool) {
	return genHistoryAt(r, anyStartInWeek, nil)
}

// genHistoryAt: with forced != nil the start time is that instant.
func genHistoryAt(r *ref.SplitMix64, anyStartInWeek bool, forced *time.Time) (timeCase, bool) {
	var k timeCase
	k.Zone = zoneNames[r.Intn(len(zoneNames))]
	k.ViaStream = r.Chance(1, 3)
	k.Debug = r.Chance(1, 2)
	// the start time: near a rollover of one constellation, or anywhere
	base := time.Date(2005+r.Intn(31), time.Month(1+r.Intn(12)), 1+r.Intn(28), r.Intn(24), r.Intn(60), r.Intn(60), r.Intn(1000)*1e6, time.UTC)
	T := base
	if r.Chance(1, 2) {
		cons := ref.TimedConstellations[r.Intn(4)]
		roll := ref.WeekStartUTC(cons, base)
		T = roll.Add(time.Duration(r.Range(-2000, 2000)) * time.Millisecond)
		if r.Chance(1, 4) {
			T = roll.Add(time.Duration(r.Range(-2, 2)) * time.Millisecond)
		}
	}
	if forced != nil {
		T = forced.UTC()
	}
	k.StartMs = T.UnixMilli()
	T = time.UnixMilli(k.StartMs).UTC()
	if forced == nil && anyStartInWeek && r.Chance(1, 6) {
		// start times have sub-millisecond resolution (time.Now()): the last microseconds
		// before a rollover still belong to the old week
		cons := ref.TimedConstellations[r.Intn(4)]
		roll := ref.WeekStartUTC(cons, base)
		k.StartMs = roll.UnixMilli() - 1
		k.StartNs = r.Range(500001, 999999)
		if r.Chance(1, 3) {
			k.StartNs = r.Range(1, 999999)
		}
		T = time.UnixMilli(k.StartMs).Add(time.Duration(k.StartNs)).UTC()
	}

	// which constellations take part
	var cons []string
	for _, cn := range ref.TimedConstellations {
		if r.Chance(2, 3) {
			cons = append(cons, cn)
		}
	}
	if len(cons) == 0 {
		cons = []string{ref.TimedConstellations[r.Intn(4)]}
	}
	type stream struct {
		name string
		msgs []timeMsg
	}
	var streams []stream
	rollovers := map[string]int{}
	earlier := false
	spanStyle := r.Intn(3) // 0: short gaps, 1: mixed, 2: long gaps (many rollovers)
	for _, cn := range cons {
		ws := ref.WeekStartUTC(cn, T)
		we := ws.Add(7 * 24 * time.Hour)
		var u time.Time
		if anyStartInWeek {
			// u1 anywhere in T's week: before, equal to or after T
			switch r.Intn(8) {
			case 0:
				u = ws // the very first instant of the week
			case 1:
				u = T
			case 2:
				u = T.Add(-time.Millisecond)
			case 3:
				u = T.Add(-time.Duration(r.Range(1, 3000)) * time.Millisecond)
			case 4:
				u = we.Add(-time.Millisecond)
			default:
				u = ws.Add(time.Duration(r.Uint64()%uint64(7*24*3600*1000)) * time.Millisecond)
			}
			if u.Before(ws) {
				u = ws
			}
			if !u.Before(we) {
				u = we.Add(-time.Millisecond)
			}
		} else {
			// C06: u1 >= T and in T's week
			room := we.Sub(T).Milliseconds()
			if room < 1 {
				room = 1
			}
			switch r.Intn(5) {
			case 0:
				u = T
			case 1:
				u = T.Add(time.Duration(r.Uint64()%uint64(minI64(room, 2000))) * time.Millisecond)
			default:
				u = T.Add(time.Duration(r.Uint64()%uint64(room)) * time.Millisecond)
			}
		}
		if u.Before(T) {
			earlier = true
		}
		n := r.Range(3, 14)
		st := stream{name: cn}
		for i := 0; i < n; i++ {
			tp := ref.TypesOf(cn)[r.Intn(2)]
			st.msgs = append(st.msgs, timeMsg{Type: tp, TrueMs: u.UnixMilli(), TS: ref.Timestamp(cn, u)})
			// next observation: never earlier, less than six days later
			var gap time.Duration
			pick := r.Intn(10)
			switch {
			case pick == 0:
				gap = 0
			case pick == 1:
				gap = time.Millisecond
			case pick == 2:
				gap = 6*24*time.Hour - time.Millisecond // just under six days
			case spanStyle == 0 || pick < 5 && spanStyle == 1:
				gap = time.Duration(r.Range(1, 5000)) * time.Millisecond
			case spanStyle == 2 || pick < 8:
				gap = time.Duration(r.Uint64()%uint64(6*24*3600*1000-1)) * time.Millisecond
			default:
				gap = time.Duration(r.Range(1, 24*3600)) * time.Second
			}
			// sometimes land exactly on, just before or just after the next rollover
			if r.Chance(1, 6) {
				next := ref.WeekStartUTC(cn, u).Add(7 * 24 * time.Hour)
				cand := next.Add(time.Duration(r.Range(-2, 2)) * time.Millisecond)
				if !cand.Before(u) && cand.Sub(u) < 6*24*time.Hour {
					gap = cand.Sub(u)
				}
			}
			nu := u.Add(gap)
			if !ref.WeekStartUTC(cn, nu).Equal(ref.WeekStartUTC(cn, u)) {
				rollovers[cn]++
			}
			u = nu
		}
		streams = append(streams, st)
	}
	// Sometimes two constellations carry bit-identical timestamps in adjacent messages
	// (GPS and Galileo of one epoch always do; BeiDou does 14 s later): the second
	// stream is rebuilt as a shifted copy of the first and the two are zipped.
	coupled := -1
	if len(streams) >= 2 && r.Chance(1, 3) {
		var cand []int
		for i, s := range streams {
			if s.name != "Glonass" {
				cand = append(cand, i)
			}
		}
		if len(cand) >= 2 {
			a := cand[r.Intn(len(cand))]
			b := a
			for b == a {
				b = cand[r.Intn(len(cand))]
			}
			shift := ref.ScaleOffsetMs(streams[a].name) - ref.ScaleOffsetMs(streams[b].name)
			ok := true
			var nb []timeMsg
			for i, m := range streams[a].msgs {
				u := time.UnixMilli(m.TrueMs + shift).UTC()
				if i == 0 {
					inWeek := ref.WeekStartUTC(streams[b].name, u).Equal(ref.WeekStartUTC(streams[b].name, T))
					if !inWeek || (!anyStartInWeek && u.Before(T)) {
						ok = false
						break
					}
				}
				tp := ref.TypesOf(streams[b].name)[r.Intn(2)]
				nb = append(nb, timeMsg{Type: tp, TrueMs: u.UnixMilli(), TS: ref.Timestamp(streams[b].name, u)})
			}
			if ok {
				// zip a and b into one stream entry so that equal timestamps are adjacent
				var z []timeMsg
				for i := range nb {
					if r.Chance(1, 2) {
						z = append(z, streams[a].msgs[i], nb[i])
					} else {
						z = append(z, nb[i], streams[a].msgs[i])
					}
				}
				streams[a].msgs = z
				streams = append(streams[:b], streams[b+1:]...)
				coupled = a
				if b < a {
					coupled = a - 1
				}
			}
		}
	}
	_ = coupled
	// interleave, keeping each constellation's own order; splice illegal timestamps anywhere
	idx := make([]int, len(streams))
	remaining := 0
	for _, s := range streams {
		remaining += len(s.msgs)
	}
	illegalThenValid := false
	pendingIllegal := false
	for remaining > 0 {
		j := r.Intn(len(streams))
		if idx[j] >= len(streams[j].msgs) {
			continue
		}
		if r.Chance(1, 9) {
			tp := ref.TypesOf(streams[j].name)[r.Intn(2)]
			m := &ref.MSM{Type: tp}
			m.FixIllegalTime(r)
			k.Msgs = append(k.Msgs, timeMsg{Type: tp, Illegal: true, TS: m.Timestamp})
			pendingIllegal = true
		}
		if r.Chance(1, 14) {
			// a frame of an MSM type cut short in front of the end of its timestamp
			tp := ref.TypesOf(streams[j].name)[r.Intn(2)]
			k.Msgs = append(k.Msgs, timeMsg{Type: tp, Short: r.Range(2, 6), TS: uint(r.Intn(604800000))})
		}
		k.Msgs = append(k.Msgs, streams[j].msgs[idx[j]])
		if pendingIllegal {
			illegalThenValid = true
		}
		idx[j]++
		remaining--
	}
	if len(k.Msgs) >= 4 && r.Chance(1, 4) {
		k.Split = r.Range(1, len(k.Msgs)-1)
		k.RestFrames = r.Chance(1, 2)
		k.ViaStream = false
	} else if r.Chance(1, 60) {
		// the way the applications read a recording or a live feed
		k.ViaFile, k.ViaStream = true, false
		if r.Chance(1, 2) {
			k.FileTolMs = 25
		}
		if r.Chance(1, 2) {
			k.FirstByteDelayMs = r.Range(20, 60)
		}
	}
	if k.StartNs > 0 && r.Chance(1, 3) {
		// a start time in the last instants of a week and a source that is slow to start
		k.ViaFile, k.ViaStream, k.Split = true, false, 0
		k.FirstByteDelayMs = r.Range(20, 60)
	}
	multi := 0
	for _, n := range rollovers {
		if n > 0 {
			multi++
		}
	}
	nontrivial := multi >= 2 || illegalThenValid
	if anyStartInWeek {
		nontrivial = earlier
	}
	return k, nontrivial
}

// ---------------------------------------------------------------------------
// C17 through the program: "displaying a recorded file with any date of that week".

type dispCase struct {
	Arg  string   `json:"date_argument"`
	TZ   string   `json:"tz"` // time zone of the process: "", a zone name, or fixed<hours>
	Hist timeCase `json:"history"`
	ID   int      `json:"id"`
}

// fixedZoneFile writes a TZif file describing a zone with a constant offset.
func fixedZoneFile(path string, offsetSeconds int) {
	off := uint32(int32(offsetSeconds))
	b := append([]byte("TZif"), make([]byte, 16)...)
	for _, v := range []uint32{0, 0, 0, 0, 1, 4} {
		b = append(b, byte(v>>24), byte(v>>16), byte(v>>8), byte(v))
	}
	b = append(b, byte(off>>24), byte(off>>16), byte(off>>8), byte(off), 0, 0)
	b = append(b, 'X', 'X', 'X', 0)
	os.WriteFile(path, b, 0644)
}

var displayBlock = regexp.MustCompile(`(?m)^Message type (\d+), `)

func execC17Process(c *child.Ctx, k dispCase, cj []byte) {
	dir := filepath.Join(c.WorkDir, fmt.Sprintf("disp%d", k.ID))
	os.MkdirAll(dir, 0755)
	defer os.RemoveAll(dir)
	r := ref.NewRand(uint64(k.Hist.StartMs) ^ 0x5555)
	var file []byte
	for _, m := range k.Hist.Msgs {
		file = append(file, timeFrame(r, m.Type, m.TS)...)
	}
	os.WriteFile(filepath.Join(dir, "recorded.rtcm"), file, 0644)
	var env []string
	if strings.HasPrefix(k.TZ, "fixed") {
		var hours int
		fmt.Sscanf(k.TZ, "fixed%d", &hours)
		zf := filepath.Join(dir, "zone.tzif")
		fixedZoneFile(zf, hours*3600)
		env = append(env, "TZ="+zf)
	} else if k.TZ != "" {
		env = append(env, "TZ="+k.TZ)
	}
	res := runAppProcess(c, filepath.Join(c.BinDir, "displayrtcm3"), []string{"recorded.rtcm", k.Arg}, nil, appCase{ID: k.ID, StdinMode: "file", StdoutMode: "fast"}, dir, env)
	switch {
	case res.TimedOut:
		c.Inconclusive("displayrtcm3 did not exit within 90 s")
		return
	case res.ExitCode != 0:
		c.Violate("crash", fmt.Sprintf("displayrtcm3 %q exited with status %d:\n%s", k.Arg, res.ExitCode, clipText(res.Stderr)), cj)
		return
	}
	out := string(res.Stdout)
	locs := displayBlock.FindAllStringSubmatchIndex(out, -1)
	if len(locs) != len(k.Hist.Msgs) {
		c.Violate("wrong-utc-time", fmt.Sprintf("displayrtcm3 %q (TZ %q) displayed %d messages for a file of %d", k.Arg, k.TZ, len(locs), len(k.Hist.Msgs)), cj)
		return
	}
	for i, m := range k.Hist.Msgs {
		end := len(out)
		if i+1 < len(locs) {
			end = locs[i+1][0]
		}
		block := out[locs[i][0]:end]
		if m.Illegal {
			continue
		}
		cons := ref.ConstellationOf(m.Type)
		u := time.UnixMilli(m.TrueMs).UTC()
		var sentLine, weekLine string
		for _, ln := range strings.Split(block, "\n") {
			if sentLine == "" && strings.HasPrefix(ln, "Time ") {
				sentLine = ln
			}
			if weekLine == "" && strings.HasPrefix(ln, "Start of ") {
				weekLine = ln
			}
		}
		sent, err := parseReported(sentLine, "Time ")
		if err != nil || !sent.Equal(u) {
			c.Violate("wrong-utc-time", fmt.Sprintf("displayrtcm3 recorded.rtcm %s (process time zone %q): message %d (%s, timestamp %d) is displayed with %q, its true observation time is %s",
				k.Arg, k.TZ, i, cons, m.TS, sentLine, u.Format(time.RFC3339Nano)), cj)
			return
		}
		week, err := parseReported(weekLine, "Start of "+cons+" week ")
		if err != nil || !week.Equal(ref.WeekStartUTC(cons, u)) {
			c.Violate("wrong-start-of-week", fmt.Sprintf("displayrtcm3 recorded.rtcm %s (process time zone %q): message %d (%s) is displayed with %q, the true start of week is %s",
				k.Arg, k.TZ, i, cons, weekLine, ref.WeekStartUTC(cons, u).Format(time.RFC3339)), cj)
			return
		}
		c.Count("displayed_times_compared", 1)
	}
	c.Count("display_processes_checked", 1)
}

func genDispCase(r *ref.SplitMix64, id int) dispCase {
	// a week, then one of its seven dates (or an instant with an explicit offset)
	day := time.Date(2005+r.Intn(31), time.Month(1+r.Intn(12)), 1+r.Intn(28), 0, 0, 0, 0, time.UTC)
	switch r.Intn(4) {
	case 0:
		day = day.AddDate(0, 0, -int(day.Weekday())) // the Sunday
	case 1:
		day = day.AddDate(0, 0, 6-int(day.Weekday())) // the Saturday
	}
	var arg string
	T := day
	if r.Chance(1, 5) {
		// an instant given with its own offset, in the hours around the week boundaries
		// (Saturday 20:00 UTC to Sunday 04:00 UTC), where the date in that offset and
		// the date in UTC differ, or the instant lies between two constellations' rollovers
		sat := day.AddDate(0, 0, 6-int(day.Weekday()))
		T = sat.Add(20*time.Hour + time.Duration(r.Range(0, 8*3600-1))*time.Second)
		switch r.Intn(4) {
		case 0:
			T = sat.Add(24*time.Hour - time.Duration(r.Range(1, 20))*time.Second) // between the GPS/BeiDou rollovers and midnight
		case 1:
			T = sat.Add(21*time.Hour + time.Duration(r.Range(0, 3*3600-1))*time.Second) // after the GLONASS rollover
		}
		arg = T.In(time.FixedZone("", r.Range(-11, 13)*3600)).Format(time.RFC3339)
	} else if r.Chance(3, 4) {
		arg = day.Format("2006-01-02")
	} else {
		offH := r.Range(-11, 13)
		T = day.Add(time.Duration(r.Range(0, 86399)) * time.Second)
		arg = T.In(time.FixedZone("", offH*3600)).Format(time.RFC3339)
	}
	h, _ := genHistoryAt(r, true, &T)
	h.Split, h.RestFrames, h.ViaStream, h.Debug = 0, false, true, true
	// the display is read back line by line against the list of observations: frames
	// that are too short to carry a time are left to the in-process histories
	kept := h.Msgs[:0]
	for _, m := range h.Msgs {
		if m.Short == 0 {
			kept = append(kept, m)
		}
	}
	h.Msgs = kept
	tz := []string{"", "UTC", "fixed2", "fixed9", "fixed13", "fixed-5", "fixed-11", "fixed1", "Asia/Tokyo", "Europe/Moscow", "America/New_York", "Pacific/Auckland"}[r.Intn(12)]
	return dispCase{Arg: arg, TZ: tz, Hist: h, ID: id}
}

func minI64(a, b int64) int64 {
	if a < b {
		return a
	}
	return b
}

func monTime(c *child.Ctx, replay json.RawMessage, anyStart bool) {
	sig := ""
	if replay != nil && hasKey(replay, "date_argument") {
		var dk dispCase
		json.Unmarshal(replay, &dk)
		c.Begin(replay)
		execC17Process(c, dk, replay)
		c.Eval(1, true)
		return
	}
	if replay != nil {
		var k timeCase
		json.Unmarshal(replay, &k)
		c.Begin(replay)
		execTime(c, k, replay, sig)
		c.Eval(1, true)
		return
	}
	salt := uint64(6)
	if anyStart {
		salt = 17
	}
	r := ref.NewRand(c.Seed*373587883 + uint64(c.Batch)*393342739 + salt)
	n := c.Share(c.Pick(20000, 400000))
	if anyStart {
		n = c.Share(c.Pick(40000, 800000))
	}
	for i := 0; i < n; i++ {
		k, nontriv := genHistory(r, anyStart)
		if i%11 == 7 {
			// a session that starts in the days before the clocks change in Europe, North
			// America or Australia and runs across that weekend (the machine may keep its
			// local time in such a zone)
			year := 2005 + r.Intn(31)
			var sunday time.Time
			switch r.Intn(4) {
			case 0: // last Sunday of March
				sunday = time.Date(year, time.March, 31, 0, 0, 0, 0, time.UTC)
			case 1: // last Sunday of October
				sunday = time.Date(year, time.October, 31, 0, 0, 0, 0, time.UTC)
			case 2: // second Sunday of March
				sunday = time.Date(year, time.March, 14, 0, 0, 0, 0, time.UTC)
			default: // first Sunday of November / of April and October (south)
				sunday = time.Date(year, []time.Month{time.November, time.April, time.October}[r.Intn(3)], 7, 0, 0, 0, 0, time.UTC)
			}
			sunday = sunday.AddDate(0, 0, -int(sunday.Weekday()))
			T := sunday.Add(-time.Duration(r.Range(0, 6*86400)) * time.Second).Add(time.Duration(r.Range(0, 26*3600)) * time.Second)
			k, nontriv = genHistoryAt(r, anyStart, &T)
			c.Count("histories_around_a_clock_change_weekend", 1)
		}
		if i%9 == 4 {
			// through the applications' core, which has played another recording (another
			// week, its own start time) just before
			e, _ := genHistory(r, anyStart)
			k.ViaAppCore, k.EarlierStartMs, k.EarlierMsgs = true, e.StartMs, e.Msgs
			k.Split, k.RestFrames, k.ViaFile, k.ViaStream, k.FirstByteDelayMs = 0, false, false, false, 0
		}
		cj := c.BeginV(k)
		execTime(c, k, cj, sig)
		c.Count("messages_in_histories", int64(len(k.Msgs)))
		c.Eval(ref.Hash64(cj), nontriv)
		if c.WantSample() && nontriv && len(k.Msgs) < 12 {
			c.Sample(k)
		}
	}
	// handlers for different weeks created and used at the same time by different
	// goroutines (a test harness, a server with one handler per connection)
	{
		ng := 4
		per := c.Share(c.Pick(4000, 80000)) / ng
		var wg sync.WaitGroup
		for g := 0; g < ng; g++ {
			wg.Add(1)
			rg := ref.NewRand(r.Uint64() + uint64(g)*7919)
			go func() {
				defer wg.Done()
				for i := 0; i < per && c.NViolations() == 0; i++ {
					k, _ := genHistory(rg, anyStart)
					k.ViaFile, k.FirstByteDelayMs = false, 0
					cj, _ := json.Marshal(k)
					execTime(c, k, cj, sig)
				}
			}()
		}
		wg.Wait()
		c.Count("histories_run_side_by_side", int64(ng*per))
		c.EvalN(1)
	}
	// handlers being created all the time, each goroutine for a week of its own
	{
		ng := 8
		per := c.Share(c.Pick(160000, 3200000)) / ng
		var wg sync.WaitGroup
		var bad atomic.Value
		for g := 0; g < ng; g++ {
			wg.Add(1)
			rg := ref.NewRand(r.Uint64() + uint64(g)*104729)
			go func(g int) {
				defer wg.Done()
				cons := ref.TimedConstellations[g%len(ref.TimedConstellations)]
				tp := ref.TypesOf(cons)[g%2]
				T := time.Date(2006+3*g, time.Month(1+g), 3+2*g, 5+g, 0, 0, 0, time.UTC)
				ws := ref.WeekStartUTC(cons, T)
				u := ws.Add(time.Duration(1+rg.Intn(600000000)) * time.Millisecond)
				frame := timeFrame(rg, tp, ref.Timestamp(cons, u))
				for i := 0; i < per && bad.Load() == nil; i++ {
					h := handler.New(T, slog.LevelInfo)
					m, err := h.GetMessage(frame)
					if m == nil || err != nil {
						continue
					}
					if sent, e := parseReported(m.SentAt, "Time "); e != nil || !sent.Equal(u) {
						k := timeCase{StartMs: T.UnixMilli(), Zone: "UTC", Msgs: []timeMsg{{Type: tp, TrueMs: u.UnixMilli(), TS: ref.Timestamp(cons, u)}}}
						cj, _ := json.Marshal(k)
						bad.Store([2]string{fmt.Sprintf("a handler created with start time %s (while seven other goroutines were creating handlers for other weeks) reports a %s observation of %s as %q", T.Format(time.RFC3339), cons, u.Format(time.RFC3339Nano), m.SentAt), string(cj)})
					}
				}
			}(g)
		}
		wg.Wait()
		if v := bad.Load(); v != nil {
			c.Violate(sig+"wrong-utc-time", v.([2]string)[0], []byte(v.([2]string)[1]))
		}
		c.Count("handlers_created_side_by_side", int64(ng*per))
		c.EvalN(1)
	}
	if anyStart {
		// the documented use: displayrtcm3 <file> <any date of that week>, on machines
		// in any time zone
		np := c.Share(c.Pick(160, 3200))
		for i := 0; i < np; i++ {
			dk := genDispCase(r, c.Batch*100000+i)
			cj := c.BeginV(dk)
			execC17Process(c, dk, cj)
			c.Eval(ref.Hash64(cj), true)
		}
	}
}
