package main

import "time"

// propCfg says how the driver runs one property's monitor.
type propCfg struct {
	Race            bool     // build the monitor with the race detector
	BinRace         bool     // build application binaries with the race detector
	QuickBatches    int      // children in the quick tier
	ThoroughBatches int      // children in the thorough tier
	Parallel        int      // children running at once
	Bins            []string // application binaries built from the current tree (with the hook overlay)
	AppTests        []string // package-main directories for which an in-process monitor is built
	Level           string
	Floor           int // minimum distinct non-trivial cases, below which the run is INCONCLUSIVE
	ChildTimeoutQ   time.Duration
	ChildTimeoutT   time.Duration
	MayBeExhaustive bool
	Rule            string
	Assumptions     []string
}

var commonAssumptions = []string{
	"the Go toolchain, runtime and (where used) race detector are correct",
	"harness reference code (bitwise CRC-24Q, bit writer, independent encoders, math/big extractors) is correct; it is self-checked against the captured receiver frames in rtcm/testdata at every run",
	"the claim is 'held on the executions observed', not a proof: inputs, schedules and fault placements outside those generated are not covered",
}

var props = map[string]propCfg{
	"C14": {
		QuickBatches: 8, ThoroughBatches: 64, Parallel: 16, Level: "exploration", Floor: 1000, MayBeExhaustive: true,
		Rule: "structured part: every alignment (pos mod 8 in 0..7) x every width 1..64 (signed 2..64) x byte offsets {0,1,7} x patterns {all 0, all 1, walking 1, walking 0, min of width, max of width, 0xAA, 0x55}, each compared with a math/big extraction and re-run on a copy with all outside bits complemented; plus seeded random (buffer,pos,width) triples. A case is non-trivial when the field is not all-zero bits and does not start on a byte boundary or spans more than one byte; distinct by hash of (buffer,pos,width,signedness).",
		Assumptions: commonAssumptions,
	},
}
