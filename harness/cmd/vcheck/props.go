package main

import "time"

// propCfg says how the driver runs one property's monitor.
type propCfg struct {
	Race            bool     // build the monitor with the race detector
	BinRace         bool     // build application binaries with the race detector
	QuickBatches    int      // children in the quick tier
	ThoroughBatches int      // children in the thorough tier
	Parallel        int      // children running at once
	Bins            []string // application binaries built from the current tree (with the hook overlay)
	AppTests        []string // package-main directories for which an in-process monitor is built
	Level           string
	Floor           int // minimum distinct non-trivial cases, below which the run is INCONCLUSIVE
	ChildTimeoutQ   time.Duration
	ChildTimeoutT   time.Duration
	MayBeExhaustive bool
	Require         []string // counters of observed events that must be non-zero, else the run is INCONCLUSIVE
	Rule            string
	Assumptions     []string
}

var commonAssumptions = []string{
	"the Go toolchain, runtime and (where used) race detector are correct",
	"harness reference code (bitwise CRC-24Q, bit writer, independent encoders, math/big extractors) is correct; it is self-checked against the captured receiver frames in rtcm/testdata at every run",
	"the claim is 'held on the executions observed', not a proof: inputs, schedules and fault placements outside those generated are not covered",
}

var props = map[string]propCfg{
	"C19": {
		Require: []string{"reports_checked", "status_calls_checked", "concurrent_status_calls_checked", "concurrent_connection_pairs_relayed", "bytes_relayed_client_to_server", "bytes_relayed_server_to_client", "messages_listed_in_reports", "sessions_with_message_log_switched_off", "upstream_stall_sessions", "upstream_stall_sessions_with_the_upload_held_up", "bulk_uploads", "reports_fetched_while_the_upload_was_held_up", "sessions_with_server_half_close"},
		Race:    true, BinRace: true, QuickBatches: 5, ThoroughBatches: 40, Parallel: 5, Bins: []string{"proxy"}, Level: "exploration", Floor: 20,
		Rule:        "(a) sessions against the real proxy binary (race detector, built from the current tree) on TCP loopback: the harness is the upstream server, the client and the HTTP poller; 1-3 sequential connections per proxy process and, in every second session, two connections at the same time (relay equality per connection); client->server and server->client streams (up to 64 kB per session) made of valid frames, CRC-valid frames with malformed content (short MSM, oversize masks), hostile mixes, random bytes, and text/frames spelling HTML (<script>, </div>, <img ...>); chunk sizes {1,17,512,4096,random} with 0-2 ms gaps. Oracle: upstream-received = client-sent and client-received = server-sent per connection; the process is alive after every session (a death is reported with its panic/race text; a silent stall is judged from the SIGQUIT goroutine dump, otherwise inconclusive); every /status/report body is matched against the pinned page template and its five traffic-derived parts must contain no raw '<' or '>'; the messages listed (parsed back from their hex dumps) must be at most 20 and a contiguous run, in order, of the same build's sequential framing of the bytes sent so far. the status page is polled continuously while traffic flows. (b) in process: ReportFeed.Status over a 20-message queue and client/server buffers filled from such traffic, same checks plus list length; (c) in process: the queue fed round after round while two goroutines produce status reports and one records buffers, every report checked, a deadlock judged logically. Non-trivial: every session / Status call (all carry mixed traffic). Distinct by hash of the case.",
		Assumptions: commonAssumptions,
	},
	"C16": {
		Require: []string{"processes_checked", "runs_at_chosen_time_of_day", "runs_with_silent_input", "long_sessions_with_event_log", "runs_with_record_directory_behind_a_symlink", "runs_with_event_log_in_the_record_directory", "runs_with_a_tiny_first_read"},
		BinRace: true, QuickBatches: 8, ThoroughBatches: 48, Parallel: 8, Bins: []string{"rtcmlogger"}, Level: "exploration", Floor: 30,
		Rule:        "the real rtcmlogger binary, built from the current tree with the race detector and the hook overlay, run as a process in a fresh directory: inputs of 0, 1, 2, 100, 5000, 8095, 8096, 8097, 2*8096-1..+1, 3*8096+1, 40 kB, 100 kB (thorough: up to 2 MB) bytes, random / all-zero / text; stdin as a regular file, a pipe written in chunks of 100 / 1000 / 8096 / random size with 0-3 ms gaps, or a pipe closed immediately after one write; GOMAXPROCS in {1,2,16}; hook profiles: none (natural schedule), a 20 ms delay before the recorder's write call, 5 ms before the log write, 3 ms before the recorder's receive, frequent yields. Oracle: process stdout equals stdin byte for byte, and after exit the date-ordered concatenation of rtcmlogger.*.rtcm in the configured directory equals stdin. Non-trivial: non-empty input with a hook profile or piped stdin. Distinct by hash of the case.",
		Assumptions: commonAssumptions,
	},
	"C10": {
		Require: []string{"filter_outputs_checked", "process_outputs_checked", "record_files_checked", "display_logs_checked", "outputs_judged_by_construction", "live_sessions", "sessions_with_one_write_held_up", "long_process_sessions", "cases_with_empty_reads", "sessions_with_a_silence_inside_a_frame", "cases_with_many_empty_reads_in_a_row"},
		BinRace: true, QuickBatches: 8, ThoroughBatches: 48, Parallel: 8, Bins: []string{"rtcmfilter"}, AppTests: []string{"rtcmfilter"}, Level: "exploration", Floor: 40,
		Rule:        "(a) in process, through a test file added to apps/rtcmfilter at check time by the build overlay: HandleMessages(start, reader, writer, config) with all four display/record combinations, paced/chunked readers, writers that are fast / yielding / sleeping, GOMAXPROCS in {1,2,4,16}, race detector on; the written bytes are compared at quiescence, defined on goroutine states (every goroutine with a frame in apps/rtcmfilter/main.go parked in a channel receive or gone, no write in flight, call counter stable). (b) the real binary built from the current tree with the hook overlay and the race detector: stdin as a file or a pipe written in random chunks with gaps, stdout read fast or through a 4 kB pipe read slowly, yield/sleep hook profiles, files read after exit as the date-ordered concatenation of the fresh log directory. Oracle: for inputs built from known segments (clean streams, well-formed decodable messages incl. SBAS/QZSS/NavIC and illegal timestamps) the expected output is the concatenation of the generator's own frame segments - independent of the code; for captured batches and hostile streams it is the concatenation of the typed messages of the same build's sequential framing, each required to be a frame by the independent predicate; the record file must hold the same bytes; readable log has one 'Frame length N bytes:' entry per delivered message. Inputs: captured batches, clean streams ending in a frame, hostile streams, well-formed decodable messages, truncated tails. Non-trivial: >= 2 messages delivered. Distinct by hash of the case.",
		Assumptions: commonAssumptions,
	},
	"C11": {
		Require: []string{"complete_at_return", "process_output_complete", "cases_with_a_closable_writer", "cases_with_an_eof_tolerance", "cases_with_hundreds_of_messages_behind_a_held_up_write"},
		BinRace: true, QuickBatches: 8, ThoroughBatches: 48, Parallel: 8, Bins: []string{"rtcmfilter", "displayrtcm3"}, AppTests: []string{"rtcmfilter", "displayrtcm3"}, Level: "exploration", Floor: 40,
		Rule:        "in process (overlay-added test in each application's package main, race detector on): HandleMessages is called with a writer that completes each Write only after a delay (none / yields / 20 us - 1.5 ms sleep / blocks 5 ms per call) and counts completed bytes; the bytes completed are snapshotted by the calling goroutine in the statement after the call returns - no waiting is part of the verdict: a strict prefix of the full expected output = violation, equal = held. Expected output from the same build sequentially: headings + String()+newline of every message (displayrtcm3) or the valid frames (rtcmfilter). Inputs with 1..200 messages ending in a valid frame / junk / truncated frame; GOMAXPROCS in {1,2,16}. Plus process-level runs of both real binaries over finite files with stdout read fast or through a small slow pipe: the bytes that reach the pipe before exit are compared the same way. Non-trivial: non-empty input and a writer that is not instantaneous. Distinct by hash of the case.",
		Assumptions: commonAssumptions,
	},
	"C15": {
		Require: []string{"history_steps_compared", "stream_messages_compared", "concurrent_displays", "first_seen_types_displayed_concurrently", "fan_out_messages_compared", "non_rtcm_displays_checked"},
		Race:    true, QuickBatches: 8, ThoroughBatches: 64, Parallel: 8, Level: "exploration", Floor: 50,
		Rule:        "a pool of ~250 frames (captured receiver frames; generated well-formed MSM4/MSM7 of all 14 types incl. illegal timestamps and padding, truncated ill-formed bodies, 1005/1006 well-formed and truncated, random frames of other types). Canonical result per frame and log level = decoded struct (reflect.DeepEqual) and readable text with the two MSM time lines removed, from a fresh handler processing that frame first. Histories: 200 frames in random order with immediate and distant repetitions through ONE handler at both levels, each step compared with the canonical result, displayed twice, raw-byte hash before/after. Concurrency under the race detector: 2-16 goroutines each with its own handler decoding from the SAME input byte slices, every message value-copied (as the fan-out does) to 2-4 consumer goroutines that display, Analyse, PrepareForDisplay, Copy and set their own log level; GOMAXPROCS in {2,4,16}; two goroutines never share one *Message (the property speaks of copies). Non-trivial: every history/concurrent run (each mixes all types). Distinct by hash of (pool seed, order / parameters).",
		Assumptions: commonAssumptions,
	},
	"C18": {
		Require: []string{"sequences_enumerated", "linearizable_histories", "long_run_additions", "stress_operations", "held_snapshots_rechecked"},
		Race:    true, QuickBatches: 8, ThoroughBatches: 64, Parallel: 8, Level: "exploration", Floor: 500, MayBeExhaustive: true,
		Rule:        "(1) exhaustive: ALL sequences over {Add, snapshot} of length 14 (quick) / 18 (thorough) for every capacity 1..8, each step compared with a 'last N of a list' model and len(Items) read under the queue's own RLock; (2) long runs of 10^5 (quick) / 10^7 (thorough) additions for capacities {1,2,3,5,8,20} with EVERY snapshot checked; (3) tight-loop stress: 1-2 adders and 1-3 snapshot readers, 20000 operations each without yields, every snapshot within capacity and in arrival order per adder, termination judged logically (deadlock = every repository goroutine blocked and no progress for six seconds); (4) concurrent histories: capacities {1,2,3,8}, 1-3 adders x 1-3 snapshot readers, 10-30 operations each, unique message ids, call/return stamps from one atomic counter recorded at the client boundary, checked with porcupine (linearizability against the list model; timeout = inconclusive), size bound checked online, race detector on, GOMAXPROCS in {2,4,16}. Non-trivial: more additions than the capacity (sequential) / at least two concurrent clients (concurrent). Distinct by (capacity, sequence) or hash of the history parameters.",
		Assumptions: append([]string{"porcupine v1.3.0 decides linearizability of the recorded histories correctly"}, commonAssumptions...),
	},
	"C13": {
		Require: []string{"tolerant_scripts_checked", "stop_scripts_checked", "stop_scripts_zero_tolerance", "stop_scripts_other_error", "stop_scripts_silence_beyond_tolerance", "stop_scripts_other_error_after_tolerated_fault", "scripts_with_data_and_fault_in_one_read", "scripts_with_a_slow_first_fault", "scripts_with_long_retry_pause", "stop_scripts_silent_source_reporting_fresh_timeouts", "scripts_with_a_reused_config", "scripts_with_a_second_interruption_soon_after_the_first", "stop_scripts_slow_second_fault"},
		Race:    true, QuickBatches: 8, ThoroughBatches: 64, Parallel: 8, Level: "fault_enumeration", Floor: 200,
		Rule:        "short streams (2-4 small frames, junk, optional truncated tail, some hostile; <= 400 bytes) read through a scripted io.Reader behind bufio by the real file handler with wait 1 ms / tolerance 120 ms. Tolerant scripts: a single end-of-file or i/o timeout at EVERY byte boundary; double faults (eof / 'i/o timeout' text / wrapped os.ErrDeadlineExceeded, any pair) at every 4th boundary; two separate interruptions (single or double) at random boundaries - all bytes must be processed exactly once in order (delivered sequence = the same build's sequential framing of all bytes), the channel closed and an error returned at the final silence. The configuration's unrelated settings (read timeout, sleep after failed open) are varied too. Stop scripts at every (quick: every 3rd) boundary: zero tolerance, another read error, another read error directly after a tolerated fault, or silence beyond the tolerance followed by data that must not be consumed - delivered = sequential framing of the bytes supplied before the stop (partial frame as non-RTCM), channel closed, error returned. The reader timestamps its faults: a tolerant script on which the handler gave up while two consecutive faults were >= half the tolerance apart is retried and otherwise inconclusive. Non-trivial: the fault falls strictly inside a frame. Distinct by hash of the script.",
		Assumptions: commonAssumptions,
	},
	"C09": {
		Require: []string{"messages_received_by_consumers", "hook_events", "sources_processed", "runs_with_empty_reads", "runs_with_silent_source", "runs_with_a_consumer_held_up_once", "runs_with_interruption_after_a_held_up_consumer", "runs_with_io_timeout_interruptions", "runs_with_a_long_consumer_list", "runs_with_many_empty_reads_in_a_row", "runs_ending_with_a_read_error", "live_feeds_beginning_with_nul_bytes"},
		Race:    true, QuickBatches: 16, ThoroughBatches: 96, Parallel: 8, Level: "exploration", Floor: 40,
		Rule:        "pipeline runs of the real file handler + fan-out (appcore.HandleMessagesUntilEOF) under the race detector: inputs are the captured batches and generated clean/hostile streams (200 B - 12 kB); the reader delivers chunks of 1..{1,2,7,64,500,5000} bytes with yield/sleep profiles; 1-4 consumer channels with capacities {0,1,4,64}, nil entries at any index and fast/yielding/slow(50us-2ms)/bursty consumers; GOMAXPROCS in {1,2,3,4,8,16}; check-time yield/sleep hooks before every channel operation of file_handler, handler, pushback and appcore (5 profiles). Oracle: every non-nil consumer's (type, raw bytes) sequence equals the same build's sequential framing of the same bytes; raw bytes do not change after delivery; the call returns 0; afterwards no goroutine with a frame in the four pipeline files remains (blocked in every sample for 200 ms = violation, still runnable = inconclusive); double close / send on closed channel / race report end the child. Non-trivial: >=2 real consumers, >=10 messages and a perturbation active. Distinct by hash of (input, reader, consumers, GOMAXPROCS, hook profile, seed).",
		Assumptions: commonAssumptions,
	},
	"C06": {
		Require:      []string{"times_compared", "illegal_timestamps_reported_as_errors", "histories_through_the_file_handler", "histories_run_side_by_side", "handlers_created_side_by_side"},
		QuickBatches: 8, ThoroughBatches: 64, Parallel: 16, Level: "exploration", Floor: 100,
		Rule:        "histories generated truth first: a start time T (any of 7 time zones; half of them within +-2 s, a quarter of those within +-2 ms, of a constellation's week rollover), then per participating constellation (random non-empty subset of GPS, GLONASS, Galileo, BeiDou) true UTC observation instants u1 <= u2 <= ... with u1 >= T inside T's constellation week and gaps in {0, 1 ms, seconds, hours, up to 6 d - 1 ms, exactly on/around the next rollover}, spanning 0..many rollovers; each instant is converted to its 30-bit timestamp by pure time arithmetic (no rollover logic in the oracle); constellations and MSM4/MSM7 types are interleaved at random and illegal timestamps (>= 7 d of ms; GLONASS day 7 or >= 24 h of ms) are spliced in anywhere. The frames go through handler.GetMessage on one handler, a third of the histories through the stream handler. Every reported SentAt and StartOfWeek is parsed back and must equal the true instant / true week start; illegal timestamps must come back as errors without disturbing later messages. Non-trivial: >=2 constellations cross a rollover, or an illegal timestamp is followed by valid messages. Distinct by hash of the history.",
		Assumptions: commonAssumptions,
	},
	"C17": {
		Require: []string{"times_compared", "display_processes_checked", "displayed_times_compared", "histories_through_the_file_handler", "histories_run_side_by_side", "handlers_created_side_by_side"},
		BinRace: true, Bins: []string{"displayrtcm3"},
		QuickBatches: 8, ThoroughBatches: 64, Parallel: 16, Level: "exploration", Floor: 100,
		Rule:        "as C06, but the first observation of each constellation is drawn anywhere in the constellation week that contains the start time T: the first instant of the week, T itself, 1 ms / up to 3 s before T, the last millisecond of the week, or uniformly - followed by a C06-style continuation across rollovers. Non-trivial: some constellation's first observation is earlier than T. Distinct by hash of the history.",
		Assumptions: commonAssumptions,
	},
	"C08": {
		Require:      []string{"ranges_compared", "phase_ranges_compared", "rates_compared", "msm4_msm7_pairs_compared", "invalid_rough_cells", "invalid_rate_cells", "cells_rechecked_after_display", "brief_display_columns_checked", "messages_with_satellites_without_cells"},
		QuickBatches: 8, ThoroughBatches: 64, Parallel: 16, Level: "exploration", Floor: 1000,
		Rule:        "signal cells for GPS, GLONASS, Galileo and BeiDou MSM4/MSM7: whole ms random plus 0/254/255(invalid), and all 0..255 swept with boundary fractions; fractional in {0,1,511,512,1023,random}; fine range / phase / rate in {min(invalid), min+1, -1, 0, 1, max, random}; rough rate in {-8192(invalid), +-8191, 0, +-1, random}; signal ids mostly those with a documented frequency, all 8x32 (constellation, id) pairs swept. Three quarters of the cells are obtained by decoding a one-cell message built by the independent encoder (so the library assigns the wavelength), one quarter by direct construction. Oracle: 200-bit big.Float evaluation of c/1000*(whole+frac/1024+fine*2^-24|2^-29), the same with 2^-29|2^-31 divided by the wavelength, rough+fine/10000 and its negative over the wavelength; relative tolerance 1e-12; wavelength against c/f from a table pinned in the harness; invalid-rough => zero and 'invalid' in the text; invalid-fine => rough alone; MSM4 cell vs the MSM7 cell encoding the same quantity; cases with a negative true value are executed but excluded from the numeric comparison, as the property states. Non-trivial: rough range not 0/0. Distinct by hash of the case.",
		Assumptions: commonAssumptions,
	},
	"C05": {
		Require:      []string{"decodes_compared", "displays_checked", "rejections_observed", "raw_frame_truncations_swept", "reused_buffer_decodes", "kept_results_rechecked", "concurrent_displays_checked", "frames_decoded_back_to_back"},
		QuickBatches: 8, ThoroughBatches: 64, Parallel: 16, Level: "exploration", Floor: 500, MayBeExhaustive: true,
		Rule:        "enumerated: every boundary coordinate (-2^37, -2^37+1, +-1, 0, +-9999, +-10000, +-10001, every power of two +-1, 2^37-1) on each axis for both types; boundary antenna heights; EVERY truncation length 0..full-1 (must be an error, never a panic); EVERY other number in the 12-bit type field (must be an error). Random: 1005/1006 descriptions with full-range station id, ITRF year, reserved groups, coordinates (uniform 38-bit, realistic ECEF, boundary) and height, with and without trailing bytes. Each is encoded by the independent encoder and decoded by type1005/type1006 GetMessage and through handler.GetMessage + Message.String at both log levels; fields compared exactly; displayed coordinates/height compared with pure-integer formatting of value*0.0001 to four decimals. Non-trivial: all three coordinates non-zero, or a boundary/truncation/wrong-type case. Distinct by hash of the case.",
		Assumptions: commonAssumptions,
	},
	"C20": {
		Require:      []string{"types_enumerated", "decoder_family_checks", "handler_dispatch_checks", "stream_classifications_checked"},
		QuickBatches: 8, ThoroughBatches: 16, Parallel: 16, Level: "exploration", Floor: 20, MayBeExhaustive: true,
		Rule:        "complete enumeration of the 4096 message types and the two negative sentinels. For each: MSM4/MSM7/MSM predicates, constellation name and title against a table written out from the property statement; for each non-negative type five synthetic CRC-valid frames (well-formed MSM4 body, MSM7 body, 1005 body, 1006 body, random bytes; thorough adds 64 more) checked for: header/decoder family acceptance, timestamp extraction only for the fourteen MSM types, full decoding attempted for exactly MSM4, MSM7, 1005, 1006 (observed as a decoded struct or a decoder error text versus the 'cannot be displayed' strings), and non-empty display at both log levels. Non-trivial: the 14 MSM types, their neighbours 1070..1140, 1005, 1006, 1230 and the sentinels. Distinct by type number.",
		Assumptions: commonAssumptions,
	},
	"C04": {
		Require:      []string{"decodes_compared", "encoder_validated_on_captured_msm_frames", "concurrent_decodes_compared", "frames_decoded_back_to_back", "processes_whose_first_decodes_were_side_by_side", "crc_twin_pairs_decoded"},
		QuickBatches: 8, ThoroughBatches: 64, Parallel: 16, Level: "exploration", Floor: 500,
		Rule:        "random well-formed MSM4/MSM7 descriptions for all 14 types (cycled): mask shapes empty-satellite, empty-signal, 1x1, 1xk, 64x1, nx1, 32x2, 2x32, nxm with n*m<=64; cell masks all-ones / single one / sparse rows / dense / random; field styles random / all-zero / all-ones / invalid markers and neighbours / zero lock+half+CNR tails; multiple-message flag set only when a cell is present. Each description is encoded by the independent encoder at several padding sizes (0, small, 0..13, up to the 1023-byte limit) and decoded through the decoder package and through handler.GetMessage+Analyse; every exported header, satellite-cell and signal-cell field, the satellite/signal lists, the cell matrix and each cell's (satellite, signal id) attachment are compared with the description, so results at different paddings are compared with each other through it. The encoder itself is validated at every run by reproducing the captured real-receiver MSM frames bit for bit. Non-trivial: >=2 signal cells, or a zero-valued cell field, or >=3 padding bytes. Distinct by hash of (description, paddings).",
		Assumptions: commonAssumptions,
	},
	"C07": {
		Require:      []string{"type_length_pairs_swept", "stream_messages", "frames_reported_as_error", "raw_inputs_to_single_frame_decoding", "periodic_stream_bytes", "one_byte_messages_displayed", "all_types_swept_with_short_bodies", "full_cell_mask_frames", "long_runs_without_a_start_byte"},
		QuickBatches: 16, ThoroughBatches: 128, Parallel: 16, Level: "exploration", Floor: 1000,
		Rule:        "(1) CRC-valid frames for each of 19 type numbers (1005, 1006, the 14 MSM types, 1230, 1, 4095) x EVERY payload length 1..1023 x payload shapes (uniform random, sparse, all ones, plausible header with few mask bits, masks announcing 65..2048 cells, zeros), plus all 256 one-byte payloads; (2) well-formed 1005/1006/MSM bodies (independent encoder) truncated at every byte position, with mask bits forced upward, and with illegal timestamps; (3) arbitrary streams through the stream handler (all 0xD3, maximal length claims with short data, random up to 20 kB / 1 MB, hostile mixes). Each frame goes through single-frame decoding, Copy, String, Analyse, PrepareForDisplay and String again at both log levels under recover(); streams run on the handler's own goroutine so a panic there ends the child and is attributed to the on-disk witness. A case that runs for 60 s (>10^4 x median) is re-run alone and only then called a hang. Non-trivial: a CRC-valid frame of a decodable type shorter than / inconsistent with its layout, or a hostile stream. Distinct by hash of the bytes.",
		Assumptions: commonAssumptions,
	},
	"C01": {
		Require:      []string{"stream_typed_deliveries", "stream_rejected_d3_candidates", "direct_typed_no_error", "direct_rejected", "direct_reused_buffer_decodes", "direct_after_a_stream", "invalid_leaders_swept", "direct_with_spare_capacity", "typed_messages_rechecked_after_display", "damaged_frames_in_long_sessions", "streams_with_a_consumer_that_fell_behind"},
		QuickBatches: 8, ThoroughBatches: 64, Parallel: 16, Level: "exploration", Floor: 200,
		Rule:        "hostile streams (valid frames of random type/length, stray 0xD3 runs, near-miss leaders, frames with one corrupted CRC byte / payload byte / forced 0xD3 / burst, length-field edits with and without CRC recomputation, truncated frames, NMEA/UBX/HTTP-like junk, random bytes dense in 0xD3) run through the stream handler, every typed delivery checked with an independent frame predicate (bitwise CRC-24Q); plus direct single-frame decoding of candidates (valid, valid+trailing bytes, crafted over-long inputs whose declared-length prefix has a bad CRC but whose whole has a good one, corrupted, truncated, zero-length, random). A stream is non-trivial when the gate took both outcomes (>=1 typed delivery and >=1 rejected 0xD3-led candidate); a direct call is non-trivial when the input is 0xD3-led and rejected, or typed with input longer than the frame. Distinct by hash of the input bytes.",
		Assumptions: commonAssumptions,
	},
	"C02": {
		Require: []string{"messages_delivered", "hook_events", "stalled_runs", "held_up_once_runs", "second_streams_on_one_handler", "streams_handled_side_by_side"},
		Race:    true, QuickBatches: 16, ThoroughBatches: 64, Parallel: 8, Level: "exploration", Floor: 200,
		Rule:        "inputs: empty, lone 0xD3, 0xD3 runs, junk ending in 0xD3, every truncation point of a frame (alone and after a complete frame), hostile and clean generated streams; each run under several schedules: input channel capacity in {0,1,2,64,len}, output capacity in {0,1,8}, producer/consumer timing profiles (full speed, frequent yields, rare sleeps, bursts), GOMAXPROCS in {1,2,4,16}, and check-time yield/sleep hooks before every channel operation of the handler. Oracle: concatenation of delivered raw bytes equals the input, no empty message, output closed (range terminates), HandleMessages returned; a second close or send-after-close is observed as a crash of the child; race detector on. Non-trivial: the input has segments of at least two kinds or ends inside a frame. Distinct by hash of (input, capacities, GOMAXPROCS, profiles).",
		Assumptions: commonAssumptions,
	},
	"C03": {
		Require:      []string{"payload_lengths_swept", "truncation_positions_swept", "messages_delivered_as_expected", "long_sessions", "long_junk_runs", "stalled_runs", "held_up_once_runs", "streams_handled_side_by_side", "live_source_runs", "second_streams_on_one_handler"},
		QuickBatches: 8, ThoroughBatches: 64, Parallel: 16, Level: "exploration", Floor: 200,
		Rule:        "streams built from valid frames (any type, payload 1..1023; every payload length swept at least once; 0xD3 forced into payloads and found in CRC bytes), 0xD3-free junk runs (NMEA, UBX-like, HTTP, random; adjacent runs merged) and an optional truncated final frame (every truncation position of short frames swept). The expected (type, bytes) sequence is the generator's own segment list - no reference parser. Non-trivial: >=2 frames and (>=1 junk run or a truncated tail). Distinct by hash of the stream bytes.",
		Assumptions: commonAssumptions,
	},
	"C12": {
		Require:      []string{"single_bit_flips", "byte_overwrites", "random_faults", "neighbour_time_fields_compared", "repeated_frame_faults", "rollover_neighbour_faults", "stalled_runs", "short_victim_streams", "crc_byte_pairs_swept", "streams_handled_side_by_side"},
		QuickBatches: 8, ThoroughBatches: 64, Parallel: 16, Level: "fault_enumeration", Floor: 1000,
		Rule:        "streams of 2..5 short frames and 0xD3-free junk; every frame in turn is the victim; faults: every single-bit flip of payload and CRC (exhaustive for the short frames), every byte overwritten by 0xD3 and by 0x00, random multi-bit sets, bursts of 2..32 bits, CRC-only and payload-only corruption, plus random faults in large frames; the 3-byte leader is never touched; corruptions that keep the CRC valid are skipped and counted. Expected sequence by construction: the victim as one non-RTCM message with exactly its corrupted bytes, every other segment unchanged. Non-trivial: the victim has a successor frame. Distinct by hash of (faulted stream, victim index).",
		Assumptions: commonAssumptions,
	},
	"C14": {
		Require:      []string{"large_buffer_extractions", "refilled_buffer_extractions", "concurrent_extractions", "shared_buffer_extractions", "extractions_from_read_only_memory", "processes_whose_first_extractions_were_side_by_side"},
		QuickBatches: 8, ThoroughBatches: 64, Parallel: 16, Level: "exploration", Floor: 1000, MayBeExhaustive: true,
		Rule:        "structured part: every alignment (pos mod 8 in 0..7) x every width 1..64 (signed 2..64) x byte offsets {0,1,7} x patterns {all 0, all 1, walking 1, walking 0, min of width, max of width, 0xAA, 0x55}, each compared with a math/big extraction and re-run on a copy with all outside bits complemented; plus seeded random (buffer,pos,width) triples. A case is non-trivial when the field is not all-zero bits and does not start on a byte boundary or spans more than one byte; distinct by hash of (buffer,pos,width,signedness).",
		Assumptions: commonAssumptions,
	},
}
