// vcheck is the driver: for one property it rebuilds the monitors and application
// binaries from the repository's current working tree (with the check-time hook
// overlay), runs the monitor children batch by batch with crash containment, runs
// nothing from a model - every verdict comes from an oracle observing executions -
// and writes the evidence file.
//
//	vcheck <ID> --tier quick|thorough
//	vcheck <ID> --replay <file>
//
// Exit 0: property held on everything explored (KNOWN-FINDING lines may be printed).
// Exit 1: a line "VIOLATION property=<ID> replay=<path>" was printed.
// Exit 2: INCONCLUSIVE - infrastructure failure or nothing non-trivial observed.
package main

import (
	"bytes"
	"crypto/sha1"
	"encoding/hex"
	"encoding/json"
	"fmt"
	"os"
	"os/exec"
	"path/filepath"
	"regexp"
	"sort"
	"strconv"
	"strings"
	"sync"
	"syscall"
	"time"

	"verifharness/inject"
)

type violation struct {
	Signature string          `json:"signature"`
	Detail    string          `json:"detail"`
	Case      json.RawMessage `json:"case"`
	NoTZ      bool            `json:"no_time_zone_database,omitempty"`
}

// noTZ: children (batch numbers) that run without a time zone database, see tzlessCommand.
var noTZ = map[int]bool{}

// tzlessAvailable reports whether this sandbox lets us start a process in a mount
// namespace of its own with an empty file system over /usr/share/zoneinfo.
func tzlessAvailable() bool {
	if _, err := exec.LookPath("unshare"); err != nil {
		return false
	}
	return exec.Command("unshare", "-m", "sh", "-c", "mount -t tmpfs none /usr/share/zoneinfo").Run() == nil
}

// ownNetwork: children run in a network namespace of their own.
var ownNetwork bool

// ownNetworkAvailable reports whether a process can be given a network namespace of
// its own with a working loopback interface.
func ownNetworkAvailable() bool {
	if _, err := exec.LookPath("unshare"); err != nil {
		return false
	}
	return exec.Command("unshare", "-n", "sh", "-c", "ip link set lo up").Run() == nil
}

// tzlessCommand wraps a command so that it runs without a time zone database.
func tzlessCommand(bin string, args []string) *exec.Cmd {
	all := append([]string{"-m", "sh", "-c", `mount -t tmpfs none /usr/share/zoneinfo && unset ZONEINFO && exec "$0" "$@"`, bin}, args...)
	return exec.Command("unshare", all...)
}

type childResult struct {
	Prop         string            `json:"prop"`
	Batch        int               `json:"batch"`
	Done         bool              `json:"done"`
	Evaluations  int64             `json:"evaluations"`
	Hashes       []uint64          `json:"hashes"`
	Counters     map[string]int64  `json:"counters"`
	Samples      []json.RawMessage `json:"samples"`
	Violations   []violation       `json:"violations"`
	Inconclusive []string          `json:"inconclusive"`
	Exhaustive   bool              `json:"exhaustive"`
	Notes        []string          `json:"notes"`
	WallS        float64           `json:"wall_s"`
}

var (
	verifRoot = envOr("VERIF_ROOT", "/verif")
	repoDir   = envOr("VERIF_REPO", "/repo")
)

func envOr(k, d string) string {
	if v := os.Getenv(k); v != "" {
		return v
	}
	return d
}

func goEnv() []string {
	env := os.Environ()
	env = append(env, "GOFLAGS=-mod=mod", "GOPROXY=off", "GOSUMDB=off", "GOTOOLCHAIN=local", "CGO_ENABLED=1")
	return env
}

func runCmd(dir string, env []string, name string, args ...string) (string, error) {
	cmd := exec.Command(name, args...)
	cmd.Dir = dir
	cmd.Env = env
	var out bytes.Buffer
	cmd.Stdout = &out
	cmd.Stderr = &out
	err := cmd.Run()
	return out.String(), err
}

// altModfile supports running the checks against a copy of the repository
// (VERIF_REPO=<dir>, used when trying seeded changes in scratch worktrees): the
// harness module's "replace => /repo" is redirected through a generated go.mod.
// With the default /repo nothing is generated.
func altModfile(work string) string {
	if repoDir == "/repo" {
		return ""
	}
	b, err := os.ReadFile(filepath.Join(verifRoot, "harness", "go.mod"))
	if err != nil {
		return ""
	}
	mod := strings.Replace(string(b), "=> /repo", "=> "+repoDir, 1)
	mf := filepath.Join(work, "alt.mod")
	os.WriteFile(mf, []byte(mod), 0644)
	if sum, err := os.ReadFile(filepath.Join(verifRoot, "harness", "go.sum")); err == nil {
		os.WriteFile(filepath.Join(work, "alt.sum"), sum, 0644)
	}
	return mf
}

func inconclusive(id, why string) {
	fmt.Printf("INCONCLUSIVE property=%s %s\n", id, why)
	os.Exit(2)
}

func main() {
	if len(os.Args) < 2 {
		fmt.Println("usage: vcheck <ID> [--tier quick|thorough] [--replay file] [--keep]")
		os.Exit(2)
	}
	id := os.Args[1]
	tier := envOr("VERIF_TIER", "quick")
	replay := ""
	keep := false
	for i := 2; i < len(os.Args); i++ {
		switch os.Args[i] {
		case "--tier":
			i++
			tier = os.Args[i]
		case "--replay":
			i++
			replay = os.Args[i]
		case "--keep":
			keep = true
		}
	}
	if id == "setup" {
		setup()
		return
	}
	cfg, ok := props[id]
	if !ok {
		fmt.Println("unknown property", id)
		os.Exit(2)
	}
	seed := uint64(1)
	if s := os.Getenv("VERIF_SEED"); s != "" {
		if v, err := strconv.ParseUint(s, 10, 64); err == nil {
			seed = v
		}
	}
	start := time.Now()
	work := filepath.Join(verifRoot, ".work", fmt.Sprintf("%s.%d", id, os.Getpid()))
	os.RemoveAll(work)
	if err := os.MkdirAll(filepath.Join(work, "bin"), 0755); err != nil {
		inconclusive(id, "cannot create work directory: "+err.Error())
	}
	if !keep {
		defer os.RemoveAll(work)
	}
	exit := func(code int) {
		if !keep {
			os.RemoveAll(work)
		}
		os.Exit(code)
	}

	// 1. overlay from the repository's current working tree
	extra := map[string]string{}
	for _, app := range cfg.AppTests {
		extra["apps/"+app+"/verif_mon_test.go"] = filepath.Join(verifRoot, "harness", "apptests_src", "common_test.go.src")
	}
	// extractions made while package utils is still initialising its variables (read by
	// the C14 monitor; the monitors are one program, so the file is always there)
	extra["rtcm/utils/verif_init_probe.go"] = filepath.Join(verifRoot, "harness", "vhook_src", "utils_init_probe.go.src")
	ov, err := inject.Build(repoDir, filepath.Join(work, "ov"), filepath.Join(verifRoot, "harness", "vhook_src", "verifhook.go.src"), extra, true)
	if err != nil {
		fmt.Println(err)
		inconclusive(id, "cannot build the hook overlay")
	}

	// 2. build the monitor and the application binaries from the current tree
	env := goEnv()
	vmon := filepath.Join(work, "bin", "vmon")
	args := []string{"build"}
	if cfg.Race {
		args = append(args, "-race")
	}
	if mf := altModfile(work); mf != "" {
		args = append(args, "-modfile="+mf)
	}
	args = append(args, "-overlay", ov.OverlayPath, "-o", vmon, "./cmd/vmon")
	if out, err := runCmd(filepath.Join(verifRoot, "harness"), env, "go", args...); err != nil {
		fmt.Println(out)
		inconclusive(id, "the monitor does not build against the repository's current tree")
	}
	if cfg.PlainToo && cfg.Race {
		a := []string{"build"}
		if mf := altModfile(work); mf != "" {
			a = append(a, "-modfile="+mf)
		}
		a = append(a, "-overlay", ov.OverlayPath, "-o", vmon+".plain", "./cmd/vmon")
		if out, err := runCmd(filepath.Join(verifRoot, "harness"), env, "go", a...); err != nil {
			fmt.Println(out)
			inconclusive(id, "the monitor does not build without the race detector against the repository's current tree")
		}
	}
	if cfg.PreludeRace && !cfg.Race {
		a := []string{"build", "-race"}
		if mf := altModfile(work); mf != "" {
			a = append(a, "-modfile="+mf)
		}
		a = append(a, "-overlay", ov.OverlayPath, "-o", vmon+".race", "./cmd/vmon")
		if out, err := runCmd(filepath.Join(verifRoot, "harness"), env, "go", a...); err != nil {
			fmt.Println(out)
			inconclusive(id, "the monitor does not build with the race detector against the repository's current tree")
		}
	}
	for _, app := range cfg.Bins {
		a := []string{"build"}
		if cfg.BinRace {
			a = append(a, "-race")
		}
		a = append(a, "-overlay", ov.OverlayPath, "-o", filepath.Join(work, "bin", app), "./apps/"+app)
		if out, err := runCmd(repoDir, env, "go", a...); err != nil {
			fmt.Println(out)
			inconclusive(id, "application "+app+" does not build")
		}
	}
	for _, app := range cfg.AppTests {
		a := []string{"test", "-c", "-race", "-vet=off", "-overlay", ov.OverlayPath, "-o", filepath.Join(work, "bin", app+".test"), "./apps/" + app}
		if out, err := runCmd(repoDir, env, "go", a...); err != nil {
			fmt.Println(out)
			inconclusive(id, "in-process monitor for "+app+" does not build")
		}
	}
	buildS := time.Since(start).Seconds()

	// replay mode: one child, one case
	if replay != "" {
		if abs, err := filepath.Abs(replay); err == nil {
			replay = abs
		}
		if rb, err := os.ReadFile(replay); err == nil {
			var rf struct {
				NoTZ bool `json:"no_time_zone_database"`
			}
			if json.Unmarshal(rb, &rf) == nil && rf.NoTZ && tzlessAvailable() {
				noTZ[0] = true
			}
		}
		if cfg.OwnNetwork && ownNetworkAvailable() {
			ownNetwork = true
		}
		res, crashed := runChild(id, cfg, vmon, work, tier, seed, 0, 1, replay)
		for _, v := range crashed {
			if v.Signature == "infrastructure" {
				fmt.Println(v.Detail)
				inconclusiveExit(id, "the replay could not be run", exit)
			}
		}
		n := 0
		for _, r := range res {
			n += len(r.Violations)
			for _, v := range r.Violations {
				fmt.Printf("reproduced: %s: %s\n", v.Signature, firstLine(v.Detail))
			}
		}
		n += len(crashed)
		for _, v := range crashed {
			fmt.Printf("reproduced: %s: %s\n", v.Signature, firstLine(v.Detail))
		}
		if n > 0 {
			fmt.Printf("VIOLATION property=%s replay=%s\n", id, replay)
			exit(1)
		}
		fmt.Println("replay: no violation observed")
		exit(0)
	}

	// 3. run the children
	nb := cfg.QuickBatches
	if tier == "thorough" {
		nb = cfg.ThoroughBatches
	}
	if nb < 1 {
		nb = 1
	}
	par := cfg.Parallel
	if par < 1 {
		par = 8
	}
	netNote := ""
	if cfg.OwnNetwork {
		if ownNetworkAvailable() {
			ownNetwork = true
			netNote = "every child ran in a network namespace of its own (its ports cannot collide with another process's)"
		} else {
			netNote = "children shared the machine's loopback network (unshare -n not permitted here)"
		}
	}
	tzNote := ""
	if cfg.NoTZChild {
		if tzlessAvailable() {
			noTZ[nb-1] = true
			tzNote = fmt.Sprintf("child %d of %d ran in a mount namespace without a time zone database", nb, nb)
		} else {
			tzNote = "no child could be run without a time zone database (unshare -m / mount not permitted here)"
		}
	}
	var mu sync.Mutex
	var results []childResult
	var crashes []violation
	var infra []string
	sem := make(chan struct{}, par)
	var wg sync.WaitGroup
	for b := 0; b < nb; b++ {
		wg.Add(1)
		sem <- struct{}{}
		go func(b int) {
			defer wg.Done()
			defer func() { <-sem }()
			res, cr := runChild(id, cfg, vmon, work, tier, seed, b, nb, "")
			mu.Lock()
			if noTZ[b] {
				for i := range res {
					for j := range res[i].Violations {
						res[i].Violations[j].NoTZ = true
						res[i].Violations[j].Detail += " [this child ran without a time zone database]"
					}
				}
				for i := range cr {
					cr[i].NoTZ = true
					cr[i].Detail += " [this child ran without a time zone database]"
				}
			}
			results = append(results, res...)
			for _, c := range cr {
				if c.Signature == "infrastructure" {
					infra = append(infra, c.Detail)
				} else {
					crashes = append(crashes, c)
				}
			}
			mu.Unlock()
		}(b)
	}
	wg.Wait()

	// 4. merge, judge, write evidence
	var evals int64
	hashes := map[uint64]struct{}{}
	counters := map[string]int64{}
	var samples []json.RawMessage
	var viols []violation
	var inconcl []string
	var notes []string
	exhaustive := len(results) > 0
	completed := 0
	for _, r := range results {
		evals += r.Evaluations
		for _, h := range r.Hashes {
			hashes[h] = struct{}{}
		}
		for k, v := range r.Counters {
			if strings.HasPrefix(k, "max_") {
				if v > counters[k] {
					counters[k] = v
				}
			} else {
				counters[k] += v
			}
		}
		if len(samples) < 4 {
			samples = append(samples, r.Samples...)
		}
		viols = append(viols, r.Violations...)
		inconcl = append(inconcl, r.Inconclusive...)
		for _, n := range r.Notes {
			dup := false
			for _, m := range notes {
				if m == n {
					dup = true
				}
			}
			if !dup {
				notes = append(notes, n)
			}
		}
		if r.Done {
			completed++
		}
		if !r.Exhaustive {
			exhaustive = false
		}
	}
	if len(samples) > 4 {
		samples = samples[:4]
	}
	viols = append(viols, crashes...)

	known := loadKnown(id)
	var unknown []violation
	knownSeen := map[string]bool{}
	for _, v := range viols {
		if txt, ok := known[v.Signature]; ok {
			if !knownSeen[v.Signature] {
				fmt.Printf("KNOWN-FINDING: property=%s %s\n", id, txt)
				knownSeen[v.Signature] = true
			}
			continue
		}
		unknown = append(unknown, v)
	}

	cov := map[string]interface{}{
		"evaluations":         evals,
		"distinct_nontrivial": len(hashes),
		"rule":                cfg.Rule,
		"samples":             samples,
		"events_observed":     counters,
		"children_completed":  completed,
		"children_started":    nb,
		"children_crashed":    len(crashes),
		"inconclusive_cases":  len(inconcl),
		"hook_sites":          len(ov.Sites),
		"hook_files":          ov.Files,
		"build_s":             round2(buildS),
		"race_detector":       cfg.Race || cfg.BinRace || cfg.PreludeRace,
		"notes":               nonEmpty(append(notes, tzNote, netNote)),
	}
	if len(inconcl) > 0 {
		n := inconcl
		if len(n) > 10 {
			n = n[:10]
		}
		cov["inconclusive_reasons"] = n
	}
	if len(ov.Skipped) > 0 {
		cov["hook_files_skipped"] = ov.Skipped
	}
	if cfg.MayBeExhaustive && exhaustive && len(crashes) == 0 {
		cov["exhaustive"] = true
	}
	ev := map[string]interface{}{
		"property_id": id,
		"tier":        tier,
		"seed":        seed,
		"level":       cfg.Level,
		"coverage":    cov,
		"assumptions": cfg.Assumptions,
		"wall_s":      round2(time.Since(start).Seconds()),
		"violations":  len(unknown),
	}
	evDir := filepath.Join(verifRoot, "evidence")
	if repoDir != "/repo" {
		// a trial run against a scratch copy is not evidence about /repo
		evDir = filepath.Join(verifRoot, ".work", "trial-evidence")
	}
	os.MkdirAll(evDir, 0755)
	evb, _ := json.MarshalIndent(ev, "", " ")
	evPath := filepath.Join(evDir, id+".json")
	os.WriteFile(evPath+".tmp", evb, 0644)
	os.Rename(evPath+".tmp", evPath)

	fmt.Printf("%s %s seed=%d: %d evaluations, %d distinct non-trivial, %d/%d children completed, %d violations (%d known), %d inconclusive cases, %.1fs\n",
		id, tier, seed, evals, len(hashes), completed, nb, len(viols), len(viols)-len(unknown), len(inconcl), time.Since(start).Seconds())
	keys := make([]string, 0, len(counters))
	for k := range counters {
		keys = append(keys, k)
	}
	sort.Strings(keys)
	for _, k := range keys {
		fmt.Printf("  observed %-40s %d\n", k, counters[k])
	}

	if len(unknown) > 0 {
		dir := filepath.Join(verifRoot, "replays", id)
		if repoDir != "/repo" {
			dir = filepath.Join(verifRoot, ".work", "trial-replays", filepath.Base(repoDir), id)
		}
		os.MkdirAll(dir, 0755)
		printed := map[string]bool{}
		for _, v := range unknown {
			b, _ := json.MarshalIndent(map[string]interface{}{
				"property": id, "signature": v.Signature, "detail": v.Detail, "case": v.Case, "seed": seed, "tier": tier, "no_time_zone_database": v.NoTZ,
			}, "", " ")
			sum := sha1.Sum(append([]byte(v.Signature), v.Case...))
			p := filepath.Join(dir, hex.EncodeToString(sum[:6])+".json")
			os.WriteFile(p, b, 0644)
			if !printed[p] && len(printed) < 10 {
				fmt.Printf("  %s: %s\n", v.Signature, firstLine(v.Detail))
				fmt.Printf("VIOLATION property=%s replay=%s\n", id, p)
				printed[p] = true
			}
		}
		exit(1)
	}
	if len(infra) > 0 {
		for _, s := range infra {
			fmt.Println("  infrastructure:", firstLine(s))
		}
		inconclusiveExit(id, "a monitor child failed for a reason that is not a property violation", exit)
	}
	if completed < nb {
		inconclusiveExit(id, "not every child completed", exit)
	}
	for _, name := range cfg.Require {
		if counters[name] <= 0 {
			inconclusiveExit(id, "the monitors observed no '"+name+"' events: that part of the property was not exercised", exit)
		}
	}
	floor := cfg.Floor
	if floor < 2 {
		floor = 2
	}
	if len(hashes) < floor {
		inconclusiveExit(id, fmt.Sprintf("only %d distinct non-trivial cases observed (floor %d)", len(hashes), floor), exit)
	}
	exit(0)
}

func inconclusiveExit(id, why string, exit func(int)) {
	fmt.Printf("INCONCLUSIVE property=%s %s\n", id, why)
	exit(2)
}

func round2(f float64) float64 { return float64(int64(f*100)) / 100 }

func firstLine(s string) string {
	if i := strings.IndexByte(s, '\n'); i >= 0 {
		s = s[:i]
	}
	if len(s) > 300 {
		s = s[:300] + "..."
	}
	return s
}

var raceRe = regexp.MustCompile(`WARNING: DATA RACE`)

// runChild runs one batch in a child process and classifies how it ended.
func runChild(id string, cfg propCfg, vmon, work, tier string, seed uint64, batch, nbatch int, replay string) ([]childResult, []violation) {
	cdir := filepath.Join(work, fmt.Sprintf("c%03d", batch))
	os.MkdirAll(cdir, 0755)
	out := filepath.Join(cdir, "result.json")
	cur := filepath.Join(cdir, "current.case")
	logPath := filepath.Join(cdir, "log.txt")
	args := []string{"-prop", id, "-tier", tier, "-seed", strconv.FormatUint(seed, 10), "-batch", strconv.Itoa(batch), "-nbatch", strconv.Itoa(nbatch),
		"-out", out, "-cur", cur, "-bindir", filepath.Join(work, "bin"), "-workdir", cdir}
	if replay != "" {
		args = append(args, "-replay", replay)
	}
	cmd := exec.Command(vmon, args...)
	env := os.Environ()
	if noTZ[batch] {
		cmd = tzlessCommand(vmon, args)
		env = append(env, "VMON_NOTZ=1")
	} else if ownNetwork {
		all := append([]string{"-n", "sh", "-c", `ip link set lo up && exec "$0" "$@"`, vmon}, args...)
		cmd = exec.Command("unshare", all...)
		env = append(env, "VMON_OWN_NETWORK=1")
	}
	cmd.Dir = cdir
	if cfg.GCStress && batch%2 == 1 {
		env = append(env, "GOGC=10")
	}
	env = append(env, "GORACE=halt_on_error=1 exitcode=66", "GOTRACEBACK=all", "VERIF_REPO="+repoDir)
	cmd.Env = env
	lf, err := os.Create(logPath)
	if err != nil {
		return nil, []violation{{Signature: "infrastructure", Detail: err.Error()}}
	}
	cmd.Stdout = lf
	cmd.Stderr = lf
	if err := cmd.Start(); err != nil {
		lf.Close()
		return nil, []violation{{Signature: "infrastructure", Detail: err.Error()}}
	}
	timeout := cfg.ChildTimeoutQ
	if tier == "thorough" {
		timeout = cfg.ChildTimeoutT
	}
	if timeout == 0 {
		timeout = 20 * time.Minute
	}
	done := make(chan error, 1)
	go func() { done <- cmd.Wait() }()
	timedOut := false
	var werr error
	select {
	case werr = <-done:
	case <-time.After(timeout):
		timedOut = true
		cmd.Process.Signal(syscall.SIGQUIT) // the Go runtime dumps all goroutines
		select {
		case werr = <-done:
		case <-time.After(10 * time.Second):
			cmd.Process.Kill()
			werr = <-done
		}
	}
	lf.Close()

	var results []childResult
	if b, err := os.ReadFile(out); err == nil {
		var r childResult
		if json.Unmarshal(b, &r) == nil {
			results = append(results, r)
		}
	}
	if werr == nil && len(results) == 1 && results[0].Done {
		return results, nil
	}
	// the child did not finish normally
	logb, _ := os.ReadFile(logPath)
	logs := string(logb)
	tail := logs
	if len(tail) > 6000 {
		tail = tail[:3000] + "\n...\n" + tail[len(tail)-3000:]
	}
	var caseJSON json.RawMessage = []byte("null")
	if cb, err := os.ReadFile(cur); err == nil && len(cb) > 11 {
		if n, err := strconv.Atoi(strings.TrimSpace(string(cb[:10]))); err == nil && 11+n <= len(cb) {
			if json.Valid(cb[11 : 11+n]) {
				caseJSON = append([]byte(nil), cb[11:11+n]...)
			}
		}
	}
	results = nil // a partial result of a crashed child is not counted
	switch {
	case strings.Contains(logs, "HANG-VERDICT: circling"):
		return results, []violation{{Signature: "hang", Detail: "the stream handler delivered more messages than its input has bytes: it is going round in circles and will never finish\n" + tail, Case: caseJSON}}
	case strings.Contains(logs, "HANG-VERDICT: endless"):
		// one case ran for more than 10^4 times the median case time; confirm by
		// re-running that case alone in a fresh process before calling it a violation
		if replay == "" && string(caseJSON) != "null" {
			rp := filepath.Join(cdir, "endless-replay.json")
			b, _ := json.Marshal(map[string]interface{}{"case": caseJSON})
			os.WriteFile(rp, b, 0644)
			_, again := runChild(id, cfg, vmon, filepath.Join(work, "confirm"), tier, seed, batch, nbatch, rp)
			for _, v := range again {
				if v.Signature == "hang" {
					return results, []violation{{Signature: "hang", Detail: "a single case did not return within 60 s, twice (second time alone in a fresh process)\n" + tail, Case: caseJSON}}
				}
			}
			return results, []violation{{Signature: "infrastructure", Detail: "a case exceeded its watchdog once but returned when re-run alone; inconclusive\n" + tail}}
		}
		return results, []violation{{Signature: "hang", Detail: "a single case did not return within 60 s\n" + tail, Case: caseJSON}}
	case timedOut:
		if strings.Contains(logs, "HANG-VERDICT: deadlock") {
			return results, []violation{{Signature: "deadlock", Detail: "monitor child hung with every repository goroutine blocked\n" + tail, Case: caseJSON}}
		}
		return results, []violation{{Signature: "infrastructure", Detail: fmt.Sprintf("child %d exceeded the wall-clock watchdog (%s); inconclusive, not a violation\n%s", batch, timeout, tail)}}
	case strings.Contains(logs, "HANG-VERDICT: deadlock"):
		why := "every repository goroutine blocked, no progress possible"
		if strings.Contains(logs, "no goroutine of the code under test is left") {
			why = "the code under test returned without doing what was awaited (output not closed / input not consumed); no goroutine of it is left, no progress possible"
		}
		return results, []violation{{Signature: "deadlock", Detail: why + "\n" + tail, Case: caseJSON}}
	case strings.Contains(logs, "HANG-VERDICT: busy"):
		return results, []violation{{Signature: "infrastructure", Detail: "case exceeded its watchdog while goroutines were still runnable; inconclusive\n" + tail}}
	case raceRe.MatchString(logs):
		return results, []violation{{Signature: "data-race", Detail: "the race detector reported a data race\n" + raceBlock(logs), Case: caseJSON}}
	case strings.Contains(logs, "panic:") || strings.Contains(logs, "fatal error:"):
		return results, []violation{{Signature: "crash", Detail: panicLine(logs) + "\n" + tail, Case: caseJSON}}
	default:
		return results, []violation{{Signature: "infrastructure", Detail: fmt.Sprintf("child %d exited abnormally (%v)\n%s", batch, werr, tail)}}
	}
}

func panicLine(logs string) string {
	for _, l := range strings.Split(logs, "\n") {
		if strings.HasPrefix(l, "panic:") || strings.HasPrefix(l, "fatal error:") {
			return l
		}
	}
	return "crash"
}

func raceBlock(logs string) string {
	i := strings.Index(logs, "WARNING: DATA RACE")
	if i < 0 {
		return ""
	}
	b := logs[i:]
	if len(b) > 5000 {
		b = b[:5000]
	}
	return b
}

// loadKnown reads the committed known-findings file.  Only "open:" lines suppress
// anything, and only for the exact (property, signature) they name.
func loadKnown(id string) map[string]string {
	out := map[string]string{}
	b, err := os.ReadFile(filepath.Join(verifRoot, "known_findings.txt"))
	if err != nil {
		return out
	}
	for _, line := range strings.Split(string(b), "\n") {
		line = strings.TrimSpace(line)
		if !strings.HasPrefix(line, "open:") {
			continue
		}
		fields := strings.Fields(line[len("open:"):])
		var prop, sig string
		var rest []string
		for _, f := range fields {
			switch {
			case strings.HasPrefix(f, "property="):
				prop = strings.TrimPrefix(f, "property=")
			case strings.HasPrefix(f, "signature="):
				sig = strings.TrimPrefix(f, "signature=")
			default:
				rest = append(rest, f)
			}
		}
		if prop == id && sig != "" {
			out[sig] = "signature=" + sig + " " + strings.Join(rest, " ")
		}
	}
	return out
}

// setup warms the build cache: it builds the monitor with and without the race
// detector against the repository as it is now.
func setup() {
	work := filepath.Join(verifRoot, ".work", fmt.Sprintf("setup.%d", os.Getpid()))
	os.MkdirAll(work, 0755)
	defer os.RemoveAll(work)
	ov, err := inject.Build(repoDir, filepath.Join(work, "ov"), filepath.Join(verifRoot, "harness", "vhook_src", "verifhook.go.src"), nil, true)
	if err != nil {
		fmt.Println("setup: overlay:", err)
		os.Exit(1)
	}
	env := goEnv()
	for _, race := range []bool{false, true} {
		args := []string{"build"}
		if race {
			args = append(args, "-race")
		}
		args = append(args, "-overlay", ov.OverlayPath, "-o", filepath.Join(work, "vmon"), "./cmd/vmon")
		if out, err := runCmd(filepath.Join(verifRoot, "harness"), env, "go", args...); err != nil {
			fmt.Println(out)
			fmt.Println("setup: warning: monitor build failed (checks will report INCONCLUSIVE):", err)
		}
	}
	fmt.Printf("setup: ok, %d hook sites in %d files\n", len(ov.Sites), len(ov.Files))
}

func nonEmpty(in []string) []string {
	out := []string{}
	for _, s := range in {
		if s != "" {
			out = append(out, s)
		}
	}
	return out
}
