module verifharness

go 1.23

require (
	github.com/anishathalye/porcupine v1.3.0
	github.com/goblimey/go-ntrip v0.0.0
	github.com/goblimey/go-tools v0.0.11
)

require github.com/goblimey/go-crc24q v0.0.0-20210107174841-6ea518daa3aa // indirect

replace github.com/goblimey/go-ntrip => /repo
