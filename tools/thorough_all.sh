#!/bin/bash
# Runs the thorough tier of every check (or the ids given) against /repo and reports
# anything that is not a silent pass.  Intended for `vp run` (VERIF_ROOT=$PWD).
export GOFLAGS=-mod=mod GOPROXY=off GOSUMDB=off GOTOOLCHAIN=local
ROOT=${VERIF_ROOT:-/verif}
cd "$ROOT" || exit 2
if [ ! -x bin/vcheck ]; then (cd harness && go build -o ../bin/vcheck ./cmd/vcheck) || exit 2; fi
ids=${@:-C01 C02 C03 C04 C05 C06 C07 C08 C09 C10 C11 C12 C13 C14 C15 C16 C17 C18 C19 C20}
bad=0
for p in $ids; do
  s=$(date +%s)
  out=$(./bin/vcheck $p --tier thorough 2>&1); rc=$?
  e=$(date +%s)
  line=$(echo "$out" | grep "^$p thorough" | cut -c1-170)
  if [ $rc -ne 0 ] || echo "$out" | grep -q "VIOLATION\|INCONCLUSIVE"; then
    bad=$((bad+1)); echo "NOT SILENT $p rc=$rc $((e-s))s"; echo "$out" | grep -v "^  observed" | head -30
  else
    echo "ok $((e-s))s $line"
  fi
done
echo "thorough finished: $bad not silent"
