#!/bin/bash
# Runs the repository's own test suite (hooks off: plain go test, no overlay) and
# compares the result with the pinned baseline: every stable_pass test must pass.
export GOFLAGS=-mod=mod GOPROXY=off GOSUMDB=off GOTOOLCHAIN=local
out=$(mktemp)
(cd /repo && go test -json -vet=off -count=1 -timeout 25m ./... > "$out" 2>/dev/null)
python3 - "$out" <<'PY'
import json,sys
base=json.load(open('/root/.vp/BASELINE.json'))
res={}
for l in open(sys.argv[1]):
    try: e=json.loads(l)
    except: continue
    t=e.get('Test')
    if t and '/' not in t and e.get('Action') in('pass','fail','skip'):
        res[e['Package']+'::'+t]=e['Action']
missing=[t for t in base['stable_pass'] if res.get(t)!='pass']
print("stable_pass:",len(base['stable_pass']),"passing now:",len(base['stable_pass'])-len(missing))
for t in missing: print("  NOT PASSING:",t,res.get(t))
other=[t for t,a in res.items() if a=='fail' and t not in base['stable_pass']]
print("other failures (expected: always_fail list):",other)
sys.exit(1 if missing else 0)
PY
rc=$?
rm -f "$out"
exit $rc
