#!/usr/bin/env python3
"""Copies confirmed candidate changes from the sub-agents' scratch area into /verif/seeded.
usage: import_mutants.py <scratch root> <tag> [ids...]   e.g. /tmp/mut2 r2"""
import os, json, shutil, re, sys, subprocess
root, tag = sys.argv[1], sys.argv[2]
ids = sys.argv[3:] or sorted(d for d in os.listdir(root) if re.match(r'C\d\d$', d))
head = subprocess.run('git -C /repo log --format=%h -1', shell=True, stdout=subprocess.PIPE).stdout.decode().strip()
for pid in ids:
    for m in ('m1', 'm2'):
        src = f'{root}/{pid}/_out/{m}'
        if not os.path.exists(src + '/confirm.json'):
            continue
        conf = json.load(open(src + '/confirm.json'))
        if not conf['confirmed']:
            print('not confirmed, skipped:', src); continue
        dst = f'/verif/seeded/{pid}-{tag}{m}'
        os.makedirs(dst, exist_ok=True)
        for f in os.listdir(src):
            if f in ('patch.diff', 'demo_test.go', 'notes.md', 'run_real.sh'):
                shutil.copy(src + '/' + f, dst + '/' + f)
        meta = {'property': pid,
                'origin': 'fresh sub-agent given only the property text (and one-line titles of changes already tried) and its own scratch worktree of /repo',
                'demo': {'copy_into': conf['pkg'], 'command': conf['demo_cmd']},
                'confirmed_by': 'tools/confirm_mutant.py in the scratch worktree: demo passes without the change (rc %d), patch applies, repository builds, demo fails with the change (rc %d), all %d pinned stable tests pass with the change' % (conf['demo_without_change_rc'], conf['demo_with_change_rc'], conf['suite_stable_pass_total']),
                'needs_to_manifest': 'see notes.md',
                'repo_commit': head}
        json.dump(meta, open(dst + '/meta.json', 'w'), indent=1)
        print('imported', dst)
