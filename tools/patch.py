"""Small helper for scripted edits: sub(path, [(old, new), ...]) with whitespace-tolerant matching
of runs of spaces/tabs inside a line (gofmt realigns struct fields)."""
import re
def sub(path, pairs):
    s = open(path).read()
    for old, new in pairs:
        if old in s:
            s = s.replace(old, new, 1)
            continue
        # tolerant: collapse runs of blanks inside lines
        pat = re.escape(old)
        pat = re.sub(r'(\\ |\\\t)+', r'[ \\t]+', pat)
        m = re.search(pat, s)
        assert m, (path, old[:80])
        s = s[:m.start()] + new + s[m.end():]
    open(path, 'w').write(s)
