#!/usr/bin/env python3
"""Confirms a candidate breaking change in a scratch worktree (never in /repo):
demo passes without the change, fails with it; the repository builds and its
pinned stable tests all still pass with the change applied.
usage: confirm_mutant.py <worktree> <mutant_dir>  -> writes <mutant_dir>/confirm.json"""
import json, os, re, subprocess, sys, shutil
wt, md = sys.argv[1], sys.argv[2]
env = dict(os.environ, GOFLAGS='-mod=mod', GOPROXY='off', GOSUMDB='off', GOTOOLCHAIN='local')
def run(cmd, timeout=1500):
    p = subprocess.run(cmd, shell=True, cwd=wt, env=env, stdout=subprocess.PIPE, stderr=subprocess.STDOUT, timeout=timeout)
    return p.returncode, p.stdout.decode(errors='replace')
def clean():
    run('git checkout -- . && git clean -fdq -e _out')
notes = open(os.path.join(md, 'notes.md')).read()
cands = re.findall(r"go test[^`\n]*?-run[ =]+['\"]?([\w^$|]+)['\"]?[^`\n#]*?(\./[\w/]+)", notes)
assert cands, 'no demo command with a package path found in notes.md'
runname, pkg = cands[0]
pkg = pkg.rstrip('/')
race = '-race ' if re.search(r"go test[^`\n]*-race[^`\n]*-run[ =]+['\"]?" + re.escape(runname), notes) else ''
cmd = "go test %s-vet=off -count=1 -run '%s' %s/" % (race, runname, pkg)
res = {'demo_cmd': cmd, 'pkg': pkg}
clean()
demo_dst = os.path.join(wt, pkg, 'zz_demo_verif_test.go')
shutil.copy(os.path.join(md, 'demo_test.go'), demo_dst)
rc, out = run(cmd)
res['demo_without_change_rc'] = rc
res['demo_without_change_tail'] = out[-600:]
rc, out = run('git apply --whitespace=nowarn ' + os.path.join(md, 'patch.diff'))
res['apply_rc'] = rc
rc, out = run('go build ./...')
res['build_rc'] = rc
rc, out = run(cmd)
res['demo_with_change_rc'] = rc
res['demo_with_change_tail'] = out[-1200:]
os.remove(demo_dst)
rc, out = run('go test -json -vet=off -count=1 -timeout 25m ./...')
base = json.load(open('/root/.vp/BASELINE.json'))
got = {}
for l in out.splitlines():
    try: e = json.loads(l)
    except Exception: continue
    t = e.get('Test')
    if t and '/' not in t and e.get('Action') in ('pass', 'fail', 'skip'):
        got[e['Package'] + '::' + t] = e['Action']
missing = [t for t in base['stable_pass'] if got.get(t) != 'pass']
res['suite_stable_pass_total'] = len(base['stable_pass'])
res['suite_not_passing'] = missing
clean()
res['confirmed'] = (res['demo_without_change_rc'] == 0 and res['apply_rc'] == 0 and res['build_rc'] == 0 and res['demo_with_change_rc'] != 0 and not missing)
json.dump(res, open(os.path.join(md, 'confirm.json'), 'w'), indent=1)
print(md, 'CONFIRMED' if res['confirmed'] else 'NOT CONFIRMED', {k: res[k] for k in ('demo_without_change_rc', 'apply_rc', 'build_rc', 'demo_with_change_rc')}, missing[:3])
