#!/usr/bin/env python3
"""Runs checks against the seeded breaking changes.
Default mode (the one recorded in seeded/results.json): apply each patch to /repo
itself, run the quick check of the property it targets (and any extra ids given
with --also), record whether a VIOLATION was reported, and always restore /repo.
--worktrees N: instead use N scratch worktrees of /repo under /tmp (VERIF_REPO) in
parallel - faster while exploring; /repo is not touched.
usage: run_seeded.py [--tier quick] [--also C07,C02] [--worktrees N] [names...]"""
import json, os, subprocess, sys, time, threading, queue
ROOT='/verif'
args=sys.argv[1:]
tier='quick'; also=[]; names=[]; nwt=0
i=0
while i<len(args):
    if args[i]=='--tier': tier=args[i+1]; i+=2
    elif args[i]=='--also': also=args[i+1].split(','); i+=2
    elif args[i]=='--worktrees': nwt=int(args[i+1]); i+=2
    else: names.append(args[i]); i+=1
if not names: names=sorted(os.listdir(ROOT+'/seeded'))
names=[n for n in names if os.path.isdir(f'{ROOT}/seeded/{n}') and os.path.exists(f'{ROOT}/seeded/{n}/patch.diff')]
def sh(cmd,**kw): return subprocess.run(cmd,shell=True,stdout=subprocess.PIPE,stderr=subprocess.STDOUT,**kw)
resf=ROOT+'/seeded/results.json'
summary=json.load(open(resf)) if os.path.exists(resf) else {}
lock=threading.Lock()
def run_one(n, repo):
    d=f'{ROOT}/seeded/{n}'
    meta=json.load(open(d+'/meta.json'))
    props=[meta['property']]+[a for a in also if a!=meta['property']]
    r=sh(f'git -C {repo} apply --whitespace=nowarn {d}/patch.diff')
    if r.returncode!=0:
        print(n,'PATCH DOES NOT APPLY',r.stdout.decode()[:300],flush=True); return
    try:
        out={}
        for p in props:
            t0=time.time()
            env=dict(os.environ)
            if repo!='/repo': env['VERIF_REPO']=repo
            r=sh(f'{ROOT}/bin/vcheck {p} --tier {tier}',cwd=ROOT,env=env)
            txt=r.stdout.decode(errors='replace')
            sigs=sorted(set(l.strip().split(':')[0] for l in txt.splitlines() if l.startswith('  ') and ':' in l and not l.strip().startswith('observed')))
            out[p]={'exit':r.returncode,'violation':'VIOLATION property=' in txt,'signatures':sigs[:6],'wall_s':round(time.time()-t0,1),'mode':'applied to /repo' if repo=='/repo' else 'scratch worktree','tier':tier}
            print(n,p,'exit',r.returncode,'DETECTED' if out[p]['violation'] else ('INCONCLUSIVE' if r.returncode==2 else 'missed'),sigs[:3],f'{time.time()-t0:.0f}s',flush=True)
        with lock:
            summary.setdefault(n,{}).update(out)
            json.dump(summary,open(resf,'w'),indent=1,sort_keys=True)
    finally:
        sh(f'git -C {repo} checkout -- .')
        sh(f'git -C {repo} clean -fdq')
if nwt<=0:
    assert sh('git -C /repo status --porcelain').stdout.strip()==b'', '/repo is not clean'
    for n in names: run_one(n,'/repo')
    assert sh('git -C /repo status --porcelain').stdout.strip()==b''
else:
    q=queue.Queue()
    for n in names: q.put(n)
    wts=[]
    for k in range(nwt):
        w=f'/tmp/seedwt{k}'
        sh(f'git -C /repo worktree remove --force {w}'); sh(f'rm -rf {w}')
        r=sh(f'git -C /repo worktree add -q --detach {w} HEAD'); assert r.returncode==0, r.stdout
        wts.append(w)
    def worker(w):
        while True:
            try: n=q.get_nowait()
            except queue.Empty: return
            run_one(n,w)
    ts=[threading.Thread(target=worker,args=(w,)) for w in wts]
    [t.start() for t in ts]; [t.join() for t in ts]
    for w in wts: sh(f'git -C /repo worktree remove --force {w}')
    sh('git -C /repo worktree prune')
