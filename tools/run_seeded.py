#!/usr/bin/env python3
"""Runs checks against the seeded breaking changes: applies each patch to /repo,
runs the quick check of the property it targets (and any extra ids given with
--also), records whether a VIOLATION was reported, and always restores /repo.
usage: run_seeded.py [--tier quick] [--also C07,C02] [names...]"""
import json, os, subprocess, sys, time
ROOT='/verif'
args=sys.argv[1:]
tier='quick'; also=[]; names=[]
i=0
while i<len(args):
    if args[i]=='--tier': tier=args[i+1]; i+=2
    elif args[i]=='--also': also=args[i+1].split(','); i+=2
    else: names.append(args[i]); i+=1
if not names: names=sorted(os.listdir(ROOT+'/seeded'))
names=[n for n in names if os.path.isdir(f'{ROOT}/seeded/{n}') and os.path.exists(f'{ROOT}/seeded/{n}/patch.diff')]
def sh(cmd,**kw): return subprocess.run(cmd,shell=True,stdout=subprocess.PIPE,stderr=subprocess.STDOUT,**kw)
assert sh('git -C /repo status --porcelain').stdout.strip()==b'', '/repo is not clean'
summary={}
resf=ROOT+'/seeded/results.json'
if os.path.exists(resf): summary=json.load(open(resf))
for n in names:
    d=f'{ROOT}/seeded/{n}'
    meta=json.load(open(d+'/meta.json'))
    props=[meta['property']]+[a for a in also if a!=meta['property']]
    r=sh(f'git -C /repo apply --whitespace=nowarn {d}/patch.diff')
    if r.returncode!=0:
        print(n,'PATCH DOES NOT APPLY',r.stdout.decode()[:300]); continue
    try:
        out={}
        for p in props:
            t0=time.time()
            r=sh(f'{ROOT}/bin/vcheck {p} --tier {tier}',cwd=ROOT)
            txt=r.stdout.decode(errors='replace')
            sigs=sorted(set(l.strip().split(':')[0] for l in txt.splitlines() if l.startswith('  ') and ':' in l and not l.strip().startswith('observed')))
            out[p]={'exit':r.returncode,'violation':'VIOLATION property=' in txt,'signatures':sigs[:6],'wall_s':round(time.time()-t0,1)}
            print(n,p,'exit',r.returncode,'DETECTED' if out[p]['violation'] else ('INCONCLUSIVE' if r.returncode==2 else 'missed'),sigs[:3],f'{time.time()-t0:.0f}s',flush=True)
        summary.setdefault(n,{}).update(out)
    finally:
        sh('git -C /repo checkout -- .')
        sh('git -C /repo clean -fdq')
    json.dump(summary,open(resf,'w'),indent=1,sort_keys=True)
assert sh('git -C /repo status --porcelain').stdout.strip()==b''
