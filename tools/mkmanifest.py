#!/usr/bin/env python3
"""Regenerates /verif/MANIFEST.json from the table below (kept in one place so the
manifest stays valid while checks are added)."""
import json, os, sys

ROOT = os.path.dirname(os.path.dirname(os.path.abspath(__file__)))

BASE_TECH = "runtime monitoring: generated workload run through the real code, "

CHECKS = {
 # id: (category, technique, level text, level note, design ref)
 "C01": ("exploration", BASE_TECH + "independent frame predicate (bitwise CRC-24Q) as oracle on every typed delivery and on direct single-frame decoding of crafted candidates",
         "Thousands of hostile streams and tens of thousands of crafted single-frame inputs are run through the real stream handler and GetMessage; every typed result is judged by a frame predicate written from the standard, independent of the code. Sampling of an unbounded input space: held on the executions observed.",
         "Trusts the harness CRC-24Q (checked against the catalogue value and every captured receiver frame at each run). CRC collisions are valid frames by definition.", "DESIGN.md section 6, C01"),
 "C02": ("exploration", BASE_TECH + "concatenation-equals-input oracle under the race detector with channel-capacity, timing, GOMAXPROCS and check-time yield-hook perturbation",
         "Each input is run under several schedules (capacities, producer/consumer timing, GOMAXPROCS, hooks before every channel operation); losslessness, non-empty messages, closure exactly once (double close = crash of the child) and return are observed directly. Schedules are perturbed, not enumerated.",
         "Trusts the Go race detector; an interleaving that needs a pre-emption where no hook and no natural yield exists can be missed.", "DESIGN.md section 6, C02"),
 "C03": ("exploration", BASE_TECH + "expected (type, bytes) sequence by construction from the generator's own segment list; every payload length and every truncation position swept",
         "The generator knows the segments it emitted, so the expected delivery sequence needs no reference parser; all payload lengths 1..1023 and every truncation point of short frames are executed.",
         "Inputs restricted to the property's precondition (0xD3-free junk).", "DESIGN.md section 6, C03"),
 "C04": ("exploration", BASE_TECH + "independent MSM4/MSM7 encoder (validated bit-for-bit on captured receiver frames at every run) as oracle for every exported decoded field at several paddings",
         "Random well-formed messages of all 14 types, all mask shapes and field extremes are encoded independently and decoded through both public paths; every field and cell attachment is compared; each message is decoded at several padding sizes.",
         "Trusts the independent encoder, itself anchored to real receiver data each run.", "DESIGN.md section 6, C04"),
 "C05": ("exploration", BASE_TECH + "independent 1005/1006 encoder and pure-integer decimal formatting as oracles; every truncation length and every wrong type number enumerated",
         "Boundary values, all truncations (payload and raw frame) and all 4095 wrong type numbers are enumerated; 10^5 random messages compare every field and the displayed 0.1 mm text at both log levels through both public paths.",
         "Display parsed by the fixed phrases of the current text format.", "DESIGN.md section 6, C05"),
 "C06": ("exploration", BASE_TECH + "truth-first time histories: true UTC instants generated first, timestamps derived by pure time arithmetic, reported times parsed back and compared",
         "Histories across 0..many rollovers, four constellations interleaved, start times within milliseconds of each rollover in several zones, illegal timestamps spliced in; through GetMessage and the stream handler. The oracle contains no rollover logic.",
         "GPS-UTC 18 s, BeiDou 4 s, GLONASS UTC+3 h as the property states; leap-second changes are outside the property.", "DESIGN.md section 6, C06"),
 "C07": ("exploration", BASE_TECH + "process survival with crash containment (child per batch, on-disk witness before each case, recover() on the monitor's goroutine, logical hang verdict)",
         "Every payload length 1..1023 for 19 type numbers in six hostile payload shapes, truncations and mask inflation of well-formed bodies, and hostile streams are pushed through framing, decoding and display at both log levels; a panic on the handler's goroutine kills only the child and is attributed to the recorded case.",
         "A hang is called only after the case ran 60 s twice (second time alone).", "DESIGN.md section 6, C07"),
 "C08": ("exploration", BASE_TECH + "200-bit big.Float evaluation of the standard's formulas as oracle (relative 1e-12), pinned wavelength table, MSM4/MSM7 cross-check",
         "2*10^5 cells (quick) covering every field's invalid marker, extremes and all (constellation, signal id) pairs, obtained by decoding independently encoded messages and by direct construction; text rules for invalid values checked.",
         "Frequency table pinned from the library's documented constants (the property does not fix physical values).", "DESIGN.md section 6, C08"),
 "C09": ("exploration", BASE_TECH + "race detector + check-time yield hooks at every channel operation + goroutine-state accounting; relational oracle = same build's sequential framing",
         "The real reader->framing->fan-out pipeline is run hundreds (thorough: tens of thousands) of times with chunked/paused/interrupted readers, 1-4 buffered/unbuffered/slow/nil consumers, several sources through one AppCore, GOMAXPROCS 1..16 and hook profiles; sequences, return, helper-goroutine exit, double close and races are observed.",
         "Schedules perturbed not enumerated; distinct interleavings observed are reported.", "DESIGN.md section 6, C09"),
 "C10": ("exploration", BASE_TECH + "in-process executor added to package main by build overlay + the real binary as a process; quiescence defined on goroutine states; frames judged by the independent predicate",
         "rtcmfilter's entry point is driven in process with all log combinations and slow writers, and the real binary is driven through pipes and files; stdout, the daily record file and the readable log are compared with the valid frames / message count of the same input.",
         "Log files read as date-ordered concatenation of a fresh directory.", "DESIGN.md section 6, C10"),
 "C11": ("exploration", BASE_TECH + "writer with controlled latency; bytes completed snapshotted by the calling goroutine in the statement after HandleMessages returns (no waiting in the verdict)",
         "Both applications' entry points are called in process with writers that delay each Write; a strict prefix at the instant of return is a violation. Process-level runs over finite files with a small, slowly read stdout pipe observe the user-visible consequence.",
         "atexit_sleep_ms=0 so the race runtime does not mask exit races.", "DESIGN.md section 6, C11"),
 "C12": ("fault_enumeration", BASE_TECH + "every single-bit flip and 0xD3/0x00 overwrite of each victim frame's payload+CRC enumerated; expected sequence by construction; neighbours' time fields compared with the uncorrupted run of the same build",
         "For streams of short frames every victim and every single-bit fault is executed (exhaustive for those frames) plus bursts/multi-bit/CRC-only/payload-only faults and large frames; the victim must come out alone as one non-RTCM message and every neighbour unchanged, including (for time-stable MSM streams) the times the handler derives from its state.",
         "Corruptions that keep the CRC valid are outside the precondition and skipped (counted).", "DESIGN.md section 6, C12"),
 "C13": ("fault_enumeration", BASE_TECH + "scripted io.Reader injecting EOF / i/o-timeout / other errors at every byte boundary; race detector; reader-side timestamps to tell a machine stall from an early give-up",
         "Single faults at every byte boundary, double faults, two separate interruptions and three kinds of stop script are executed against the real file handler; tolerant scripts must deliver exactly the uninterrupted sequence, stop scripts exactly the framing of the bytes supplied before the stop, channel closed, error returned.",
         "The code under test reads the wall clock; a tolerant script on which it gave up while the reader measured a stall is retried, then inconclusive.", "DESIGN.md section 6, C13"),
 "C14": ("exploration", BASE_TECH + "math/big reference oracle + outside-bit complement invariance; exhaustive over alignments x widths",
         "Every (alignment, width, signedness) combination is executed on structured patterns (exhaustive) and on millions of random buffers; each result is compared with an independent math/big extraction and must not change when all bits outside the field are complemented.",
         "Trusts math/big and the harness bit helpers (self-checked by a writer/extractor round trip at every run).", "DESIGN.md section 6, C14"),
 "C15": ("exploration", BASE_TECH + "canonical-result table per frame; histories through one handler and through the stream handler with retention; concurrent handlers and consumers under the race detector",
         "A pool of ~250 frames of all types is decoded in random orders with repetition, compared with the result a fresh handler gives, displayed twice with raw-byte hashes; 2-16 concurrent handlers on shared input slices fan value copies out to consumers; first-seen message types are displayed concurrently.",
         "Two goroutines never share one *Message (the property speaks of copies).", "DESIGN.md section 6, C15"),
 "C16": ("exploration", BASE_TECH + "the real rtcmlogger process with check-time delay hooks before the recorder's write; stdout and record file compared with stdin after exit",
         "150 (thorough 5000) processes over block-boundary sizes, chunkings and stdin kinds, natural schedule and widened exit race.",
         "atexit_sleep_ms=0; files read as date-ordered concatenation of a fresh directory.", "DESIGN.md section 6, C16"),
 "C17": ("exploration", BASE_TECH + "truth-first time histories with the first observation anywhere in the start time's constellation week",
         "As C06 with the first observation before, at or after the start time (first instant of the week, 1 ms before T, last millisecond of the week, uniform).",
         "As C06.", "DESIGN.md section 6, C17"),
 "C18": ("exploration", BASE_TECH + "exhaustive operation sequences against a list model; every snapshot of long runs; concurrent histories recorded at the client boundary and checked for linearizability with porcupine; race detector",
         "All 2^14 (thorough 2^18) Add/snapshot sequences x 8 capacities, long runs far beyond the capacity with every snapshot checked, and thousands of short concurrent histories with unique ids.",
         "porcupine v1.3.0; checker timeout = inconclusive.", "DESIGN.md section 6, C18"),
 "C19": ("exploration", BASE_TECH + "the real proxy process on TCP loopback with harness-side upstream, client and HTTP poller; pinned report template; listed messages parsed back from hex dumps and matched against the same build's framing",
         "Relay equality in both directions, process survival, HTML escaping of all traffic-derived report parts and membership of listed messages are observed over sessions of mixed/hostile/HTML-bearing traffic, plus in-process Status calls.",
         "TLS mode and server-closes-first behaviour are not covered.", "DESIGN.md section 6, C19"),
 "C20": ("exploration", BASE_TECH + "complete enumeration of 4096 types + sentinels against a table written from the property statement",
         "Every type is checked on predicates, constellation, title, decoder-family acceptance, timestamp extraction, Analyse dispatch and display with five synthetic frames each; the space is finite and swept completely.",
         "Bodies per type are samples (5 quick / 69 thorough).", "DESIGN.md section 6, C20"),
}

PENDING = {}

def main():
    ids = ["C%02d" % i for i in range(1, 21)]
    checks = []
    na = []
    for i in ids:
        if i in CHECKS:
            cat, tech, text, note, ref = CHECKS[i]
            checks.append({
                "property_id": i,
                "quick_cmd": "./bin/vcheck %s --tier quick" % i,
                "thorough_cmd": "./bin/vcheck %s --tier thorough" % i,
                "evidence_file": "evidence/%s.json" % i,
                "replay_cmd_template": "./bin/vcheck %s --replay {path}" % i,
                "engine": "vcheck",
                "level_claimed": {"category": cat, "text": text, "design_ref": ref},
                "level_note": note,
                "technique": tech,
            })
        else:
            na.append({"property_id": i, "reason": PENDING.get(i, "check under construction in this round; not claimed until it has been validated on the unchanged tree and against seeded breakages")})
    man = {
        "version": 1,
        "setup_cmd": "cd harness && GOFLAGS=-mod=mod GOPROXY=off GOSUMDB=off GOTOOLCHAIN=local go build -o ../bin/vcheck ./cmd/vcheck && cd .. && ./bin/vcheck setup",
        "hooks": {
            "guard": "verif",
            "enable": "no instrumentation is committed to the repository: at check time harness/inject rewrites the repository's current source files (a verifhook.At(id) call before every channel operation, go statement and application write call) into a scratch directory and every monitor and application binary is built with 'go build -overlay <that description>'; the overlay also adds the package github.com/goblimey/go-ntrip/verifhook and the in-process monitor test files for the package-main directories",
            "baseline_off_cmd": "cd /repo && GOFLAGS=-mod=mod GOPROXY=off GOSUMDB=off go test -json -vet=off -count=1 -timeout 25m ./...",
            "source_commits": [],
            "add_only": True,
        },
        "engines": [{
            "name": "vcheck",
            "path": "harness/cmd/vcheck (driver), harness/cmd/vmon (monitors), harness/inject (check-time hook overlay), harness/ref + harness/gen (independent oracles and generators)",
            "serves_properties": [c["property_id"] for c in checks],
            "kind_free_text": "runtime monitors and offline trace checkers over real executions of the code built from /repo's working tree; child process per batch for crash containment; Go race detector; check-time yield/delay hooks via go build -overlay; porcupine for the concurrent queue histories",
        }],
        "checks": checks,
        "not_applicable": na,
        "notes": "All verdicts come from oracles observing executions of the real code; see DESIGN.md. Known findings (if any) are in known_findings.txt.",
    }
    with open(os.path.join(ROOT, "MANIFEST.json"), "w") as f:
        json.dump(man, f, indent=1)
        f.write("\n")

if __name__ == "__main__":
    main()
