#!/usr/bin/env python3
"""Regenerates /verif/MANIFEST.json from the table below (kept in one place so the
manifest stays valid while checks are added)."""
import json, os, sys

ROOT = os.path.dirname(os.path.dirname(os.path.abspath(__file__)))

BASE_TECH = "runtime monitoring: generated workload run through the real code, "

CHECKS = {
 # id: (category, technique, level text, level note, design ref)
 "C14": ("exploration",
         BASE_TECH + "math/big reference oracle + outside-bit complement invariance; exhaustive over alignments x widths",
         "Every (alignment, width, signedness) combination is executed on structured patterns (exhaustive) and on millions of random buffers; each result is compared with an independent math/big extraction and must not change when all bits outside the field are complemented. Finite structured space swept completely; random part is sampling.",
         "Trusts math/big and the harness bit helpers (self-checked by a writer/extractor round trip at every run).",
         "DESIGN.md section 6, C14"),
}

PENDING = {}

def main():
    ids = ["C%02d" % i for i in range(1, 21)]
    checks = []
    na = []
    for i in ids:
        if i in CHECKS:
            cat, tech, text, note, ref = CHECKS[i]
            checks.append({
                "property_id": i,
                "quick_cmd": "./bin/vcheck %s --tier quick" % i,
                "thorough_cmd": "./bin/vcheck %s --tier thorough" % i,
                "evidence_file": "evidence/%s.json" % i,
                "replay_cmd_template": "./bin/vcheck %s --replay {path}" % i,
                "engine": "vcheck",
                "level_claimed": {"category": cat, "text": text, "design_ref": ref},
                "level_note": note,
                "technique": tech,
            })
        else:
            na.append({"property_id": i, "reason": PENDING.get(i, "check under construction in this round; not claimed until it has been validated on the unchanged tree and against seeded breakages")})
    man = {
        "version": 1,
        "setup_cmd": "cd harness && GOFLAGS=-mod=mod GOPROXY=off GOSUMDB=off GOTOOLCHAIN=local go build -o ../bin/vcheck ./cmd/vcheck && cd .. && ./bin/vcheck setup",
        "hooks": {
            "guard": "verif",
            "enable": "no instrumentation is committed to the repository: at check time harness/inject rewrites the repository's current source files (a verifhook.At(id) call before every channel operation, go statement and application write call) into a scratch directory and every monitor and application binary is built with 'go build -overlay <that description>'; the overlay also adds the package github.com/goblimey/go-ntrip/verifhook and the in-process monitor test files for the package-main directories",
            "baseline_off_cmd": "cd /repo && GOFLAGS=-mod=mod GOPROXY=off GOSUMDB=off go test -json -vet=off -count=1 -timeout 25m ./...",
            "source_commits": [],
            "add_only": True,
        },
        "engines": [{
            "name": "vcheck",
            "path": "harness/cmd/vcheck (driver), harness/cmd/vmon (monitors), harness/inject (check-time hook overlay), harness/ref + harness/gen (independent oracles and generators)",
            "serves_properties": [c["property_id"] for c in checks],
            "kind_free_text": "runtime monitors and offline trace checkers over real executions of the code built from /repo's working tree; child process per batch for crash containment; Go race detector; check-time yield/delay hooks via go build -overlay; porcupine for the concurrent queue histories",
        }],
        "checks": checks,
        "not_applicable": na,
        "notes": "All verdicts come from oracles observing executions of the real code; see DESIGN.md. Known findings (if any) are in known_findings.txt.",
    }
    with open(os.path.join(ROOT, "MANIFEST.json"), "w") as f:
        json.dump(man, f, indent=1)
        f.write("\n")

if __name__ == "__main__":
    main()
