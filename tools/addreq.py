#!/usr/bin/env python3
"""addreq.py <ID> <counter> [...]: add required event counters to a property in harness/cmd/vcheck/props.go"""
import re, sys
p='/verif/harness/cmd/vcheck/props.go'
s=open(p).read()
pid=sys.argv[1]
m=re.search(r'\t"%s": \{\n\t\tRequire:\s+\[\]string\{([^}]*)\}'%pid, s)
assert m, pid
items=[x.strip() for x in m.group(1).split(',') if x.strip()]
for c in sys.argv[2:]:
    q='"%s"'%c
    if q not in items: items.append(q)
s=s[:m.start(1)]+', '.join(items)+s[m.end(1):]
open(p,'w').write(s)
