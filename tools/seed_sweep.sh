#!/bin/bash
# Runs every quick check at several seeds against /repo and reports anything that is
# not a silent pass.  Intended for `vp run` (from a snapshot: VERIF_ROOT=$PWD) or
# directly in /verif.  usage: seed_sweep.sh "2 3 7 42 1000" [ids...]
export GOFLAGS=-mod=mod GOPROXY=off GOSUMDB=off GOTOOLCHAIN=local
ROOT=${VERIF_ROOT:-/verif}
cd "$ROOT" || exit 2
if [ ! -x bin/vcheck ]; then (cd harness && go build -o ../bin/vcheck ./cmd/vcheck) || exit 2; fi
seeds=${1:-"2 3 7 42 1000"}; shift
ids=${@:-C01 C02 C03 C04 C05 C06 C07 C08 C09 C10 C11 C12 C13 C14 C15 C16 C17 C18 C19 C20}
bad=0
for s in $seeds; do
  for p in $ids; do
    out=$(VERIF_SEED=$s ./bin/vcheck $p --tier quick 2>&1); rc=$?
    line=$(echo "$out" | grep "^$p quick" | cut -c1-170)
    if [ $rc -ne 0 ] || echo "$out" | grep -q "VIOLATION\|INCONCLUSIVE"; then
      bad=$((bad+1)); echo "NOT SILENT seed=$s $p rc=$rc"; echo "$out" | grep -v "^  observed" | head -20
    else
      echo "ok seed=$s $line"
    fi
  done
done
echo "sweep finished: $bad not silent"
